(* C06 at system level: the names of the records the designer writes for the specification of a (nested) system
   are pairwise distinct - sequence and super-sequence names of all instances and signals are distinct from every
   structure name, and no name contains a '*' - when the names written in the program are identifiers
   (no '*', instance and signal names without '-') and no component shares a name between a structure and a sequence. *)
From Coq Require Import List String Ascii Arith Bool ZArith Lia.
From PC Require Import Base.Sexp Base.Codes Comp.Syntax Comp.Compile Comp.Denote Comp.EmitProofs Comp.WfPil Comp.CompileProofs Comp.NameProofs
  Design.Designer Design.Results Design.ResultsProofs Design.LoadProofs Design.RecNames
  Sys.System Sys.SystemProofs Sys.PrefixProofs Sys.DesSys Sys.LoadWf Sys.SysWfPil.
Import ListNotations.
Local Open Scope string_scope.
Local Open Scope list_scope.

Definition seq_line_names (ls : list pline) : list string :=
  flat_map (fun l => match l with PSeq n _ _ => [n] | PSup n _ _ => [n] | _ => [] end) ls.
Definition struct_line_names (ls : list pline) : list string :=
  flat_map (fun l => match l with PStruct _ n _ _ => [n] | _ => [] end) ls.
Lemma seq_line_names_app a b : seq_line_names (a ++ b) = seq_line_names a ++ seq_line_names b.
Proof. unfold seq_line_names. apply flat_map_app. Qed.
Lemma struct_line_names_app a b : struct_line_names (a ++ b) = struct_line_names a ++ struct_line_names b.
Proof. unfold struct_line_names. apply flat_map_app. Qed.
Lemma in_seq_line_names ls n : In n (seq_line_names ls) <-> (exists k len, In (PSeq n k len) ls) \/ (exists its len, In (PSup n its len) ls).
Proof. unfold seq_line_names. rewrite in_flat_map. split.
  - intros [l [Hl H]]. destruct l as [n0 k len|n0 its len|d n0 its len|o n0 ss s|lo hi ins outs|items]; simpl in H; try contradiction; destruct H as [<-|[]]; [left; eauto | right; eauto].
  - intros [[k [len H]]|[its [len H]]]; eexists; (split; [exact H | left; reflexivity]). Qed.
Lemma in_struct_line_names ls n : In n (struct_line_names ls) <-> exists o ss s, In (PStruct o n ss s) ls.
Proof. unfold struct_line_names. rewrite in_flat_map. split.
  - intros [l [Hl H]]. destruct l as [n0 k len|n0 its len|d n0 its len|o n0 ss s|lo hi ins outs|items]; simpl in H; try contradiction. destruct H as [<-|[]]. eauto.
  - intros [o [ss [s H]]]. eexists. split; [exact H | left; reflexivity]. Qed.

(* the names written in the program are identifiers *)
Fixpoint names_ok2 (fuel : nat) (o : obj) : Prop :=
  match fuel with
  | O => True
  | S f =>
      match o with
      | OComp c => NI c
      | OSys _ comps sigs _ _ _ =>
          (forall cn sub, In (cn, sub) comps -> no_dash cn /\ nostar cn /\ names_ok2 f sub) /\
          (forall s e, In (s, e) sigs -> no_dash s /\ nostar s)
      end
  end.

Lemma nostar_dash : nostar "-".
Proof. unfold nostar. simpl. intros [C|[]]. discriminate. Qed.

(* every sequence / structure name of the emitted document starts with the object's prefix and has no '*';
   no structure is named like a sequence *)
Theorem sys_doc_names : forall f o p, sys_wf f o -> wp p o -> nostar p -> names_ok2 f o ->
  (forall n, In n (seq_line_names (emit_obj f o)) \/ In n (struct_line_names (emit_obj f o)) -> (exists m, n = p +++ m) /\ nostar n) /\
  (forall n, In n (struct_line_names (emit_obj f o)) -> In n (seq_line_names (emit_obj f o)) -> False).
Proof. induction f as [|f IH]; intros o p W WP NP N; [destruct W|]. destruct o as [c|pr comps sigs lens i oo].
  - cbn [sys_wf names_ok2 emit_obj] in *. destruct W as [W W2]. simpl in WP. destruct N as [NSTAR DISJ]. subst p.
    assert (SQ : forall n, In n (seq_line_names (emit_comp c)) -> exists m, n = c_prefix c +++ m /\ seq_defined c m = true /\ nostar m).
    { intros n H. apply in_seq_line_names in H. destruct H as [[k [len H]]|[its [len H]]].
      - destruct (emit_comp_seq_line c n k len H) as [m [-> Hm]]. exists m. split; [reflexivity|]. split; [unfold seq_defined; rewrite (In_ahas _ _ Hm); reflexivity | apply NSTAR; auto].
      - destruct (emit_comp_sup_line c n its len H) as [m [-> Hm]]. exists m. split; [reflexivity|]. split; [unfold seq_defined; rewrite (In_ahas _ _ Hm); apply orb_true_r | apply NSTAR; auto]. }
    assert (ST : forall n, In n (struct_line_names (emit_comp c)) -> exists m, n = c_prefix c +++ m /\ In m (map fst (c_structs c))).
    { intros n H. apply in_struct_line_names in H. destruct H as [o [ss [s H]]]. apply (emit_comp_struct_line c o n ss s H). }
    split.
    + intros n [H|H].
      * destruct (SQ n H) as [m [-> [_ X]]]. split; [eauto | apply nostar_app; auto].
      * destruct (ST n H) as [m [-> Hm]]. split; [eauto | apply nostar_app; split; [exact NP | apply NSTAR; auto]].
    + intros n H1 H2. destruct (ST n H1) as [m [-> Hm]]. destruct (SQ _ H2) as [m' [E [SD _]]]. apply append_inj in E. subst m'.
      destruct (DISJ m (In_ahas _ _ Hm)) as [_ X]. congruence.
  - apply wp_sys in WP. destruct WP as [-> [SO WA]]. cbn [sys_wf] in W. destruct W as [NDC [WFS WFE]]. cbn [names_ok2] in N. destruct N as [NC NSg].
    change (emit_obj (S f) (OSys p comps sigs lens i oo)) with (flat_map (fun '(_, sub) => emit_obj f sub) comps ++ flat_map (sig_plines p comps lens) sigs).
    (* names of the instances *)
    assert (SUB : forall cn sub, In (cn, sub) comps ->
      (forall n, In n (seq_line_names (emit_obj f sub)) \/ In n (struct_line_names (emit_obj f sub)) -> (exists m, n = (p +++ cn +++ "-") +++ m) /\ nostar n) /\
      (forall n, In n (struct_line_names (emit_obj f sub)) -> In n (seq_line_names (emit_obj f sub)) -> False)).
    { intros cn sub Hin. destruct (NC cn sub Hin) as [_ [NCN NSUB]]. apply (IH sub (p +++ cn +++ "-") (WFS cn sub Hin) (WA cn sub Hin)); [|exact NSUB].
      apply nostar_app. split; [exact NP|]. apply nostar_app. split; [exact NCN | exact nostar_dash]. }
    assert (CS : forall n, In n (seq_line_names (flat_map (fun '(_, sub) => emit_obj f sub) comps)) -> exists cn sub, In (cn, sub) comps /\ In n (seq_line_names (emit_obj f sub))).
    { intros n H. unfold seq_line_names in H. apply in_flat_map in H. destruct H as [l [Hl H]]. apply in_flat_map in Hl. destruct Hl as [[cn sub] [Hin Hl]].
      exists cn, sub. split; [exact Hin|]. unfold seq_line_names. apply in_flat_map. eauto. }
    assert (CT : forall n, In n (struct_line_names (flat_map (fun '(_, sub) => emit_obj f sub) comps)) -> exists cn sub, In (cn, sub) comps /\ In n (struct_line_names (emit_obj f sub))).
    { intros n H. unfold struct_line_names in H. apply in_flat_map in H. destruct H as [l [Hl H]]. apply in_flat_map in Hl. destruct Hl as [[cn sub] [Hin Hl]].
      exists cn, sub. split; [exact Hin|]. unfold struct_line_names. apply in_flat_map. eauto. }
    assert (GS : forall n, In n (seq_line_names (flat_map (sig_plines p comps lens) sigs)) -> exists s e, In (s, e) sigs /\ n = p +++ s).
    { intros n H. unfold seq_line_names in H. apply in_flat_map in H. destruct H as [l [Hl H]]. apply in_flat_map in Hl. destruct Hl as [[s e] [Hin Hl]].
      destruct Hl as [<-|[<-|[]]]; [|destruct H]. destruct H as [<-|[]]. eauto. }
    assert (GT : struct_line_names (flat_map (sig_plines p comps lens) sigs) = []).
    { clear. induction sigs as [|[s e] sg IHs]; [reflexivity|]. cbn [flat_map]. rewrite struct_line_names_app, IHs. reflexivity. }
    rewrite seq_line_names_app, struct_line_names_app, GT, app_nil_r. split.
    + intros n [H|H].
      * apply in_app_or in H. destruct H as [H|H].
        -- destruct (CS n H) as [cn [sub [Hin Hn]]]. destruct (proj1 (SUB cn sub Hin) n (or_introl Hn)) as [[m ->] X]. split; [|exact X]. exists (cn +++ "-" +++ m). rewrite !append_assoc3. reflexivity.
        -- destruct (GS n H) as [s [e [Hin ->]]]. split; [eauto | apply nostar_app; split; [exact NP | apply (NSg s e Hin)]].
      * destruct (CT n H) as [cn [sub [Hin Hn]]]. destruct (proj1 (SUB cn sub Hin) n (or_intror Hn)) as [[m ->] X]. split; [|exact X]. exists (cn +++ "-" +++ m). rewrite !append_assoc3. reflexivity.
    + intros n HT HS. destruct (CT n HT) as [c1 [s1 [H1 T1]]]. apply in_app_or in HS. destruct HS as [HS|HS].
      * destruct (CS n HS) as [c2 [s2 [H2 Q2]]]. destruct (String.string_dec c1 c2) as [EQ|NE].
        -- subst c2. assert (s2 = s1).
           { pose proof (afind_In _ _ _ NDC H1) as A1. pose proof (afind_In _ _ _ NDC H2) as A2. rewrite A1 in A2. inversion A2. reflexivity. }
           subst s2. apply (proj2 (SUB c1 s1 H1) n T1 Q2).
        -- destruct (proj1 (SUB c1 s1 H1) n (or_intror T1)) as [[m1 E1] _]. destruct (proj1 (SUB c2 s2 H2) n (or_introl Q2)) as [[m2 E2] _]. rewrite E1 in E2.
           apply (instances_disjoint p c1 c2 m1 m2 (proj1 (NC c1 s1 H1)) (proj1 (NC c2 s2 H2)) NE E2).
      * destruct (GS n HS) as [s [e [Hin E]]]. destruct (proj1 (SUB c1 s1 H1) n (or_intror T1)) as [[m1 E1] _]. rewrite E in E1.
        rewrite append_assoc3 in E1. apply append_cancel_l in E1. rewrite append_assoc3 in E1. apply (no_dash_split s c1 m1 (proj1 (NSg s e Hin)) E1). Qed.

(* hence the record names of the loaded specification of such a system are distinct *)
Theorem system_record_names_distinct o p a recs : sys_wf 12 o -> wp "" o -> names_ok2 12 o ->
  load_spec (emit_obj 12 o) pspec0 = OK p -> output_records p a = OK recs -> NoDup (map fst recs).
Proof. intros W WP N L OR. rewrite (output_records_names p a recs OR).
  destruct (sys_doc_names 12 o "" W WP (fun C => match C with end) N) as [NM DJ]. destruct (load_spec_names _ _ _ L) as [NB [NU NT]].
  assert (SQ : forall n, In n (map fst (p_bases p) ++ map fst (p_sups p)) -> In n (seq_line_names (emit_obj 12 o))).
  { intros n Hn. apply in_seq_line_names. apply in_app_or in Hn. destruct Hn as [Hn|Hn]; [destruct (NB n Hn) as [[]|X]; left; exact X | destruct (NU n Hn) as [[]|X]; right; exact X]. }
  assert (ST : forall n, In n (map fst (p_structs p)) -> In n (struct_line_names (emit_obj 12 o))).
  { intros n Hn. apply in_struct_line_names. destruct (NT n Hn) as [[]|X]. exact X. }
  apply (rec_names_nodup_gen p (load_spec_LI _ _ _ LI_empty L)).
  - intros n Hn. apply (NM n (or_introl (SQ n Hn))).
  - intros n Hn. apply (NM n (or_intror (ST n Hn))).
  - intros n H1 H2. apply (DJ n (ST n H1) (SQ n H2)). Qed.

(* ---- the name hypotheses as a boolean on the loaded object ---- *)
Definition nib (c : comp) : bool :=
  forallb nostarb (map fst (c_bases c) ++ map fst (c_sups c) ++ map fst (c_structs c)) &&
  forallb (fun n => negb (is_anon n) && negb (seq_defined c n)) (map fst (c_structs c)).
Lemma nib_sound c : nib c = true -> NI c.
Proof. unfold nib. intros H. apply andb_prop in H. destruct H as [H1 H2]. rewrite forallb_forall in H1, H2. constructor.
  - intros n Hn. apply nostarb_sound, H1. rewrite !in_app_iff. tauto.
  - intros n Hn. specialize (H2 n (ahas_In _ _ Hn)). apply andb_prop in H2. destruct H2 as [A B]. apply negb_true_iff in A, B. auto. Qed.
Fixpoint names_ok2b (fuel : nat) (o : obj) : bool :=
  match fuel with
  | O => true
  | S f =>
      match o with
      | OComp c => nib c
      | OSys _ comps sigs _ _ _ =>
          forallb (fun cs => no_dashb (fst cs) && nostarb (fst cs) && names_ok2b f (snd cs)) comps &&
          forallb (fun se => no_dashb (fst se) && nostarb (fst se)) sigs
      end
  end.
Lemma names_ok2b_sound : forall f o, names_ok2b f o = true -> names_ok2 f o.
Proof. induction f as [|f IH]; intros o H; [exact I|]. destruct o as [c|pr comps sigs lens i oo]; cbn [names_ok2b names_ok2] in *; [apply nib_sound, H|].
  apply andb_prop in H. destruct H as [H1 H2]. rewrite forallb_forall in H1, H2. split.
  - intros cn sub Hin. specialize (H1 (cn, sub) Hin). cbn [fst snd] in H1. apply andb_prop in H1. destruct H1 as [A C]. apply andb_prop in A. destruct A as [A B].
    split; [apply no_dashb_sound, A | split; [apply nostarb_sound, B | apply IH, C]].
  - intros s e Hin. specialize (H2 (s, e) Hin). cbn [fst] in H2. apply andb_prop in H2. destruct H2 as [A B]. split; [apply no_dashb_sound, A | apply nostarb_sound, B]. Qed.
Lemma names_ok2_ok : forall f o, names_ok2 f o -> names_ok f o.
Proof. induction f as [|f IH]; intros o H; [exact I|]. destruct o as [c|pr comps sigs lens i oo]; cbn [names_ok2 names_ok] in *; [exact I|]. destruct H as [H1 H2]. split.
  - intros cn sub Hin. destruct (H1 cn sub Hin) as [A [_ B]]. split; [exact A | apply IH, B].
  - intros s e Hin. apply (H2 s e Hin). Qed.
