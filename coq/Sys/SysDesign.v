(* C09 / C06 / C14 for whole systems: the specification the compiler writes for a (nested) system passes
   wf_pil, is accepted by the designer's loader, and constraint generation then returns arrays or
   reports over-constraint. *)
From Coq Require Import List String Ascii Arith Bool ZArith.
From PC Require Import Base.Sexp Base.Codes Comp.Syntax Comp.Compile Comp.WfPil Design.Designer Design.CrossProofs
  Sys.System Sys.PrefixProofs Sys.LoadWf Sys.SysWfPil.
Import ListNotations.
Local Open Scope string_scope.

Theorem compiled_system_wf_pil fs includes ctr basename args lines ctr' :
  compile_top fs includes ctr basename args [] = OK (lines, ctr') ->
  exists o, load_file fs includes 12 ctr basename args "" "." = OK (o, ctr') /\ lines = emit_obj 12 o /\
    (names_ok 12 o -> wf_pil lines = true).
Proof. unfold compile_top. intros H. destruct (load_file fs includes 12 ctr basename args "" ".") as [[o c1]|] eqn:L; [|discriminate].
  cbn [bind fst snd fix_all] in H. inversion H; subst. exists o. split; [reflexivity | split; [reflexivity|]].
  intros N. apply (loaded_system_wf_pil fs includes ctr basename args o ctr' L N). Qed.

Theorem compiled_system_designs fs includes ctr basename args lines ctr' :
  compile_top fs includes ctr basename args [] = OK (lines, ctr') ->
  (forall o, load_file fs includes 12 ctr basename args "" "." = OK (o, ctr') -> names_ok 12 o) ->
  (forall n k len, In (PSeq n k len) lines -> valid_template k = true) ->
  wf_pil lines = true /\ (exists p, load_spec lines pspec0 = OK p) /\
  (design_arrays lines false = DOver \/ exists e w s, design_arrays lines false = DOk e w s).
Proof. intros H N VT. destruct (compiled_system_wf_pil _ _ _ _ _ _ _ H) as [o [L [E WF]]]. pose proof (WF (N o L)) as W.
  split; [exact W|]. split; [apply (wf_pil_loads lines W VT) | apply (wf_pil_designs lines W VT)]. Qed.
