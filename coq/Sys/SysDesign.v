(* C09 / C06 / C14 for whole systems: the specification the compiler writes for a (nested) system passes
   wf_pil, is accepted by the designer's loader, and constraint generation then returns arrays or
   reports over-constraint. *)
From Coq Require Import List String Ascii Arith Bool ZArith.
From PC Require Import Base.Sexp Base.Codes Comp.Syntax Comp.Compile Comp.WfPil Design.Designer Design.CrossProofs Design.Results Design.ResultsProofs
  Design.Loaded Design.SeedTotal Design.SysFinish Finish.Apply Sys.System Sys.PrefixProofs Sys.LoadWf Sys.SysWfPil Sys.SysNames.
Import ListNotations.
Local Open Scope string_scope.

Theorem compiled_system_wf_pil fs includes ctr basename args lines ctr' :
  compile_top fs includes ctr basename args [] = OK (lines, ctr') ->
  exists o, load_file fs includes 12 ctr basename args "" "." = OK (o, ctr') /\ lines = emit_obj 12 o /\
    (names_ok 12 o -> wf_pil lines = true).
Proof. unfold compile_top. intros H. destruct (load_file fs includes 12 ctr basename args "" ".") as [[o c1]|] eqn:L; [|discriminate].
  cbn [bind fst snd fix_all] in H. inversion H; subst. exists o. split; [reflexivity | split; [reflexivity|]].
  intros N. apply (loaded_system_wf_pil fs includes ctr basename args o ctr' L N). Qed.

Theorem compiled_system_designs fs includes ctr basename args lines ctr' :
  compile_top fs includes ctr basename args [] = OK (lines, ctr') ->
  (forall o, load_file fs includes 12 ctr basename args "" "." = OK (o, ctr') -> names_ok 12 o) ->
  (forall n k len, In (PSeq n k len) lines -> valid_template k = true) ->
  wf_pil lines = true /\ (exists p, load_spec lines pspec0 = OK p) /\
  (design_arrays lines false = DOver \/ exists e w s, design_arrays lines false = DOk e w s).
Proof. intros H N VT. destruct (compiled_system_wf_pil _ _ _ _ _ _ _ H) as [o [L [E WF]]]. pose proof (WF (N o L)) as W.
  split; [exact W|]. split; [apply (wf_pil_loads lines W VT) | apply (wf_pil_designs lines W VT)]. Qed.

(* the whole chain for a compiled (nested) system: compile -> load in the designer -> arrays -> any fitting string ->
   records -> finishing the whole system object succeeds *)
Theorem compiled_system_end_to_end fs includes ctr basename args lines ctr' :
  compile_top fs includes ctr basename args [] = OK (lines, ctr') ->
  (forall o, load_file fs includes 12 ctr basename args "" "." = OK (o, ctr') -> names_ok 12 o) ->
  (forall n k len, In (PSeq n k len) lines -> valid_template k = true) ->
  exists o p lay g, load_file fs includes 12 ctr basename args "" "." = OK (o, ctr') /\ load_spec lines pspec0 = OK p /\ seed p false = OK (lay, g) /\
    (get_constraints p false = DOver \/
     exists e w s, get_constraints p false = DOk e w s /\
       forall nts, fits nts e w ->
         exists a recs, process_results p lay nts = OK a /\ output_records p a = OK recs /\
           (NoDup (map fst recs) -> exists f, apply_obj 12 (table_of recs) o = OK f)).
Proof. intros H N VT. destruct (compiled_system_wf_pil _ _ _ _ _ _ _ H) as [o [L [E WF]]]. pose proof (WF (N o L)) as W.
  destruct (wf_pil_loads lines W VT) as [p LOAD]. destruct (seed_total lines p LOAD) as [g SEED].
  exists o, p, (build_layout p false), g. split; [exact L | split; [exact LOAD | split; [exact SEED|]]].
  destruct (loaded_total lines p _ g LOAD SEED) as [O|[e [w [s A]]]]; [left; exact O|]. right. exists e, w, s. split; [exact A|].
  intros nts F. subst lines. apply (system_design_finishes o p _ g e w s nts (proj1 (load_file_sys_wf fs includes 12 _ _ _ _ _ _ _ L)) LOAD SEED A F). Qed.

(* ... and with the names of the program being identifiers (no '*', no '-' in instance and signal names, no structure named
   like a sequence of its component) no hypothesis on the records is left *)
Theorem compiled_system_end_to_end_names fs includes ctr basename args lines ctr' :
  compile_top fs includes ctr basename args [] = OK (lines, ctr') ->
  (forall o, load_file fs includes 12 ctr basename args "" "." = OK (o, ctr') -> names_ok2 12 o) ->
  (forall n k len, In (PSeq n k len) lines -> valid_template k = true) ->
  exists o p lay g, load_file fs includes 12 ctr basename args "" "." = OK (o, ctr') /\ load_spec lines pspec0 = OK p /\ seed p false = OK (lay, g) /\
    (get_constraints p false = DOver \/
     exists e w s, get_constraints p false = DOk e w s /\
       forall nts, fits nts e w ->
         exists a recs, process_results p lay nts = OK a /\ output_records p a = OK recs /\ exists f, apply_obj 12 (table_of recs) o = OK f).
Proof. intros H N VT.
  destruct (compiled_system_end_to_end fs includes ctr basename args lines ctr' H (fun o L => names_ok2_ok 12 o (N o L)) VT) as [o [p [lay [g [L [LOAD [SEED R]]]]]]].
  exists o, p, lay, g. split; [exact L | split; [exact LOAD | split; [exact SEED|]]]. destruct R as [O|[e [w [s [A F]]]]]; [left; exact O|]. right. exists e, w, s. split; [exact A|].
  intros nts FT. destruct (F nts FT) as [a [recs [PR [OR FIN]]]]. exists a, recs. split; [exact PR | split; [exact OR|]]. apply FIN.
  destruct (compiled_system_wf_pil _ _ _ _ _ _ _ H) as [o' [L' [E _]]]. rewrite L in L'. inversion L'; subst o'. subst lines.
  apply (system_record_names_distinct o p a recs (proj1 (load_file_sys_wf fs includes 12 _ _ _ _ _ _ _ L)) (load_file_wp fs includes 12 _ _ _ _ _ _ _ L) (N o L) LOAD OR). Qed.
