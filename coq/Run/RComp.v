(* Driver entry for the component compile model (C01, C09, C10, C14, C18): decoders of the
   program AST and encoders of the emitted PIL lines. *)
From Coq Require Import List String Ascii Arith Bool.
From Coq Require Import ZArith.
From PC Require Import Base.Sexp Comp.Syntax Comp.Struct Comp.Wild Comp.Compile Comp.WfCheck Comp.WfPil Comp.NameProofs Subst.VarSubst Run.RC13.
Import ListNotations.
Local Open Scope string_scope.

Definition d_char (s : sexp) : option ascii :=
  match s with At (String c EmptyString) => Some c | _ => None end.

(* numbers of a template are literals or ("e" expression) evaluated under the parameter
   environment: decoding a template under an environment IS its instantiation *)
Definition dNe (e : env) (s : sexp) : option nat :=
  match s with
  | Li [At "e"; x] => match d_expr 64 x with
                      | Some ex => match eval e ex with
                                   | Some z => if (z <? 0)%Z then None else Some (Z.to_nat z)
                                   | None => None end
                      | None => None end
  | _ => dN s
  end.

Definition d_part_e (e : env) (s : sexp) : option part :=
  match s with
  | Li [At "?"; c] => option_map (fun c => (MWild, c)) (d_char c)
  | Li [n; c] => match dNe e n, d_char c with Some n, Some c => Some (MNum n, c) | _, _ => None end
  | _ => None
  end.
Definition d_part := d_part_e [].

Definition d_item_e (e : env) (s : sexp) : option item :=
  match s with
  | Li [At "nuc"; ps] => option_map INuc (dL (d_part_e e) ps)
  | Li [At "ref"; At n; b] => option_map (IRef n) (dB b)
  | Li [At "dom"; At n; b] => option_map (IDom n) (dB b)
  | _ => None
  end.
Definition d_item := d_item_e [].

Definition sym_of_char (c : ascii) : option sym :=
  match c with
  | "."%char => Some Dot | "("%char => Some Open | ")"%char => Some Close | "+"%char => Some Plus
  | _ => None end.
Definition char_of_sym (s : sym) : ascii :=
  match s with Dot => "."%char | Open => "("%char | Close => ")"%char | Plus => "+"%char end.
Definition d_syms (s : sexp) : option (list sym) :=
  match s with At a => mapM sym_of_char (chars a) | _ => None end.
Definition s_syms (l : list sym) : sexp := At (unchars (map char_of_sym l)).
Definition d_sym1 (s : sexp) : option sym :=
  match d_char s with Some c => sym_of_char c | None => None end.

Fixpoint d_hu_e (e : env) (s : sexp) : option huterm :=
  match s with
  | Li [At "+"] => Some HPlus
  | Li [At "U"; n] => option_map HU (dNe e n)
  | Li [At "H"; n; Li body] =>
      match dNe e n, (fix go (l : list sexp) : option (list huterm) :=
                     match l with
                     | [] => Some []
                     | x :: r => match d_hu_e e x, go r with Some y, Some ys => Some (y :: ys) | _, _ => None end
                     end) body with
      | Some n, Some b => Some (HH n b)
      | _, _ => None
      end
  | _ => None
  end.

Definition d_hu := d_hu_e [].
Definition d_snot_e (e : env) (s : sexp) : option snot :=
  match s with
  | Li [At "hu"; t] => option_map NHU (dL (d_hu_e e) t)
  | Li [At "ext"; l] => option_map NExt (dL (dP (dNe e) d_sym1) l)
  | _ => None
  end.
Definition d_snot := d_snot_e [].

Definition d_stmt_e (e : env) (s : sexp) : option stmt :=
  match s with
  | Li [At "seq"; At name; items; len] =>
      match dL (d_item_e e) items, dO (dNe e) len with Some i, Some l => Some (SSeq name i l) | _, _ => None end
  | Li [At "strand"; d; At name; items; len] =>
      match dB d, dL (d_item_e e) items, dO (dNe e) len with
      | Some d, Some i, Some l => Some (SStrand d name i l) | _, _, _ => None end
  | Li [At "struct"; opt; At name; strands; dom; sn] =>
      match dN opt, dL dS strands, dB dom, d_snot_e e sn with
      | Some o, Some ss, Some d, Some n => Some (SStruct o name ss d n) | _, _, _, _ => None end
  | Li [At "kin"; lo; hi; ins; outs] =>
      match dO dS lo, dO dS hi, dL dS ins, dL dS outs with
      | Some l, Some h, Some i, Some o => Some (SKin l h i o) | _, _, _, _ => None end
  | _ => None
  end.

Definition d_stmt := d_stmt_e [].
Definition d_port (s : sexp) : option port :=
  match s with
  | Li [At n; b; sn] => match dB b, dO dS sn with Some b, Some sn => Some ((n, b), sn) | _, _ => None end
  | _ => None
  end.
Definition d_declare (s : sexp) : option declare :=
  match s with
  | Li [At n; ins; outs] =>
      match dL d_port ins, dL d_port outs with
      | Some i, Some o => Some {| d_name := n; d_ins := i; d_outs := o |} | _, _ => None end
  | _ => None
  end.

Definition s_name (p : string * bool) : sexp := Li [At (fst p); sB (snd p)].
Definition s_pline (l : pline) : sexp :=
  match l with
  | PSeq n k len => Li [At "sequence"; At n; At (unchars k); sN len]
  | PSup n items len => Li [At "sup-sequence"; At n; sL s_name items; sN len]
  | PStrand d n items len => Li [At "strand"; sB d; At n; sL s_name items; sN len]
  | PStruct o n ss s => Li [At "structure"; sN o; At n; sL sS ss; s_syms s]
  | PKin lo hi i o => Li [At "kinetic"; sO sS lo; sO sS hi; sL sS i; sL sS o]
  | PEqual items => Li [At "equal"; sL s_name items]
  end.

Definition s_ref (x : ref) : sexp :=
  match x with RB n r => Li [At "b"; At n; sB r] | RS n r => Li [At "s"; At n; sB r] end.
Definition s_sup (n : string) (s : sup) : sexp :=
  Li [At n; sL s_ref (s_seqs s); sL s_name (s_base s); sN (s_len s)].
(* the objects behind the emitted lines: (sups, strands) with their item and base-sequence lists *)
Definition s_objs (c : comp) : sexp :=
  Li [sL (fun p => s_sup (fst p) (snd p)) (c_sups c);
      sL (fun p => s_sup (fst p) (t_sup (snd p))) (c_strands c);
      sL (fun p => Li [At (fst p); At (unchars (b_const (snd p))); sN (b_len (snd p))]) (c_bases c)].

Definition d_nameb (s : sexp) : option (string * bool) := dP dS dB s.
Definition d_pline (s : sexp) : option pline :=
  match s with
  | Li [At "sequence"; At n; At k; len] => option_map (PSeq n (chars k)) (dN len)
  | Li [At "sup-sequence"; At n; items; len] =>
      match dL d_nameb items, dN len with Some i, Some l => Some (PSup n i l) | _, _ => None end
  | Li [At "strand"; d; At n; items; len] =>
      match dB d, dL d_nameb items, dN len with Some d, Some i, Some l => Some (PStrand d n i l) | _, _, _ => None end
  | Li [At "structure"; o; At n; ss; dp] =>
      match dN o, dL dS ss, d_syms dp with Some o, Some ss, Some s => Some (PStruct o n ss s) | _, _, _ => None end
  | Li [At "kinetic"; ins; outs] =>
      match dL dS ins, dL dS outs with Some i, Some o => Some (PKin None None i o) | _, _ => None end
  | Li [At "equal"; items] => option_map PEqual (dL d_nameb items)
  | _ => None
  end.
(* the well-formedness predicate of C09, evaluated on a document the harness read from a real .pil *)
Definition run_wfpil (req : sexp) : sexp :=
  match dL d_pline req with Some lines => sB (wf_pil lines) | None => bad_request end.

Definition run_comp (req : sexp) : sexp :=
  match req with
  | Li [ctr; At prefix; d; body] =>
      match dN ctr, d_declare d, dL d_stmt body with
      | Some ctr, Some d, Some body =>
          match compile_comp ctr prefix d body with
          | OK (c, ctr') => sOk (Li [sN ctr'; sL s_pline (emit_comp c); sB (wf_check c && wf_check2 c); s_objs c; sB (body_nostarb body)])
          | Err k => sErr k
          end
      | _, _, _ => bad_request
      end
  | _ => bad_request
  end.
