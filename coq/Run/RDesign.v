(* Driver entry for the designer front-end model (C04, C05, C15). *)
From Coq Require Import List String Ascii Arith Bool.
From Coq Require Import ZArith.
From PC Require Import Base.Sexp Comp.Syntax Design.Designer Design.DesignerProofs Design.TemplateProofs Design.DGraph Design.DenoteTie Design.Results SSM.Contract SSM.Search SSM.ValidProofs Run.RComp.
Import ListNotations.
Local Open Scope string_scope.

Definition s_ochar (o : option ascii) : sexp :=
  match o with Some c => At (String c EmptyString) | None => At "None" end.

(* the hypothesis of the C04/C05/C15 theorems (graph_ok: every link endpoint initialised, the template
   table keyed by exactly the initialised nodes, every initial template a code), checked on the
   graph seeded for this document *)
Definition closed_flag (ls : list pline) (so : bool) : bool :=
  match load_spec ls pspec0 with
  | OK p => match seed p so with OK (_, g) => graph_ok g | Err _ => true end
  | Err _ => true
  end.

(* hypotheses of the denotation theorems, per layout: the graph seed returns is the declarative graph,
   the loaded specification is well formed, the node encoding is increasing and links join declared nodes,
   every strand position sits where the layout says *)
Definition denote_flags (ls : list pline) (so : bool) : list bool :=
  match load_spec ls pspec0 with
  | OK p => match seed p so with
            | OK (lay, g) => [same_graph p lay so g; spec_okb p so; dgraph_ok p lay so; place_okb p lay so]
            | Err _ => [] end
  | Err _ => []
  end.
Definition run_denote (req : sexp) : sexp :=
  match req with
  | Li [lines] => match dL d_pline lines with
                  | Some ls => Li [sL sB (denote_flags ls false); sL sB (denote_flags ls true)]
                  | None => bad_request end
  | _ => bad_request
  end.

(* C06: process_results + output(findmfe=False): the records of the .mfe file for a designed string *)
Definition run_results (req : sexp) : sexp :=
  match req with
  | Li [lines; so; At nts] =>
      match dL d_pline lines, dB so with
      | Some ls, Some so =>
          match design_results ls so (chars nts) with
          | OK recs => Li [At "ok"; sL (fun nv => Li [At (fst nv); At (unchars (snd nv))]) recs]
          | Err k => Li [At "err"; At k]
          end
      | _, _ => bad_request
      end
  | _ => bad_request
  end.

Definition run_design (req : sexp) : sexp :=
  match req with
  | Li [lines; so] =>
      match dL d_pline lines, dB so with
      | Some ls, Some so =>
          match design_arrays ls so with
          | DOk eq wc st => Li [At "ok"; sL (sO sN) eq; sL (sO sN) wc; sL s_ochar st; sB (closed_flag ls so)]
          | DOver => Li [At "over"; sB (closed_flag ls so)]
          | DErr k => Li [At "err"; At k]
          end
      | _, _ => bad_request
      end
  | _ => bad_request
  end.

(* C05: the contract predicate on the parsed contents of real .eq / .wc / .st files, and the
   model's prediction of those contents *)
Definition run_contract (req : sexp) : sexp :=
  match req with
  | Li [eq; wc; At st] =>
      match dL dZ eq, dL dZ wc with
      | Some e, Some w => sB (contract_ok e w (chars st))
      | _, _ => bad_request
      end
  | _ => bad_request
  end.
Definition run_files (req : sexp) : sexp :=
  match req with
  | Li [lines; so] =>
      match dL d_pline lines, dB so with
      | Some ls, Some so =>
          match design_arrays ls so with
          | DOk eq wc st => Li [At "ok"; sL (fun x => sZ (eq_map x)) eq; sL (fun x => sZ (wc_map x)) wc; At (unchars (map st_map st))]
          | DOver => Li [At "over"]
          | DErr k => Li [At "err"; At k]
          end
      | _, _ => bad_request
      end
  | _ => bad_request
  end.

(* C19: the validity predicate on a sequence printed by the real binary: (st wc eq S) *)
(* C19 ties: constrain on an arbitrary start sequence; one accepted search step = some mutation of a
   free location to another base of its template; consistency of the triple (hypothesis of the theorems) *)
Definition run_ssmconstrain (req : sexp) : sexp :=
  match req with
  | Li [At st; wc; eq; At sq] =>
      match dL dZ wc, dL dZ eq with
      | Some w, Some e => At (unchars (constrain {| t_st := chars st; t_wc := w; t_eq := e |} (chars sq)))
      | _, _ => bad_request
      end
  | _ => bad_request
  end.
Definition is_mutation (t : triple) (a b : list ascii) : bool :=
  existsb (fun i => existsb (fun c => negb (Ascii.eqb c (nthc a i)) && compatible (nthc (t_st t) i) c &&
                                       String.eqb (unchars (mutate t a i c)) (unchars b)) ["A"; "C"; "G"; "T"]%char) (freeloc t).
Definition run_ssmstep (req : sexp) : sexp :=
  match req with
  | Li [At st; wc; eq; At a; At b] =>
      match dL dZ wc, dL dZ eq with
      | Some w, Some e => sB (is_mutation {| t_st := chars st; t_wc := w; t_eq := e |} (chars a) (chars b))
      | _, _ => bad_request
      end
  | _ => bad_request
  end.
Definition run_ssmtriple (req : sexp) : sexp :=
  match req with
  | Li [At st; wc; eq] =>
      match dL dZ wc, dL dZ eq with
      | Some w, Some e => sB (triple_ok {| t_st := chars st; t_wc := w; t_eq := e |})
      | _, _ => bad_request
      end
  | _ => bad_request
  end.

Definition run_ssmvalid (req : sexp) : sexp :=
  match req with
  | Li [At st; wc; eq; At sq] =>
      match dL dZ wc, dL dZ eq with
      | Some w, Some e => sB (valid_output {| t_st := chars st; t_wc := w; t_eq := e |} (chars sq))
      | _, _ => bad_request
      end
  | _ => bad_request
  end.
