(* Driver entries for C08: the structure-notation model evaluated on request. *)
From Coq Require Import List String Ascii Arith.
From PC Require Import Base.Sexp Comp.Syntax Comp.Struct Run.RComp.
Import ListNotations.
Local Open Scope string_scope.

Fixpoint s_hu (t : huterm) : sexp :=
  match t with
  | HPlus => Li [At "+"]
  | HU n => Li [At "U"; sN n]
  | HH n b => Li [At "H"; sN n; Li ((fix go (l : list huterm) : list sexp :=
                                       match l with [] => [] | x :: r => s_hu x :: go r end) b)]
  end.

Definition s_res (r : res (list sym)) : sexp :=
  match r with OK s => sOk (s_syms s) | Err k => sErr k end.

Definition run_C08 (req : sexp) : sexp :=
  match req with
  | Li [At "snot"; n] => match d_snot n with Some n => s_res (compile_snot n) | None => bad_request end
  | Li [At "dp2hu"; s] =>
      match d_syms s with
      | Some l => match parse_tree l with
                  | Some t => sOk (Li [sL s_hu (dp2hu t); s_syms (expand (dp2hu t)); s_syms (unparse t)])
                  | None => sErr "unbalanced"
                  end
      | None => bad_request
      end
  | Li [At "domain"; s; doms] =>
      match d_syms s, dL (dL dN) doms with
      | Some l, Some d => s_res (domain_expand l d)
      | _, _ => bad_request
      end
  | Li [At "balanced"; s] => match d_syms s with Some l => sB (balanced l) | None => bad_request end
  | _ => bad_request
  end.
