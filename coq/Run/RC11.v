(* Driver entry points for C11: the model's code algebra, evaluated on request. *)
From Coq Require Import List String Ascii.
From PC Require Import Base.Sexp Base.Codes.
Import ListNotations.
Local Open Scope string_scope.

Definition one_char (s : string) : option ascii :=
  match s with String c EmptyString => Some c | _ => None end.

Definition run_C11 (req : sexp) : sexp :=
  match req with
  | Li [At "inter"; At a; At b] =>
      match one_char a, one_char b with
      | Some ca, Some cb =>
          match code_inter ca cb with
          | IOk c => Li [At "ok"; At (String c EmptyString)]
          | IEmpty => Li [At "empty"]
          | IKeyErr => Li [At "keyerr"]
          end
      | _, _ => bad_request
      end
  | Li [At "wc"; At s] =>
      match wc_codes (chars s) with
      | Some r => Li [At "ok"; At (unchars r)]
      | None => Li [At "keyerr"]
      end
  | Li [At "group"; At a] =>
      match one_char a with
      | Some ca => match group ca with
                   | Some g => Li [At "ok"; At (unchars (map base_char (bset_list g)))]
                   | None => Li [At "keyerr"]
                   end
      | None => bad_request
      end
  | Li [At "compl"; At a] =>
      match one_char a with
      | Some ca => match compl_code ca with
                   | Some c => Li [At "ok"; At (String c EmptyString)]
                   | None => Li [At "keyerr"]
                   end
      | None => bad_request
      end
  | _ => bad_request
  end.
