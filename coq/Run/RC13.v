(* Driver entry for C13: process_list on (lines, parameter environment, expression table). *)
From Coq Require Import List String Ascii Arith ZArith.
From PC Require Import Base.Sexp Subst.VarSubst.
Import ListNotations.
Local Open Scope string_scope.

Fixpoint d_expr (fuel : nat) (s : sexp) : option expr :=
  match fuel with
  | O => None
  | S f =>
      match s with
      | Li [At "n"; z] => option_map ENum (dZ z)
      | Li [At "v"; At n] => Some (EVar n)
      | Li [At "neg"; a] => option_map ENeg (d_expr f a)
      | Li [At op; a; b] =>
          match d_expr f a, d_expr f b with
          | Some x, Some y =>
              if String.eqb op "+" then Some (EAdd x y) else if String.eqb op "-" then Some (ESub x y)
              else if String.eqb op "*" then Some (EMul x y) else if String.eqb op "//" then Some (EDiv x y)
              else if String.eqb op "%" then Some (EMod x y) else None
          | _, _ => None
          end
      | _ => None
      end
  end.

Definition run_C13 (req : sexp) : sexp :=
  match req with
  | Li [lines; envs; tbl] =>
      match dL dS lines, dL (dP dS dZ) envs, dL (dP dS (d_expr 64)) tbl with
      | Some ls, Some e, Some t =>
          match process t (rev e) (map chars ls) [] with
          | POk out => Li [At "ok"; At (unchars out)]
          | PEvalError => Li [At "evalerror"]
          | PUnsupported src => Li [At "unsupported"; At (unchars src)]
          | PFuel => Li [At "fuel"]
          end
      | _, _, _ => bad_request
      end
  | _ => bad_request
  end.
