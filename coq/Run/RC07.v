(* Driver entry for C07: (keys eq-alist wc-alist) -> table for every key, or the error kind. *)
From Coq Require Import List String Arith.
From PC Require Import Base.Sexp Design.Propagate.
Import ListNotations.
Local Open Scope string_scope.

Fixpoint alookup (t : list (nat * list nat)) (y : nat) : list nat :=
  match t with [] => [] | (k, v) :: r => if Nat.eqb k y then v else alookup r y end.

Definition run_C07 (req : sexp) : sexp :=
  match req with
  | Li [ks; eqs; wcs] =>
      match dL dN ks, dL (dP dN (dL dN)) eqs, dL (dP dN (dL dN)) wcs with
      | Some keys, Some eqt, Some wct =>
          match propagate (alookup eqt) (alookup wct) keys with
          | OOk m => sOk (sL (fun k => match get m k with
                                        | Some (E, W) => Li [sN k; sL sN E; sL sN W]
                                        | None => Li [sN k; At "missing"]
                                        end) keys)
          | OAssert => sErr "assert"
          | OFuel => sErr "fuel"
          end
      | _, _, _ => bad_request
      end
  | _ => bad_request
  end.
