(* Driver entry for the system model (C02, C12, C18, C03). *)
From Coq Require Import List String Ascii Arith Bool ZArith.
From PC Require Import Base.Sexp Comp.Syntax Comp.Compile Subst.VarSubst Sys.System Sys.Des Sys.DesSys Sys.SysWfPil Sys.SysNames Finish.Apply Run.RComp.
Import ListNotations.
Local Open Scope string_scope.

Definition d_fentry (s : sexp) : option (string * fentry) :=
  match s with
  | Li [At path; k; ps; body] =>
      match dB k, dL dS ps with
      | Some k, Some ps => Some (path, {| f_sys := k; f_params := ps; f_body := body |})
      | _, _ => None end
  | _ => None
  end.
Definition d_fixed (s : sexp) : option (string * string * list ascii) :=
  match s with Li [At k; At n; At v] => Some (k, n, chars v) | _ => None end.

(* (files includes ctr basename args fixed) *)
Definition run_sys (req : sexp) : sexp :=
  match req with
  | Li [files; incs; ctr; At base; args; fixed] =>
      match dL d_fentry files, dL dS incs, dN ctr, dL dZ args, dL d_fixed fixed with
      | Some fs, Some incs, Some ctr, Some args, Some fx =>
          match compile_top fs incs ctr base args fx with
          | OK (lines, ctr') =>
              (* the name hypothesis of the system-level C09 / C06 theorems, evaluated on the loaded object *)
              let flags := match load_file fs incs 12 ctr base args "" "." with
                           | OK r => [sB (names_okb 12 (fst r)); sB (names_ok2b 12 (fst r))]
                           | Err _ => [] end in
              sOk (Li [sN ctr'; sL s_pline lines; Li flags])
          | Err k => sErr k
          end
      | _, _, _, _, _ => bad_request
      end
  | _ => bad_request
  end.

Definition s_dline (l : dline) : sexp :=
  match l with
  | DStruct n s => Li [At "structure"; At n; s_syms s]
  | DSeq n k => Li [At "sequence"; At n; At (unchars k)]
  | DAssign n seqs => Li [At "assign"; At n; sL s_name seqs]
  | DObjective n o => Li [At "objective"; At n; sN o]
  end.
Definition run_des (req : sexp) : sexp :=
  match req with
  | Li [files; incs; ctr; At base; args] =>
      match dL d_fentry files, dL dS incs, dN ctr, dL dZ args with
      | Some fs, Some incs, Some ctr, Some args =>
          match compile_des fs incs ctr base args with
          | OK (lines, ctr') =>
              (* the boolean hypotheses of the system-level C03 theorem, evaluated on the loaded object *)
              let flags := match load_file fs incs 12 ctr base args "" "." with
                           | OK r => [sB (sys_okb 12 (fst r)); sB (des_doc_okb (emit_des_obj 12 (fst r)))]
                           | Err _ => [] end in
              sOk (Li [sN ctr'; sL s_dline lines; Li flags])
          | Err k => sErr k
          end
      | _, _, _, _ => bad_request
      end
  | _ => bad_request
  end.

(* finish: (files includes ctr basename args fixed records) -> the three output tables *)
Definition d_record (s : sexp) : option (string * list ascii) :=
  match s with Li [At n; At v] => Some (n, chars v) | _ => None end.
Definition run_finish (req : sexp) : sexp :=
  match req with
  | Li [files; incs; ctr; At base; args; fixed; records] =>
      match dL d_fentry files, dL dS incs, dN ctr, dL dZ args, dL d_fixed fixed, dL d_record records with
      | Some fs, Some incs, Some ctr, Some args, Some fx, Some recs =>
          match load_file fs incs 12 ctr base args "" "." with
          | OK (o, _) =>
              match fix_all o fx with
              | OK o' =>
                  match apply_obj 12 (table_of recs) o' with
                  | OK f => sOk (Li [sL (fun p => Li [At (fst p); At (unchars (snd p))]) (fi_seqs f);
                                     sL (fun p => Li [At (fst (fst p)); sB (snd (fst p)); At (unchars (snd p))]) (fi_strands f);
                                     sL (fun p => Li [At (fst p); At (unchars (snd p))]) (fi_structs f)])
                  | Err k => sErr k
                  end
              | Err k => sErr ("fix-" ++ k)
              end
          | Err k => sErr ("load-" ++ k)
          end
      | _, _, _, _, _, _ => bad_request
      end
  | _ => bad_request
  end.
