(* C18: what an earlier compilation in the same process can change is the starting value of the
   anonymous counter; compiling the same component from another starting value gives the same
   object up to the consistent renumbering  _Anon(ctr+k) -> _Anon(ctr'+k)  of anonymous
   sequences (hypothesis: the program neither defines nor mentions a name of the reserved form). *)
From Coq Require Import List String Ascii Arith Bool Lia.
From PC Require Import Comp.Syntax Comp.Struct Comp.Wild Comp.Compile Comp.EmitProofs Comp.WfPil Comp.CompileProofs Hist.Purity.
Import ListNotations.
Local Open Scope list_scope.

Section Ren.
Variable rho : string -> string.
Variable D : string -> Prop.
Variables lo hi lo' : nat.
Hypothesis rho_inj : forall a b, D a -> D b -> rho a = rho b -> a = b.
Hypothesis rho_user : forall n, is_anon n = false -> D n /\ rho n = n.
Hypothesis rho_anon : forall k, lo <= k < hi -> D (anon_name k) /\ rho (anon_name k) = anon_name (k - lo + lo').
Hypothesis D_cases : forall n, D n -> is_anon n = false \/ exists k, lo <= k < hi /\ n = anon_name k.

Definition sh (k : nat) : nat := k - lo + lo'.
Definition r_ref (x : ref) : ref := match x with RB n r => RB (rho n) r | RS n r => RS n r end.
Definition r_bref (x : bref) : bref := (rho (fst x), snd x).
Definition r_tbl (t : list (string * bseq)) : list (string * bseq) := map (fun kv => (rho (fst kv), snd kv)) t.
Definition r_sup (s : sup) : sup := {| s_seqs := map r_ref (s_seqs s); s_base := map r_bref (s_base s); s_len := s_len s |}.
Definition r_strand (t : strand) : strand := {| t_sup := r_sup (t_sup t); t_dummy := t_dummy t |}.
Definition r_sups (l : list (string * sup)) := map (fun kv => (fst kv, r_sup (snd kv))) l.
Definition r_strands (l : list (string * strand)) := map (fun kv => (fst kv, r_strand (snd kv))) l.
Definition r_ports (l : list (ref * option string)) := map (fun p => (r_ref (fst p), snd p)) l.
Definition r_comp (c : comp) : comp :=
  {| c_prefix := c_prefix c; c_bases := r_tbl (c_bases c); c_sups := r_sups (c_sups c); c_strands := r_strands (c_strands c);
     c_structs := c_structs c; c_kins := c_kins c; c_ins := r_ports (c_ins c); c_outs := r_ports (c_outs c) |}.

Definition keysD (t : list (string * bseq)) : Prop := forall k, In k (map fst t) -> D k.

Lemma afind_r_tbl t n : keysD t -> D n -> afind (r_tbl t) (rho n) = afind t n.
Proof. intros K Dn. induction t as [|[k v] t IH]; [reflexivity|]. simpl.
  assert (Dk : D k) by (apply K; left; reflexivity).
  destruct (String.eqb k n) eqn:E.
  - apply String.eqb_eq in E. subst. rewrite String.eqb_refl. reflexivity.
  - destruct (String.eqb (rho k) (rho n)) eqn:E2.
    + apply String.eqb_eq in E2. apply (rho_inj k n Dk Dn) in E2. subst. rewrite String.eqb_refl in E. discriminate.
    + apply IH. intros k' Hk. apply K. right. exact Hk. Qed.
Lemma ahas_r_tbl t n : keysD t -> D n -> ahas (r_tbl t) (rho n) = ahas t n.
Proof. intros K Dn. unfold ahas. rewrite (afind_r_tbl t n K Dn). reflexivity. Qed.
Lemma base_len_r t n : keysD t -> D n -> base_len (r_tbl t) (rho n) = base_len t n.
Proof. intros K Dn. unfold base_len. rewrite (afind_r_tbl t n K Dn). reflexivity. Qed.

Lemma afind_r_sups l n : afind (r_sups l) n = option_map r_sup (afind l n).
Proof. induction l as [|[k v] l IH]; [reflexivity|]. simpl. destruct (String.eqb k n); [reflexivity | exact IH]. Qed.
Lemma ahas_r_sups l n : ahas (r_sups l) n = ahas l n.
Proof. unfold ahas. rewrite afind_r_sups. destruct (afind l n); reflexivity. Qed.
Lemma afind_r_strands l n : afind (r_strands l) n = option_map r_strand (afind l n).
Proof. induction l as [|[k v] l IH]; [reflexivity|]. simpl. destruct (String.eqb k n); [reflexivity | exact IH]. Qed.
Lemma ahas_r_strands l n : ahas (r_strands l) n = ahas l n.
Proof. unfold ahas. rewrite afind_r_strands. destruct (afind l n); reflexivity. Qed.

Definition refD (x : ref) : Prop := match x with RB n _ => D n | RS _ _ => True end.

Lemma r_ref_flip x : r_ref (rflip x) = rflip (r_ref x). Proof. destruct x; reflexivity. Qed.
Lemma r_bref_flip x : r_bref (bflip x) = bflip (r_bref x). Proof. destruct x; reflexivity. Qed.
Lemma r_rc_refs l : map r_ref (rc_refs l) = rc_refs (map r_ref l).
Proof. unfold rc_refs. rewrite map_map, <- map_rev, map_map. apply map_ext. intros x. apply r_ref_flip. Qed.
Lemma r_rc_brefs l : map r_bref (rc_brefs l) = rc_brefs (map r_bref l).
Proof. unfold rc_brefs. rewrite map_map, <- map_rev, map_map. apply map_ext. intros x. apply r_bref_flip. Qed.

Lemma ref_len_r c x : keysD (c_bases c) -> refD x -> ref_len (r_comp c) (r_ref x) = ref_len c x.
Proof. intros K Dx. destruct x as [n r|n r]; simpl.
  - apply (base_len_r _ _ K Dx).
  - rewrite afind_r_sups. destruct (afind (c_sups c) n); reflexivity. Qed.
Lemma ref_base_r c x : ref_base (r_comp c) (r_ref x) = map r_bref (ref_base c x).
Proof. destruct x as [n r|n r]; simpl; [reflexivity|]. rewrite afind_r_sups.
  destruct (afind (c_sups c) n) as [s|]; [|reflexivity]. simpl. destruct r; [symmetry; apply r_rc_brefs | reflexivity]. Qed.

(* ---- names of super-sequences are user names ---- *)
Definition user_keys {V} (l : list (string * V)) : Prop := forall k, In k (map fst l) -> is_anon k = false.
Lemma ahas_user_rho {V} (l : list (string * V)) n : user_keys l -> D n -> ahas l (rho n) = ahas l n.
Proof. intros U Dn. destruct (D_cases n Dn) as [Hn|[k [Hk ->]]].
  - rewrite (proj2 (rho_user n Hn)). reflexivity.
  - rewrite (proj2 (rho_anon k Hk)).
    assert (F : forall j, ahas l (anon_name j) = false).
    { intros j. destruct (ahas l (anon_name j)) eqn:A; [|reflexivity]. apply ahas_true_In in A. apply U in A.
      rewrite anon_is_anon in A. discriminate. }
    rewrite !F. reflexivity. Qed.

(* ---- clean_const ---- *)
Definition r_citem (x : citem) : citem := match x with CRef r => CRef (r_ref r) | CNuc ps => CNuc ps end.

Lemma clean_const_r c : keysD (c_bases c) -> forall items const,
  clean_const c items = OK const -> clean_const (r_comp c) items = OK (map r_citem const).
Proof. intros K. induction items as [|it items IH]; intros const H; simpl in H.
  - inversion H. reflexivity.
  - destruct it as [ps|n star|n star]; simpl in H |- *.
    + destruct (clean_const c items) as [r|]; [|discriminate]. simpl in H. inversion H; subst.
      rewrite (IH r eq_refl). reflexivity.
    + destruct (is_anon n) eqn:H1; [discriminate|]. destruct (rho_user n H1) as [Dn Rn].
      rewrite <- Rn at 1. rewrite (ahas_r_tbl _ _ K Dn), ahas_r_sups.
      destruct (ahas (c_bases c) n).
      * destruct (clean_const c items) as [r|]; [|discriminate]. simpl in H. inversion H; subst.
        rewrite (IH r eq_refl). simpl. rewrite Rn. reflexivity.
      * destruct (ahas (c_sups c) n); [|discriminate].
        destruct (clean_const c items) as [r|]; [|discriminate]. simpl in H. inversion H; subst.
        rewrite (IH r eq_refl). reflexivity.
    + destruct (is_anon n) eqn:H1; [discriminate|]. unfold ref_seqs in *. cbn [r_comp c_sups]. rewrite afind_r_sups.
      destruct (afind (c_sups c) n) as [s|]; [|discriminate]. simpl.
      destruct (clean_const c items) as [r|]; [|discriminate]. simpl in H. inversion H; subst.
      rewrite (IH r eq_refl). simpl. rewrite map_app, !map_map. f_equal. f_equal.
      destruct star; [rewrite <- r_rc_refs, map_map; reflexivity | rewrite map_map; reflexivity]. Qed.

(* ---- the SuperSequence constructor ---- *)
Definition r_q (q : bstate) : bstate :=
  {| q_seqs := map r_ref (q_seqs q); q_base := map r_bref (q_base q); q_len := q_len q; q_wild := q_wild q;
     q_anons := r_tbl (q_anons q); q_ctr := sh (q_ctr q) |}.

Lemma bs_loop_ctr c : forall items q q', bs_loop c items q = OK q' -> q_ctr q <= q_ctr q'.
Proof. induction items as [|it items IH]; intros q q' H; simpl in H; [inversion H; lia|].
  destruct it as [x|ps].
  - apply IH in H. exact H.
  - destruct (get_length_const None ps); try discriminate.
    + apply IH in H. simpl in H. lia.
    + destruct (q_wild q); [discriminate|]. apply IH in H. exact H. Qed.

Lemma sh_S k : lo <= k -> sh (S k) = S (sh k). Proof. unfold sh. lia. Qed.
Lemma r_bref_pair n r : r_bref (n, r) = (rho n, r). Proof. reflexivity. Qed.
Lemma r_tbl_app t1 t2 : r_tbl (t1 ++ t2) = r_tbl t1 ++ r_tbl t2. Proof. apply map_app. Qed.
Lemma r_tbl_one n b : r_tbl [(n, b)] = [(rho n, b)]. Proof. reflexivity. Qed.

Lemma bs_loop_r c : keysD (c_bases c) -> forall items q q', (forall x, In (CRef x) items -> refD x) ->
  lo <= q_ctr q -> bs_loop c items q = OK q' -> q_ctr q' <= hi ->
  bs_loop (r_comp c) (map r_citem items) (r_q q) = OK (r_q q').
Proof. intros K. induction items as [|it items IH]; intros q q' HD L H B; simpl in H.
  - inversion H. reflexivity.
  - assert (HD' : forall x, In (CRef x) items -> refD x) by (intros x Hx; apply HD; right; exact Hx).
    destruct it as [x|ps]; cbn [map r_citem bs_loop].
    + match type of H with bs_loop _ _ ?q1 = _ => rewrite <- (IH q1 q' HD' L H B) end. f_equal. unfold r_q. cbn [q_seqs q_base q_len q_wild q_anons q_ctr].
      rewrite !map_app, (ref_base_r c x), (ref_len_r c x K (HD x (or_introl eq_refl))). reflexivity.
    + destruct (get_length_const None ps) as [l k| |k] eqn:G; try discriminate.
      * pose proof (bs_loop_ctr _ _ _ _ H) as M. cbn [q_ctr] in M.
        assert (R : lo <= q_ctr q < hi) by lia. destruct (rho_anon _ R) as [_ RA].
        match type of H with bs_loop _ _ ?q1 = _ => rewrite <- (IH q1 q' HD' ltac:(cbn [q_ctr]; lia) H B) end. f_equal. unfold r_q.
        cbn [q_seqs q_base q_len q_wild q_anons q_ctr]. rewrite !map_app, r_tbl_app, r_tbl_one. cbn [map r_ref]. rewrite r_bref_pair, RA, (sh_S _ L). unfold sh. reflexivity.
      * destruct (q_wild q) eqn:W; [discriminate|]. cbn [r_q q_wild]. rewrite W.
        match type of H with bs_loop _ _ ?q1 = _ => rewrite <- (IH q1 q' HD' L H B) end. f_equal. unfold r_q. cbn [q_seqs q_base q_len q_wild q_anons q_ctr].
        rewrite !map_length. reflexivity. Qed.

Lemma map_insert_at {A B} (f : A -> B) x : forall i l, map f (insert_at i x l) = insert_at i (f x) (map f l).
Proof. induction i as [|i IH]; intros l; [reflexivity|]. destruct l as [|y l]; simpl; [reflexivity | rewrite IH; reflexivity]. Qed.

Lemma build_super_r c ctr items len s anons ctr1 : keysD (c_bases c) -> (forall x, In (CRef x) items -> refD x) ->
  lo <= ctr -> ctr1 <= hi -> build_super c ctr items len = OK (s, anons, ctr1) ->
  build_super (r_comp c) (sh ctr) (map r_citem items) len = OK (r_sup s, r_tbl anons, sh ctr1).
Proof. intros K HD L B H. unfold build_super in *.
  destruct (bs_loop c items _) as [q|k] eqn:BL; [|discriminate]. cbn [bind] in H.
  pose proof (bs_loop_ctr _ _ _ _ BL) as M. cbn [q_ctr] in M.
  assert (QB : q_ctr q <= hi).
  { destruct (q_wild q) as [[[i j] ps]|]; [destruct len as [Ln|]; [|discriminate]; destruct (Nat.ltb Ln (q_len q)); [discriminate|];
      destruct (get_length_const _ ps); try discriminate; inversion H; lia|].
    destruct len as [Ln|]; [destruct (Nat.eqb Ln (q_len q)); [|discriminate]|]; inversion H; lia. }
  pose proof (bs_loop_r c K items {| q_seqs := []; q_base := []; q_len := 0; q_wild := None; q_anons := []; q_ctr := ctr |} q HD L BL QB) as BR.
  change (r_q {| q_seqs := []; q_base := []; q_len := 0; q_wild := None; q_anons := []; q_ctr := ctr |})
    with {| q_seqs := []; q_base := []; q_len := 0; q_wild := None; q_anons := []; q_ctr := sh ctr |} in BR.
  rewrite BR. cbn [bind r_q q_wild q_len q_seqs q_base q_anons q_ctr].
  destruct (q_wild q) as [[[i j] ps]|].
  - destruct len as [Ln|]; [|discriminate]. destruct (Nat.ltb Ln (q_len q)); [discriminate|].
    destruct (get_length_const (Some (Ln - q_len q)) ps) as [l k| |k]; try discriminate.
    inversion H; subst s anons ctr1. assert (R : lo <= q_ctr q < hi) by lia. destruct (rho_anon _ R) as [_ RA].
    unfold r_sup. cbn [s_seqs s_base s_len]. rewrite !map_insert_at, r_tbl_app, r_tbl_one, r_bref_pair. cbn [r_ref]. rewrite RA, (sh_S (q_ctr q) ltac:(lia)). unfold sh. reflexivity.
  - destruct len as [Ln|]; [destruct (Nat.eqb Ln (q_len q)); [|discriminate]|]; inversion H; subst; reflexivity. Qed.

(* ---- register ---- *)
Lemma keysD_app t x b : keysD t -> D x -> keysD (t ++ [(x, b)]).
Proof. intros K Dx k Hk. rewrite map_app in Hk. apply in_app_or in Hk. destruct Hk as [Hk|[<-|[]]]; [apply K, Hk | exact Dx]. Qed.

Lemma register_r sups anons : user_keys sups -> keysD anons -> forall seqs bases, keysD bases -> (forall x, In x seqs -> refD x) ->
  register (r_tbl bases) (r_sups sups) (r_tbl anons) (map r_ref seqs) = r_tbl (register bases sups anons seqs).
Proof. intros U KA. induction seqs as [|x seqs IH]; intros bases KB HD; [reflexivity|].
  assert (HD' : forall y, In y seqs -> refD y) by (intros y Hy; apply HD; right; exact Hy).
  destruct x as [n r|n r]; cbn [map r_ref register]; [|apply (IH _ KB HD')].
  pose proof (HD _ (or_introl eq_refl)) as Dn. simpl in Dn.
  rewrite (ahas_r_tbl _ _ KB Dn), ahas_r_sups, (ahas_user_rho _ _ U Dn), (afind_r_tbl _ _ KA Dn).
  destruct (ahas bases n || ahas sups n); [apply (IH _ KB HD')|].
  destruct (afind anons n) as [b|]; [|apply (IH _ KB HD')].
  rewrite <- (IH _ (keysD_app _ _ b KB Dn) HD'). rewrite r_tbl_app, r_tbl_one. reflexivity. Qed.

(* ---- the invariant carried along the statements ---- *)
Record dom_ok (c : comp) : Prop := { d_bases : keysD (c_bases c); d_sups : user_keys (c_sups c) }.

Lemma defined_refD c x : keysD (c_bases c) -> ref_defined c x -> refD x.
Proof. intros K H. destruct x as [n r|n r]; simpl in *; [|exact I]. apply K, ahas_true_In, H. Qed.

Lemma anon_keys_D ctr anons ctr1 : lo <= ctr -> ctr1 <= hi -> map fst anons = anon_names ctr (ctr1 - ctr) -> keysD anons.
Proof. intros L B E k Hk. rewrite E in Hk. apply anon_names_In in Hk. destruct Hk as [j [Hj ->]]. apply rho_anon. lia. Qed.

Lemma seq_defined_r c name : keysD (c_bases c) -> is_anon name = false -> seq_defined (r_comp c) name = seq_defined c name.
Proof. intros K HN. unfold seq_defined. cbn [r_comp c_bases c_sups]. destruct (rho_user name HN) as [Dn Rn].
  rewrite <- Rn at 1. rewrite (ahas_r_tbl _ _ K Dn), ahas_r_sups. reflexivity. Qed.

Lemma r_sups_app a b : r_sups (a ++ b) = r_sups a ++ r_sups b. Proof. apply map_app. Qed.
Lemma r_strands_app a b : r_strands (a ++ b) = r_strands a ++ r_strands b. Proof. apply map_app. Qed.

Lemma built_refD c ctr s anons ctr1 : keysD (c_bases c) -> lo <= ctr -> ctr1 <= hi -> built c ctr s anons ctr1 ->
  forall x, In x (s_seqs s) -> refD x.
Proof. intros K L B [B1 B2 B3 B4 B5 B6 B7] x Hx. destruct (B4 x Hx) as [H|[m [-> H]]]; [apply (defined_refD c x K H)|].
  simpl. apply (anon_keys_D ctr anons ctr1 L B B2 m H). Qed.

Lemma add_super_sequence_r c ctr name items len c1 ctr1 : INV c ctr -> dom_ok c -> lo <= ctr -> ctr1 <= hi ->
  add_super_sequence c ctr name items len = OK (c1, ctr1) ->
  add_super_sequence (r_comp c) (sh ctr) name items len = OK (r_comp c1, sh ctr1) /\ dom_ok c1.
Proof. intros [W W2 F] [KB US] L B H. unfold add_super_sequence in *. destruct (is_anon name) eqn:HN; [discriminate|].
  rewrite (seq_defined_r c name KB HN). destruct (seq_defined c name) eqn:SD; [discriminate|].
  change (c_structs (r_comp c)) with (c_structs c). destruct (ahas (c_structs c) name); [discriminate|].
  destruct (clean_const c items) as [const|] eqn:CC; [|discriminate]. cbn [bind] in H.
  rewrite (clean_const_r c KB items const CC). cbn [bind].
  destruct (build_super c ctr const len) as [[[s anons] k1]|] eqn:BS; [|discriminate]. cbn [bind] in H.
  injection H as H1 H2. subst k1.
  pose proof (clean_const_spec c W items const CC) as CD.
  pose proof (build_super_spec c ctr const len s anons ctr1 F CD BS) as BT.
  assert (HDc : forall x, In (CRef x) const -> refD x) by (intros x Hx; apply (defined_refD c x KB), CD, Hx).
  rewrite (build_super_r c ctr const len s anons ctr1 KB HDc L B BS). cbn [bind].
  pose proof (anon_keys_D ctr anons ctr1 L B (bt_names _ _ _ _ _ BT)) as KA.
  assert (US' : user_keys (c_sups c ++ [(name, s)])).
  { intros k Hk. rewrite map_app in Hk. apply in_app_or in Hk. destruct Hk as [Hk|[<-|[]]]; [apply US, Hk | exact HN]. }
  assert (HS : forall k, ctr <= k -> ahas (c_sups c ++ [(name, s)]) (anon_name k) = false).
  { intros k Hk. destruct (ahas (c_sups c ++ [(name, s)]) (anon_name k)) eqn:A; [|reflexivity].
    apply ahas_true_In in A. apply US' in A. rewrite anon_is_anon in A. discriminate. }
  destruct (register_built c ctr s anons ctr1 _ F BT HS) as [X [E [ND HX]]].
  split.
  - subst c1. unfold r_comp. cbn [c_prefix c_bases c_sups c_strands c_structs c_kins c_ins c_outs r_sup s_seqs].
    rewrite <- (register_r _ anons US' KA (s_seqs s) (c_bases c) KB (built_refD c ctr s anons ctr1 KB L B BT)).
    rewrite r_sups_app. reflexivity.
  - subst c1. constructor; cbn [c_bases c_sups]; [|exact US'].
    rewrite E. intros k Hk. rewrite map_app in Hk. apply in_app_or in Hk. destruct Hk as [Hk|Hk]; [apply KB, Hk|].
    apply in_map_iff in Hk. destruct Hk as [[k' b] [<- Hin]]. apply HX in Hin. apply KA. apply in_map_iff. exists (k', b). auto. Qed.

Lemma add_strand_r c ctr dummy name items len c1 ctr1 : INV c ctr -> dom_ok c -> lo <= ctr -> ctr1 <= hi ->
  add_strand c ctr dummy name items len = OK (c1, ctr1) ->
  add_strand (r_comp c) (sh ctr) dummy name items len = OK (r_comp c1, sh ctr1) /\ dom_ok c1.
Proof. intros [W W2 F] [KB US] L B H. unfold add_strand in *. cbn [r_comp c_strands]. rewrite ahas_r_strands.
  destruct (ahas (c_strands c) name) eqn:SD; [discriminate|].
  destruct (clean_const c items) as [const|] eqn:CC; [|discriminate]. cbn [bind] in H.
  change (clean_const _ items) with (clean_const (r_comp c) items).
  rewrite (clean_const_r c KB items const CC). cbn [bind].
  destruct (build_super c ctr const len) as [[[s anons] k1]|] eqn:BS; [|discriminate]. cbn [bind] in H.
  destruct (Nat.eqb (s_len s) 0) eqn:Z; [discriminate|]. injection H as H1 H2. subst k1.
  pose proof (clean_const_spec c W items const CC) as CD.
  pose proof (build_super_spec c ctr const len s anons ctr1 F CD BS) as BT.
  assert (HDc : forall x, In (CRef x) const -> refD x) by (intros x Hx; apply (defined_refD c x KB), CD, Hx).
  change (build_super _ (sh ctr) (map r_citem const) len) with (build_super (r_comp c) (sh ctr) (map r_citem const) len).
  rewrite (build_super_r c ctr const len s anons ctr1 KB HDc L B BS). cbn [bind r_sup s_len]. rewrite Z.
  pose proof (anon_keys_D ctr anons ctr1 L B (bt_names _ _ _ _ _ BT)) as KA.
  assert (HS : forall k, ctr <= k -> ahas (c_sups c) (anon_name k) = false) by (intros k Hk; apply (F k Hk)).
  destruct (register_built c ctr s anons ctr1 _ F BT HS) as [X [E [ND HX]]].
  split.
  - subst c1. unfold r_comp. cbn [c_prefix c_bases c_sups c_strands c_structs c_kins c_ins c_outs r_sup s_seqs].
    rewrite <- (register_r _ anons US KA (s_seqs s) (c_bases c) KB (built_refD c ctr s anons ctr1 KB L B BT)).
    rewrite r_strands_app. reflexivity.
  - subst c1. constructor; cbn [c_bases c_sups]; [|exact US].
    rewrite E. intros k Hk. rewrite map_app in Hk. apply in_app_or in Hk. destruct Hk as [Hk|Hk]; [apply KB, Hk|].
    apply in_map_iff in Hk. destruct Hk as [[k' b] [<- Hin]]. apply HX in Hin. apply KA. apply in_map_iff. exists (k', b). auto. Qed.

Lemma add_sequence_r c name ps len c1 : dom_ok c ->
  add_sequence c name ps len = OK c1 -> add_sequence (r_comp c) name ps len = OK (r_comp c1) /\ dom_ok c1.
Proof. intros [KB US] H. unfold add_sequence in *. destruct (is_anon name) eqn:HN; [discriminate|]. rewrite (seq_defined_r c name KB HN).
  destruct (seq_defined c name); [discriminate|]. change (c_structs (r_comp c)) with (c_structs c). destruct (ahas (c_structs c) name); [discriminate|].
  destruct (get_length_const len ps) as [l k| |k]; try discriminate.
  injection H as H. subst c1. destruct (rho_user name HN) as [Dn Rn]. split.
  - unfold r_comp, set_bases. cbn [c_prefix c_bases c_sups c_strands c_structs c_kins c_ins c_outs].
    rewrite r_tbl_app, r_tbl_one, Rn. reflexivity.
  - constructor; cbn [set_bases c_bases c_sups]; [apply (keysD_app _ _ _ KB Dn) | exact US]. Qed.

Lemma find_strands_r c names ts : find_strands c names = OK ts -> find_strands (r_comp c) names = OK (map r_strand ts).
Proof. revert ts. induction names as [|n r IH]; intros ts H; simpl in *; [inversion H; reflexivity|].
  rewrite afind_r_strands. destruct (afind (c_strands c) n) as [t|]; [|discriminate]. simpl.
  destruct (find_strands c r) as [rest|]; [|discriminate]. simpl in H. inversion H; subst. rewrite (IH rest eq_refl). reflexivity. Qed.
Lemma find_strands_In c names ts : find_strands c names = OK ts -> forall t, In t ts -> exists n, In (n, t) (c_strands c).
Proof. revert ts. induction names as [|n r IH]; intros ts H t Ht; simpl in H; [inversion H; subst; destruct Ht|].
  destruct (afind (c_strands c) n) as [t0|] eqn:A; [|discriminate]. destruct (find_strands c r) as [rest|]; [|discriminate].
  simpl in H. inversion H; subst. destruct Ht as [<-|Ht]; [exists n; apply afind_Some_In, A | apply (IH rest eq_refl t Ht)]. Qed.

Lemma add_structure_r c opt name names domain s0 c1 : WF c -> dom_ok c ->
  add_structure c opt name names domain s0 = OK c1 ->
  add_structure (r_comp c) opt name names domain s0 = OK (r_comp c1) /\ dom_ok c1.
Proof. intros W [KB US] H. unfold add_structure in *. change (c_structs (r_comp c)) with (c_structs c).
  destruct (ahas (c_structs c) name); [discriminate|]. destruct (is_anon name) eqn:HN; [discriminate|].
  rewrite (seq_defined_r c name KB HN). destruct (seq_defined c name); [discriminate|]. cbn [r_comp c_structs].
  destruct (find_strands c names) as [ts|] eqn:FS; [|discriminate]. cbn [bind] in H.
  change (find_strands _ names) with (find_strands (r_comp c) names). rewrite (find_strands_r c names ts FS). cbn [bind].
  assert (E1 : map (fun t => map (ref_len (r_comp c)) (s_seqs (t_sup t))) (map r_strand ts) = map (fun t => map (ref_len c) (s_seqs (t_sup t))) ts).
  { rewrite map_map. apply map_ext_in. intros t Ht. cbn [r_strand t_sup r_sup s_seqs]. rewrite map_map. apply map_ext_in. intros x Hx.
    apply (ref_len_r c x KB). destruct (find_strands_In c names ts FS t Ht) as [n Hn].
    pose proof (so_refs _ _ _ (wf_strands c W n t Hn) x Hx) as R. destruct x as [m r|m r]; simpl in *; [apply KB, ahas_true_In, R | exact I]. }
  assert (E2 : map (fun t => s_len (t_sup t)) (map r_strand ts) = map (fun t => s_len (t_sup t)) ts) by (rewrite map_map; reflexivity).
  change (fun t : strand => map (ref_len {| c_prefix := c_prefix c; c_bases := r_tbl (c_bases c); c_sups := r_sups (c_sups c); c_strands := r_strands (c_strands c);
            c_structs := c_structs c; c_kins := c_kins c; c_ins := r_ports (c_ins c); c_outs := r_ports (c_outs c) |}) (s_seqs (t_sup t)))
    with (fun t : strand => map (ref_len (r_comp c)) (s_seqs (t_sup t))).
  rewrite E1, E2.
  match type of H with (do s <- ?e; _) = _ => destruct e as [s|]; [|discriminate] end. cbn [bind] in H |- *.
  destruct (structure_ok s _); [|discriminate]. injection H as H. subst c1. split; [reflexivity|].
  constructor; cbn [c_bases c_sups]; assumption. Qed.

Lemma add_kinetic_r c low high ins0 outs c1 : dom_ok c -> add_kinetic c low high ins0 outs = OK c1 ->
  add_kinetic (r_comp c) low high ins0 outs = OK (r_comp c1) /\ dom_ok c1.
Proof. intros [KB US] H. unfold add_kinetic in *. cbn [r_comp c_structs]. destruct (_ && _); [|discriminate].
  injection H as H. subst c1. split; [reflexivity | constructor; cbn [c_bases c_sups]; assumption]. Qed.

Lemma resolve_ports_r c ps l : keysD (c_bases c) -> resolve_ports c ps = OK l ->
  resolve_ports (r_comp c) ps = OK (r_ports l).
Proof. intros KB. revert l. induction ps as [|[[n star] sn] r IH]; intros l H; simpl in H; [inversion H; reflexivity|].
  destruct (is_anon n) eqn:H1; [discriminate|].
  destruct (rho_user n H1) as [Dn Rn]. cbn [resolve_ports r_comp c_bases c_sups c_structs]. rewrite H1.
  rewrite <- Rn at 1. rewrite (ahas_r_tbl _ _ KB Dn), ahas_r_sups.
  destruct (ahas (c_bases c) n).
  - cbn [bind] in H |- *. destruct sn as [sname|].
    + destruct (ahas (c_structs c) sname); [|discriminate]. cbn [bind] in H |- *.
      destruct (resolve_ports c r) as [rest|]; [|discriminate]. cbn [bind] in H. inversion H; subst.
      change (resolve_ports _ r) with (resolve_ports (r_comp c) r). rewrite (IH rest eq_refl). cbn [bind]. simpl. rewrite Rn. reflexivity.
    + cbn [bind] in H |- *. destruct (resolve_ports c r) as [rest|]; [|discriminate]. cbn [bind] in H. inversion H; subst.
      change (resolve_ports _ r) with (resolve_ports (r_comp c) r). rewrite (IH rest eq_refl). cbn [bind]. simpl. rewrite Rn. reflexivity.
  - destruct (ahas (c_sups c) n); [|discriminate]. cbn [bind] in H |- *. destruct sn as [sname|].
    + destruct (ahas (c_structs c) sname); [|discriminate]. cbn [bind] in H |- *.
      destruct (resolve_ports c r) as [rest|]; [|discriminate]. cbn [bind] in H. inversion H; subst.
      change (resolve_ports _ r) with (resolve_ports (r_comp c) r). rewrite (IH rest eq_refl). reflexivity.
    + cbn [bind] in H |- *. destruct (resolve_ports c r) as [rest|]; [|discriminate]. cbn [bind] in H. inversion H; subst.
      change (resolve_ports _ r) with (resolve_ports (r_comp c) r). rewrite (IH rest eq_refl). reflexivity. Qed.

Lemma add_IO_r c d c1 : dom_ok c -> add_IO c d = OK c1 -> add_IO (r_comp c) d = OK (r_comp c1).
Proof. intros [KB US] H. unfold add_IO in *.
  destruct (resolve_ports c (d_ins d)) as [i|] eqn:RI; [|discriminate]. cbn [bind] in H.
  destruct (resolve_ports c (d_outs d)) as [o|] eqn:RO; [|discriminate]. cbn [bind] in H. injection H as H. subst c1.
  rewrite (resolve_ports_r c _ i KB RI), (resolve_ports_r c _ o KB RO). reflexivity. Qed.

(* ---- statements ---- *)
Lemma step_ctr c ctr s c1 ctr1 : INV c ctr -> step (c, ctr) s = OK (c1, ctr1) -> ctr <= ctr1.
Proof. intros [W W2 F] H. destruct s as [name items len|dummy name items len|opt name names domain sn|low high ins0 outs]; cbn [step] in H.
  - assert (G : add_super_sequence c ctr name items len = OK (c1, ctr1) -> ctr <= ctr1).
    { clear H. intros H. unfold add_super_sequence in H. destruct (is_anon name); [discriminate|]. destruct (seq_defined c name); [discriminate|]. destruct (ahas (c_structs c) name); [discriminate|].
      destruct (clean_const c items) as [const|] eqn:CC; [|discriminate]. cbn [bind] in H.
      destruct (build_super c ctr const len) as [[[s anons] k1]|] eqn:BS; [|discriminate]. cbn [bind] in H. injection H as _ <-.
      apply (bt_ctr _ _ _ _ _ (build_super_spec c ctr const len s anons k1 F (clean_const_spec c W items const CC) BS)). }
    destruct items as [|[ps|n r|n r] [|it2 items]]; try (exact (G H)).
    destruct (add_sequence c name ps len); [|discriminate]. cbn [bind] in H. injection H as _ <-. lia.
  - unfold add_strand in H. destruct (ahas (c_strands c) name); [discriminate|].
    destruct (clean_const c items) as [const|] eqn:CC; [|discriminate]. cbn [bind] in H.
    destruct (build_super c ctr const len) as [[[s anons] k1]|] eqn:BS; [|discriminate]. cbn [bind] in H.
    destruct (Nat.eqb (s_len s) 0); [discriminate|]. injection H as _ <-.
    apply (bt_ctr _ _ _ _ _ (build_super_spec c ctr const len s anons k1 F (clean_const_spec c W items const CC) BS)).
  - destruct (compile_snot sn) as [s0|]; [|discriminate]. cbn [bind] in H. destruct (add_structure c opt name names domain s0); [|discriminate].
    cbn [bind] in H. injection H as _ <-. lia.
  - destruct (add_kinetic c low high ins0 outs); [|discriminate]. cbn [bind] in H. injection H as _ <-. lia. Qed.

Lemma steps_ctr body : forall c ctr c1 ctr1, INV c ctr -> steps (c, ctr) body = OK (c1, ctr1) -> ctr <= ctr1.
Proof. induction body as [|s body IH]; intros c ctr c1 ctr1 I H; cbn [steps] in H; [injection H as _ <-; lia|].
  destruct (step (c, ctr) s) as [[c2 k2]|] eqn:ST; [|discriminate]. cbn [bind] in H.
  pose proof (step_ctr _ _ _ _ _ I ST). pose proof (IH _ _ _ _ (step_inv _ _ _ _ _ I ST) H). lia. Qed.

Lemma step_r c ctr s c1 ctr1 : INV c ctr -> dom_ok c -> lo <= ctr -> ctr1 <= hi ->
  step (c, ctr) s = OK (c1, ctr1) -> step (r_comp c, sh ctr) s = OK (r_comp c1, sh ctr1) /\ dom_ok c1.
Proof. intros I DO L B H. destruct s as [name items len|dummy name items len|opt name names domain sn|low high ins0 outs]; cbn [step] in H |- *.
  - assert (G : add_super_sequence c ctr name items len = OK (c1, ctr1) ->
                add_super_sequence (r_comp c) (sh ctr) name items len = OK (r_comp c1, sh ctr1) /\ dom_ok c1)
      by apply (add_super_sequence_r _ _ _ _ _ _ _ I DO L B).
    destruct items as [|[ps|n r|n r] [|it2 items]]; try (exact (G H)).
    destruct (add_sequence c name ps len) as [c2|] eqn:A; [|discriminate]. cbn [bind] in H. injection H as <- <-.
    destruct (add_sequence_r c name ps len c2 DO A) as [A' D']. rewrite A'. cbn [bind]. auto.
  - apply (add_strand_r _ _ _ _ _ _ _ _ I DO L B H).
  - destruct (compile_snot sn) as [s0|]; [|discriminate]. cbn [bind] in H |- *.
    destruct (add_structure c opt name names domain s0) as [c2|] eqn:A; [|discriminate]. cbn [bind] in H. injection H as <- <-.
    destruct (add_structure_r c opt name names domain s0 c2 (inv_wf _ _ I) DO A) as [A' D']. rewrite A'. cbn [bind]. auto.
  - destruct (add_kinetic c low high ins0 outs) as [c2|] eqn:A; [|discriminate]. cbn [bind] in H. injection H as <- <-.
    destruct (add_kinetic_r c low high ins0 outs c2 DO A) as [A' D']. rewrite A'. cbn [bind]. auto. Qed.

Lemma steps_r body : forall c ctr c1 ctr1, INV c ctr -> dom_ok c -> lo <= ctr -> ctr1 <= hi ->
  steps (c, ctr) body = OK (c1, ctr1) -> steps (r_comp c, sh ctr) body = OK (r_comp c1, sh ctr1) /\ dom_ok c1.
Proof. induction body as [|s body IH]; intros c ctr c1 ctr1 I DO L B H; cbn [steps] in H |- *.
  - injection H as <- <-. auto.
  - destruct (step (c, ctr) s) as [[c2 k2]|] eqn:ST; [|discriminate]. cbn [bind] in H.
    pose proof (step_inv _ _ _ _ _ I ST) as I2.
    pose proof (steps_ctr body _ _ _ _ I2 H) as M2. pose proof (step_ctr _ _ _ _ _ I ST) as M1.
    destruct (step_r c ctr s c2 k2 I DO L ltac:(lia) ST) as [ST' D2]. rewrite ST'. cbn [bind].
    apply (IH c2 k2 c1 ctr1 I2 D2 ltac:(lia) B H). Qed.
End Ren.

(* ---- the concrete renumbering ---- *)
Definition rho_c (lo hi lo' : nat) (n : string) : string :=
  match find (fun k => String.eqb n (anon_name k)) (seq lo (hi - lo)) with
  | Some k => anon_name (k - lo + lo')
  | None => n
  end.
Definition D_c (lo hi : nat) (n : string) : Prop := is_anon n = false \/ exists k, lo <= k < hi /\ n = anon_name k.

Lemma rho_c_user lo hi lo' n : is_anon n = false -> D_c lo hi n /\ rho_c lo hi lo' n = n.
Proof. intros H. split; [left; exact H|]. unfold rho_c.
  destruct (find _ _) as [k|] eqn:F; [|reflexivity]. apply find_some in F. destruct F as [_ E]. apply String.eqb_eq in E.
  subst n. rewrite anon_is_anon in H. discriminate. Qed.
Lemma rho_c_anon lo hi lo' k : lo <= k < hi -> D_c lo hi (anon_name k) /\ rho_c lo hi lo' (anon_name k) = anon_name (k - lo + lo').
Proof. intros H. split; [right; eauto|]. unfold rho_c.
  destruct (find _ _) as [j|] eqn:F.
  - apply find_some in F. destruct F as [_ E]. apply String.eqb_eq, anon_name_injective in E. subst j. reflexivity.
  - exfalso. assert (X := find_none _ _ F k ltac:(apply in_seq; lia)). simpl in X. rewrite String.eqb_refl in X. discriminate. Qed.
Lemma rho_c_inj lo hi lo' a b : D_c lo hi a -> D_c lo hi b -> rho_c lo hi lo' a = rho_c lo hi lo' b -> a = b.
Proof. intros [Ha|[k [Hk ->]]] [Hb|[j [Hj ->]]].
  - rewrite (proj2 (rho_c_user lo hi lo' a Ha)), (proj2 (rho_c_user lo hi lo' b Hb)). auto.
  - rewrite (proj2 (rho_c_user lo hi lo' a Ha)), (proj2 (rho_c_anon lo hi lo' j Hj)). intros ->. rewrite anon_is_anon in Ha. discriminate.
  - rewrite (proj2 (rho_c_user lo hi lo' b Hb)), (proj2 (rho_c_anon lo hi lo' k Hk)). intros <-. rewrite anon_is_anon in Hb. discriminate.
  - rewrite (proj2 (rho_c_anon lo hi lo' j Hj)), (proj2 (rho_c_anon lo hi lo' k Hk)). intros E. apply anon_name_injective in E.
    f_equal. lia. Qed.

(* Compiling the same component from another starting value of the anonymous counter (which is all
   that earlier compilations in the same process can change) succeeds as well and yields the same
   object with _Anon(ctr+k) renamed to _Anon(ctr'+k), the same number of anonymous sequences. *)
Theorem compile_renumber ctr ctr' prefix d body c ctr1 :
  compile_comp ctr prefix d body = OK (c, ctr1) ->
  compile_comp ctr' prefix d body = OK (r_comp (rho_c ctr ctr1 ctr') c, ctr' + (ctr1 - ctr)).
Proof. intros H. unfold compile_comp in *.
  destruct (steps (empty_comp prefix, ctr) body) as [[c1 k1]|] eqn:ST; [|discriminate]. cbn [bind fst snd] in H.
  destruct (add_IO c1 d) as [c2|] eqn:IO; [|discriminate]. cbn [bind] in H. injection H as <- <-.
  pose proof (steps_ctr body _ _ _ _ (INV_empty prefix ctr) ST) as M.
  destruct (steps_r (rho_c ctr k1 ctr') (D_c ctr k1) ctr k1 ctr' (rho_c_inj ctr k1 ctr') (rho_c_user ctr k1 ctr') (rho_c_anon ctr k1 ctr')
              (fun n H => H) body (empty_comp prefix) ctr c1 k1 (INV_empty prefix ctr)) as [ST' DO]; auto.
  - constructor; intros k [].
  - unfold sh in ST'. replace (ctr - ctr + ctr') with ctr' in ST' by lia.
    change (r_comp (rho_c ctr k1 ctr') (empty_comp prefix)) with (empty_comp prefix) in ST'. rewrite ST'. cbn [bind fst snd].
    rewrite (add_IO_r (rho_c ctr k1 ctr') (D_c ctr k1) (rho_c_inj ctr k1 ctr') (rho_c_user ctr k1 ctr') c1 d c2 DO IO).
    cbn [bind]. f_equal. f_equal. lia. Qed.

(* non-vacuity: the demo program of CompileProofs is pure, compiles from 7 and from 40 *)
Example renumber_demo :
  exists c, compile_comp 7 "p-" {| d_name := "p"; d_ins := []; d_outs := [] |} demo_body = OK (c, 9) /\
            map fst (c_bases (r_comp (rho_c 7 9 40) c)) = ["a"; "z"; "_Anon40"; "_Anon41"]%string.
Proof. eexists. split; vm_compute; reflexivity. Qed.

(* ---- the emitted specification is renumbered the same way ---- *)
Fixpoint strip (p s : string) : option string :=
  match p with
  | EmptyString => Some s
  | String a p' => match s with String b s' => if Ascii.eqb a b then strip p' s' else None | EmptyString => None end
  end.
Lemma strip_app p n : strip p (p +++ n) = Some n.
Proof. induction p as [|a p IH]; simpl; [reflexivity|]. rewrite Ascii.eqb_refl. exact IH. Qed.
Definition ren_name (p : string) (f : string -> string) (full : string) : string :=
  match strip p full with Some n => p +++ f n | None => full end.
Lemma ren_name_app p f n : ren_name p f (p +++ n) = p +++ f n.
Proof. unfold ren_name. rewrite strip_app. reflexivity. Qed.
Definition map_items (g : string -> string) (l : list (string * bool)) := map (fun xb => (g (fst xb), snd xb)) l.
Definition map_line (g : string -> string) (l : pline) : pline :=
  match l with
  | PSeq n t len => PSeq (g n) t len
  | PSup n items len => PSup (g n) (map_items g items) len
  | PStrand d n items len => PStrand d (g n) (map_items g items) len
  | PStruct o n strands s => PStruct o (g n) (map g strands) s
  | PKin lo hi ins outs => PKin lo hi (map g ins) (map g outs)
  | PEqual items => PEqual (map_items g items)
  end.

Section Emit.
Variable rho : string -> string.
Variable D : string -> Prop.
Hypothesis rho_inj : forall a b, D a -> D b -> rho a = rho b -> a = b.
Hypothesis rho_user : forall n, is_anon n = false -> D n /\ rho n = n.
Variable c : comp.
Hypothesis W : WF c.
Hypothesis W2 : WF2 c.
Hypothesis KB : keysD D (c_bases c).
Hypothesis US : user_keys (c_sups c).
Hypothesis UT : user_keys (c_strands c).
Hypothesis UU : user_keys (c_structs c).
Let g := ren_name (c_prefix c) rho.

Lemma g_user n : is_anon n = false -> g (c_prefix c +++ n) = c_prefix c +++ n.
Proof. intros H. unfold g. rewrite ren_name_app, (proj2 (rho_user n H)). reflexivity. Qed.

Lemma emit_items_r l : (forall x, In x l -> ref_ok c (c_sups c) x) ->
  emit_items (r_comp rho c) (map (r_ref rho) l) = map_items g (emit_items c l).
Proof. intros R. unfold emit_items, map_items. induction l as [|x l IH]; [reflexivity|]. cbn [map filter].
  assert (Dx : refD D x).
  { pose proof (R x (or_introl eq_refl)) as Rx. destruct x as [n r|n r]; simpl in *; [apply KB, ahas_true_In, Rx | exact I]. }
  assert (E : ref_dummy (r_comp rho c) (r_ref rho x) = ref_dummy c x) by (unfold ref_dummy; rewrite (ref_len_r rho D rho_inj c x KB Dx); reflexivity).
  rewrite E. assert (IH' := IH (fun y Hy => R y (or_intror Hy))).
  destruct (negb (ref_dummy c x)); [|exact IH']. cbn [map]. rewrite IH'. f_equal.
  destruct x as [n r|n r]; cbn [r_ref ref_name r_comp c_prefix fst snd]; unfold g.
  - rewrite ren_name_app. reflexivity.
  - pose proof (R _ (or_introl eq_refl)) as Rx. simpl in Rx. apply ahas_true_In, US in Rx.
    rewrite ren_name_app, (proj2 (rho_user n Rx)). reflexivity. Qed.

Theorem emit_renumber : emit_comp (r_comp rho c) = map (map_line g) (emit_comp c).
Proof. unfold emit_comp. rewrite !map_app. cbn [r_comp c_prefix c_bases c_sups c_strands c_structs c_kins]. f_equal; [|f_equal; [|f_equal; [|f_equal]]].
  - unfold r_tbl. clear KB. induction (c_bases c) as [|[n b] l IH]; [reflexivity|]. cbn [map flat_map fst snd].
    rewrite map_app, IH. f_equal. destruct (Nat.eqb (b_len b) 0); [reflexivity|]. cbn [map map_line]. unfold g. rewrite ren_name_app. reflexivity.
  - assert (R : forall n s, In (n, s) (c_sups c) -> forall x, In x (s_seqs s) -> ref_ok c (c_sups c) x).
    { intros n s H x Hx. destruct (in_split _ _ H) as [pre [post E]]. pose proof (so_refs _ _ _ (wf_sups c W pre n s post E) x Hx) as Rx.
      destruct x as [m r|m r]; simpl in *; [exact Rx|]. rewrite E, ahas_app, Rx. reflexivity. }
    assert (G : forall l, (forall n s, In (n, s) l -> In (n, s) (c_sups c)) ->
      flat_map (fun '(n, s) => if Nat.eqb (s_len s) 0 then [] else [PSup (c_prefix c +++ n) (emit_items (r_comp rho c) (s_seqs s)) (s_len s)]) (r_sups rho l) =
      map (map_line g) (flat_map (fun '(n, s) => if Nat.eqb (s_len s) 0 then [] else [PSup (c_prefix c +++ n) (emit_items c (s_seqs s)) (s_len s)]) l)).
    { induction l as [|[n s] l IH]; intros HL; [reflexivity|]. cbn [r_sups map flat_map fst snd].
      rewrite map_app. fold (r_sups rho l). rewrite (IH (fun n' s' H => HL n' s' (or_intror H))). f_equal. cbn [r_sup s_len s_seqs].
      destruct (Nat.eqb (s_len s) 0); [reflexivity|]. cbn [map map_line].
      pose proof (HL n s (or_introl eq_refl)) as Hin.
      rewrite (emit_items_r _ (R n s Hin)), (g_user n (US n (in_map fst _ _ Hin))). reflexivity. }
    apply (G (c_sups c)). auto.
  - unfold r_strands. rewrite !map_map. apply map_ext_in. intros [n t] Hin. cbn [fst snd r_strand t_sup t_dummy r_sup s_seqs s_len map_line].
    change {| c_prefix := c_prefix c; c_bases := r_tbl rho (c_bases c); c_sups := r_sups rho (c_sups c);
              c_strands := map (fun kv => (fst kv, r_strand rho (snd kv))) (c_strands c); c_structs := c_structs c; c_kins := c_kins c;
              c_ins := r_ports rho (c_ins c); c_outs := r_ports rho (c_outs c) |} with (r_comp rho c).
    rewrite (emit_items_r _ (so_refs _ _ _ (wf_strands c W n t Hin))).
    rewrite (g_user n (UT n (in_map fst _ _ Hin))). reflexivity.
  - rewrite map_map. apply map_ext_in. intros [n u] Hin. cbn [map_line]. rewrite (g_user n (UU n (in_map fst _ _ Hin))). f_equal.
    rewrite map_map. apply map_ext_in. intros x Hx. symmetry. apply g_user.
    destruct (in_split _ _ Hin) as [pre [post E]]. destruct (wf2_structs c W2 pre n u post E) as [_ [_ [ts [FS _]]]].
    clear -FS Hx UT. revert ts FS. induction (u_strands u) as [|y r IH]; intros ts FS; [destruct Hx|]. simpl in FS.
    destruct (afind (c_strands c) y) as [t|] eqn:A; [|discriminate]. destruct (find_strands c r) as [rest|]; [|discriminate].
    destruct Hx as [<-|Hx]; [apply UT; apply afind_Some_In in A; apply (in_map fst _ _ A) | apply (IH Hx rest eq_refl)].
  - rewrite map_map. apply map_ext_in. intros k Hk. cbn [map_line]. destruct (wf2_kins c W2 k Hk) as [A B]. rewrite forallb_forall in A, B.
    f_equal; rewrite map_map; apply map_ext_in; intros x Hx; symmetry; apply g_user, UU, ahas_true_In; [apply A | apply B]; exact Hx. Qed.
End Emit.
