(* C18 for whole (nested) systems: what an earlier compilation in the same process changes is the starting value of the
   anonymous counter; loading the same system from another starting value succeeds as well, consumes the same number of
   anonymous names, and yields the same tree of instances - same prefixes, instance names, signal tables, lengths and
   ports - in which every component is the old one with _Anon(k) renamed to _Anon(ctr' + (k - ctr)), uniformly. *)
From Coq Require Import List String Ascii Arith Bool ZArith Lia.
From PC Require Import Base.Sexp Comp.Syntax Comp.Struct Comp.Compile Comp.EmitProofs Comp.WfPil Comp.CompileProofs Hist.Purity Hist.Renumber Hist.RenumberEmit Design.SysFinish
  Subst.VarSubst Run.RC13 Run.RComp Sys.System Sys.FixSys.
Import ListNotations.
Local Open Scope string_scope.
Local Open Scope list_scope.

(* ---- what the system loader looks at in a component: its port references and their lengths ---- *)
Definition ports (c : comp) : list ref := map fst (c_ins c) ++ map fst (c_outs c).
Definition ports_same (c c' : comp) : Prop :=
  map fst (c_ins c') = map fst (c_ins c) /\ map fst (c_outs c') = map fst (c_outs c) /\ forall x, In x (ports c) -> ref_len c' x = ref_len c x.

Lemma resolve_ports_user c : forall ps l, resolve_ports c ps = OK l ->
  forall x, In x (map fst l) -> match x with RB n _ => is_anon n = false /\ ahas (c_bases c) n = true | RS _ _ => True end.
Proof. induction ps as [|[[n star] sn] ps IH]; intros l H x Hx; cbn [resolve_ports] in H; [inversion H; subst; destruct Hx|].
  destruct (is_anon n) eqn:A; [discriminate|]. destruct (ahas (c_bases c) n) eqn:AB.
  - cbn [bind] in H. destruct (match sn with Some s => _ | None => _ end); [|discriminate]. cbn [bind] in H.
    destruct (resolve_ports c ps) as [rest|]; [|discriminate]. cbn [bind] in H. inversion H; subst. destruct Hx as [<-|Hx]; [simpl; auto | apply (IH rest eq_refl x Hx)].
  - destruct (ahas (c_sups c) n) eqn:AS; [|discriminate]. cbn [bind] in H. destruct (match sn with Some s => _ | None => _ end); [|discriminate]. cbn [bind] in H.
    destruct (resolve_ports c ps) as [rest|]; [|discriminate]. cbn [bind] in H. inversion H; subst. destruct Hx as [<-|Hx]; [exact I | apply (IH rest eq_refl x Hx)]. Qed.

Theorem compile_renumber_ports ctr ctr' prefix d body c ctr1 : compile_comp ctr prefix d body = OK (c, ctr1) ->
  ctr <= ctr1 /\ ports_same c (r_comp (rho_c ctr ctr1 ctr') c).
Proof. intros H. unfold compile_comp in H.
  destruct (steps (empty_comp prefix, ctr) body) as [[c1 k1]|] eqn:ST; [|discriminate]. cbn [bind fst snd] in H.
  destruct (add_IO c1 d) as [c2|] eqn:IO; [|discriminate]. cbn [bind] in H. injection H as <- <-.
  pose proof (steps_ctr body _ _ _ _ (INV_empty prefix ctr) ST) as M. split; [exact M|].
  set (rho := rho_c ctr k1 ctr').
  destruct (steps_r rho (D_c ctr k1) ctr k1 ctr' (rho_c_inj ctr k1 ctr') (rho_c_user ctr k1 ctr') (rho_c_anon ctr k1 ctr')
              (fun n H => H) body (empty_comp prefix) ctr c1 k1 (INV_empty prefix ctr)) as [_ DO]; auto.
  { constructor; intros k []. }
  destruct DO as [KB _]. unfold add_IO in IO.
  destruct (resolve_ports c1 (d_ins d)) as [i|] eqn:RI; [|discriminate]. cbn [bind] in IO.
  destruct (resolve_ports c1 (d_outs d)) as [o|] eqn:RO; [|discriminate]. cbn [bind] in IO. injection IO as <-.
  assert (U : forall x, In x (map fst i ++ map fst o) -> match x with RB n _ => is_anon n = false /\ ahas (c_bases c1) n = true | RS _ _ => True end).
  { intros x Hx. apply in_app_or in Hx. destruct Hx as [Hx|Hx]; [apply (resolve_ports_user c1 _ i RI x Hx) | apply (resolve_ports_user c1 _ o RO x Hx)]. }
  assert (RR : forall x, In x (map fst i ++ map fst o) -> r_ref rho x = x).
  { intros x Hx. specialize (U x Hx). destruct x as [n r|n r]; [|reflexivity]. simpl. destruct U as [A _]. unfold rho. rewrite (proj2 (rho_c_user ctr k1 ctr' n A)). reflexivity. }
  assert (MP : forall l : list (ref * option string), (forall x, In x (map fst l) -> r_ref rho x = x) -> map fst (r_ports rho l) = map fst l).
  { induction l as [|[x sn] l IH]; intros Hl; [reflexivity|]. simpl. rewrite (Hl x (or_introl eq_refl)), IH; [reflexivity | intros y Hy; apply Hl; right; exact Hy]. }
  unfold ports_same, ports. cbn [r_comp c_ins c_outs]. split; [apply MP; intros x Hx; apply RR, in_or_app; left; exact Hx|].
  split; [apply MP; intros x Hx; apply RR, in_or_app; right; exact Hx|].
  intros x Hx. specialize (U x Hx). destruct x as [n r|n r]; cbn [ref_len r_comp c_bases c_sups].
  - destruct U as [A _]. destruct (rho_c_user ctr k1 ctr' n A) as [Dn Rn]. unfold base_len. pose proof (afind_r_tbl rho (D_c ctr k1) (rho_c_inj ctr k1 ctr') (c_bases c1) n KB Dn) as E. unfold rho in E at 2. rewrite Rn in E. rewrite E. reflexivity.
  - rewrite afind_r_sups. destruct (afind (c_sups c1) n); reflexivity. Qed.

(* ---- the relation between the two loaded objects ---- *)
Fixpoint osim (ctr ctr' : nat) (f : nat) (o o' : obj) : Prop :=
  match f with
  | O => False
  | S f =>
      match o, o' with
      | OComp c, OComp c' => exists lo hi lo', ctr <= lo /\ lo' = ctr' + (lo - ctr) /\ c' = r_comp (rho_c lo hi lo') c /\ ports_same c c' /\
                             (user_keys (c_strands c) -> emit_comp c' = map (map_line (ren_name (c_prefix c) (rho_c lo hi lo'))) (emit_comp c))
      | OSys p comps sigs lens i oo, OSys p' comps' sigs' lens' i' oo' =>
          p' = p /\ sigs' = sigs /\ lens' = lens /\ i' = i /\ oo' = oo /\ crel (osim ctr ctr' f) comps comps'
      | _, _ => False
      end
  end.

Lemma osim_rebase ctr ctr' k : ctr <= k -> forall f o o', osim k (ctr' + (k - ctr)) f o o' -> osim ctr ctr' f o o'.
Proof. intros L. induction f as [|f IH]; intros o o' H; [destruct H|].
  destruct o as [c|p comps sigs lens i oo], o' as [c'|p' comps' sigs' lens' i' oo']; simpl in H; try contradiction; simpl.
  - destruct H as [lo [hi [lo' [A [B C]]]]]. exists lo, hi, lo'. split; [lia|]. split; [lia | exact C].
  - destruct H as (-> & -> & -> & -> & -> & C). repeat split. clear - C IH. induction C as [|x y a b [E R] _ IHc]; constructor; [split; [exact E | apply IH, R] | exact IHc]. Qed.
Lemma osim_fuel ctr ctr' : forall f o o', osim ctr ctr' f o o' -> osim ctr ctr' (S f) o o'.
Proof. induction f as [|f IH]; intros o o' H; [destruct H|].
  destruct o as [c|p comps sigs lens i oo], o' as [c'|p' comps' sigs' lens' i' oo']; simpl in H; try contradiction.
  - exact H.
  - destruct H as (-> & -> & -> & -> & -> & C). cbn [osim]. repeat split. clear - C IH. induction C as [|x y a b [E R] _ IHc]; constructor; [split; [exact E | apply IH, R] | exact IHc]. Qed.

Lemma osim_ports ctr ctr' f o o' : osim ctr ctr' f o o' -> obj_ports o' = obj_ports o.
Proof. destruct f as [|f]; intros H; [destruct H|].
  destruct o as [c|p comps sigs lens i oo], o' as [c'|p' comps' sigs' lens' i' oo']; simpl in H; try contradiction; simpl.
  - destruct H as [lo [hi [lo' [_ [_ [_ [[A [B _]] _]]]]]]]. apply (f_equal (@List.length _)) in A. apply (f_equal (@List.length _)) in B. rewrite !map_length in A, B. congruence.
  - destruct H as (-> & -> & -> & -> & -> & _). reflexivity. Qed.

Lemma bind_comp_same c c' cname : forall gs ls sigs lens, (forall x, In x ls -> ref_len c' x = ref_len c x) ->
  bind_comp c' cname gs ls sigs lens = bind_comp c cname gs ls sigs lens.
Proof. induction gs as [|[g gwc] gr IH]; intros ls sigs lens H; [reflexivity|]. destruct ls as [|x lr]; [reflexivity|]. cbn [bind_comp].
  rewrite (H x (or_introl eq_refl)). destruct (bind_signal _ _ g _ _ _) as [sl|]; [|reflexivity]. cbn [bind]. apply IH. intros y Hy. apply H. right. exact Hy. Qed.

Section Sim.
Variable fs : ftable.
Variable includes : list string.

(* the statements of a system body, given that loading a template is simulated *)
Lemma run_stmts_sim ctr ctr' f (ld : nat -> string -> list Z -> string -> string -> res (obj * nat)) :
  (forall k b args prefix path o k1, ld k b args prefix path = OK (o, k1) -> forall k', k <= k1 /\ exists o', ld k' b args prefix path = OK (o', k' + (k1 - k)) /\ osim k k' f o o') ->
  forall stmts prefix new_path templ comps comps' sigs lens k comps1 sigs1 lens1 k1, ctr <= k -> crel (osim ctr ctr' f) comps comps' ->
  run_stmts ld prefix new_path stmts templ comps sigs lens k = OK (comps1, sigs1, lens1, k1) ->
  k <= k1 /\ exists comps1', run_stmts ld prefix new_path stmts templ comps' sigs lens (ctr' + (k - ctr)) = OK (comps1', sigs1, lens1, ctr' + (k1 - ctr)) /\ crel (osim ctr ctr' f) comps1 comps1'.
Proof. intros LD. induction stmts as [|s rest IH]; intros prefix new_path templ comps comps' sigs lens k comps1 sigs1 lens1 k1 L C H; cbn [run_stmts] in H |- *.
  - inversion H; subst. split; [lia|]. exists comps'. auto.
  - destruct s as [l|cname tname cargs cins couts].
    + destruct (imp_all l templ) as [templ'|]; [|discriminate]. cbn [bind] in H |- *. apply (IH _ _ _ _ _ _ _ _ _ _ _ _ L C H).
    + destruct (afind templ tname) as [tpath|]; [|discriminate].
      assert (AH : ahas comps' cname = ahas comps cname).
      { unfold ahas. destruct (afind comps cname) as [s0|] eqn:A; [destruct (crel_afind _ _ _ _ _ C A) as [s' [-> _]]; reflexivity | rewrite (crel_afind_none _ _ _ _ C A); reflexivity]. }
      rewrite AH. destruct (ahas comps cname); [discriminate|].
      destruct (ld k tpath cargs (prefix +++ cname +++ "-") new_path) as [[o k2]|] eqn:LDE; [|discriminate]. cbn [bind] in H.
      destruct (LD _ _ _ _ _ _ _ LDE (ctr' + (k - ctr))) as [M [o' [LD' R]]]. rewrite LD'. cbn [bind].
      pose proof (osim_rebase ctr ctr' k L f o o' R) as R'.
      rewrite (osim_ports _ _ _ _ _ R). destruct (obj_ports o) as [ni no]. destruct (negb _); [discriminate|].
      assert (B : (match o' with
                   | OComp c => bind_comp c cname (cins ++ couts) (map fst (c_ins c) ++ map fst (c_outs c)) sigs lens
                   | OSys _ _ _ ilens iins iouts => bind_sys ilens cname (cins ++ couts) (iins ++ iouts) sigs lens end) =
                  (match o with
                   | OComp c => bind_comp c cname (cins ++ couts) (map fst (c_ins c) ++ map fst (c_outs c)) sigs lens
                   | OSys _ _ _ ilens iins iouts => bind_sys ilens cname (cins ++ couts) (iins ++ iouts) sigs lens end)).
      { destruct f as [|f']; [destruct R|]. destruct o as [c|p comps0 sigs0 lens0 i0 oo0], o' as [c'|p' comps0' sigs0' lens0' i0' oo0']; simpl in R; try contradiction.
        - destruct R as [lo [hi [lo' [_ [_ [_ [[A [B0 PL]] _]]]]]]]. rewrite A, B0. apply bind_comp_same. exact PL.
        - destruct R as (-> & -> & -> & -> & -> & _). reflexivity. }
      rewrite B. destruct (match o with OComp c => _ | OSys _ _ _ ilens iins iouts => _ end) as [sl|]; [|discriminate]. cbn [bind] in H |- *.
      assert (C2 : crel (osim ctr ctr' f) (comps ++ [(cname, o)]) (comps' ++ [(cname, o')])).
      { apply Forall2_app; [exact C | constructor; [split; [reflexivity | exact R'] | constructor]]. }
      destruct (IH prefix new_path templ _ _ (fst sl) (snd sl) k2 comps1 sigs1 lens1 k1 ltac:(lia) C2 H) as [M2 [comps1' [RS CS]]].
      split; [lia|]. exists comps1'. split; [|exact CS]. replace (ctr' + (k - ctr) + (k2 - k)) with (ctr' + (k2 - ctr)) by lia. exact RS. Qed.

Theorem load_file_renumber : forall f ctr b args prefix path o ctr1, load_file fs includes f ctr b args prefix path = OK (o, ctr1) ->
  forall ctr', ctr <= ctr1 /\ exists o', load_file fs includes f ctr' b args prefix path = OK (o', ctr' + (ctr1 - ctr)) /\ osim ctr ctr' f o o'.
Proof. induction f as [|f IH]; intros ctr b args prefix path o ctr1 H ctr'; [discriminate|]. cbn [load_file] in H |- *.
  destruct (search_file fs b (path :: includes)) as [[[bp entry] new_path]|]; [|discriminate]. cbn [bind] in H |- *.
  destruct (zip_env (f_params entry) args) as [e|]; [|discriminate]. destruct (negb (f_sys entry)).
  - destruct (f_body entry) as [|l]; [discriminate|]. destruct l as [|d [|body [|]]]; try discriminate.
    destruct (d_declare d) as [dd|]; [|discriminate]. destruct (dL (d_stmt_e e) body) as [bd|]; [|discriminate].
    destruct (compile_comp ctr prefix dd bd) as [[c k1]|] eqn:CC; [|discriminate]. cbn [bind fst snd] in H. inversion H; subst.
    destruct (compile_renumber_ports ctr ctr' prefix dd bd c ctr1 CC) as [M PS]. split; [exact M|].
    rewrite (compile_renumber ctr ctr' prefix dd bd c ctr1 CC). cbn [bind fst snd]. eexists. split; [reflexivity|].
    simpl. exists ctr, ctr1, ctr'. split; [lia|]. split; [lia|]. split; [reflexivity|]. split; [exact PS|].
    intros UT. apply (compile_emit_renumber_obj ctr ctr' prefix dd bd c ctr1 CC UT).
  - destruct (f_body entry) as [|l]; [discriminate|]. destruct l as [|ins [|outs [|stmts [|]]]]; try discriminate.
    destruct (dL d_sig ins) as [sins|]; [|discriminate]. destruct (dL d_sig outs) as [souts|]; [|discriminate]. destruct (dL (d_sstmt e) stmts) as [st|]; [|discriminate].
    destruct (run_stmts (load_file fs includes f) prefix new_path st [] [] [] [] ctr) as [[[[comps sigs] lens] k1]|] eqn:RS; [|discriminate]. cbn [bind] in H.
    destruct (forallb _ (sins ++ souts)) eqn:FA; [|discriminate]. inversion H; subst.
    destruct (run_stmts_sim ctr ctr' f (load_file fs includes f) (fun k b0 a0 p0 pa0 o0 k0 E k' => IH k b0 a0 p0 pa0 o0 k0 E k')
                st prefix new_path [] [] [] [] [] ctr comps sigs lens ctr1 (le_n _) (Forall2_nil _) RS) as [M [comps' [RS' CS]]].
    split; [exact M|]. replace (ctr' + (ctr - ctr)) with ctr' in RS' by lia. rewrite RS'. cbn [bind]. rewrite FA.
    eexists. split; [reflexivity|]. simpl. repeat split. exact CS. Qed.
End Sim.

(* the compile as a whole (no fixed-sequence file): whether it succeeds, and how many anonymous names it uses, does not depend on the history *)
Corollary compile_top_renumber fs includes ctr b args lines ctr1 : compile_top fs includes ctr b args [] = OK (lines, ctr1) ->
  forall ctr', exists o o' lines', load_file fs includes 12 ctr b args "" "." = OK (o, ctr1) /\ lines = emit_obj 12 o /\
    compile_top fs includes ctr' b args [] = OK (lines', ctr' + (ctr1 - ctr)) /\ lines' = emit_obj 12 o' /\ osim ctr ctr' 12 o o'.
Proof. unfold compile_top. intros H ctr'. destruct (load_file fs includes 12 ctr b args "" ".") as [[o c1]|] eqn:L; [|discriminate].
  cbn [bind fst snd fix_all] in H. inversion H; subst. destruct (load_file_renumber fs includes 12 ctr b args "" "." o ctr1 L ctr') as [_ [o' [L' R]]].
  exists o, o', (emit_obj 12 o'). rewrite L'. cbn [bind fst snd fix_all]. auto. Qed.

(* ---- the two specifications, line by line ---- *)
(* a line of the second specification is the corresponding line of the first, or that line with the names of one component
   renamed through the shift (ren_name p: names under the instance prefix p; rho_c lo hi lo': _Anon(k) -> _Anon(lo' + (k - lo))) *)
Definition lrel (ctr ctr' : nat) (l l' : pline) : Prop :=
  l' = l \/ exists p lo hi, ctr <= lo /\ l' = map_line (ren_name p (rho_c lo hi (ctr' + (lo - ctr)))) l.

Lemma Forall2_flat_map {A B C} (R : A -> B -> Prop) (Q : C -> C -> Prop) (fa : A -> list C) (fb : B -> list C) :
  forall la lb, Forall2 R la lb -> (forall a b, In a la -> R a b -> Forall2 Q (fa a) (fb b)) -> Forall2 Q (flat_map fa la) (flat_map fb lb).
Proof. induction 1 as [|a b la lb Rab _ IH]; intros H; [constructor|]. simpl. apply Forall2_app; [apply H; [left; reflexivity | exact Rab] | apply IH; intros x y Hx; apply H; right; exact Hx]. Qed.

Lemma loc_name_osim ctr ctr' f p comps comps' l cname : crel (osim ctr ctr' f) comps comps' -> loc_name p comps' l cname = loc_name p comps l cname.
Proof. intros C. destruct l as [x|s]; [|reflexivity]. simpl. destruct (afind comps cname) as [sub|] eqn:A.
  - destruct (crel_afind _ _ _ _ _ C A) as [sub' [-> R]]. destruct f as [|f']; [destruct R|].
    destruct sub as [c|], sub' as [c'|]; simpl in R; try contradiction; [|reflexivity].
    destruct R as [lo [hi [lo' [_ [_ [-> _]]]]]]. destruct x; reflexivity.
  - rewrite (crel_afind_none _ _ _ _ C A). reflexivity. Qed.

Theorem emit_obj_renumber ctr ctr' : forall f o o', osim ctr ctr' f o o' -> (forall c, In c (leaves f o) -> user_keys (c_strands c)) ->
  Forall2 (lrel ctr ctr') (emit_obj f o) (emit_obj f o').
Proof. induction f as [|f IH]; intros o o' H U; [destruct H|].
  destruct o as [c|p comps sigs lens i oo], o' as [c'|p' comps' sigs' lens' i' oo']; simpl in H; try contradiction.
  - destruct H as [lo [hi [lo' [A [B [_ [_ E]]]]]]]. cbn [emit_obj]. rewrite (E (U c (or_introl eq_refl))). subst lo'.
    clear E. generalize (emit_comp c). intros L. induction L as [|l ls IHl]; simpl; constructor; [right; exists (c_prefix c), lo, hi; auto | exact IHl].
  - destruct H as (-> & -> & -> & -> & -> & C). cbn [emit_obj]. apply Forall2_app.
    + apply (Forall2_flat_map (fun x y => fst x = fst y /\ osim ctr ctr' f (snd x) (snd y)) (lrel ctr ctr') (fun '(_, sub) => emit_obj f sub) (fun '(_, sub) => emit_obj f sub) comps comps' C).
      intros [cn sub] [cn' sub'] Hin [_ R]. simpl in R. apply (IH sub sub' R). intros c Hc. apply U. cbn [leaves]. apply in_flat_map. exists (cn, sub). auto.
    + assert (E : forall sg : string * list (loc * string * bool),
                (let '(sname, entries) := sg in
                 let len := match afind lens sname with Some l => l | None => 0 end in
                 [PSeq (p +++ sname) (repeat "N"%char len) len; PEqual ((p +++ sname, false) :: map (fun '(l, cname, wc) => (loc_name p comps' l cname, wc)) entries)]) =
                (let '(sname, entries) := sg in
                 let len := match afind lens sname with Some l => l | None => 0 end in
                 [PSeq (p +++ sname) (repeat "N"%char len) len; PEqual ((p +++ sname, false) :: map (fun '(l, cname, wc) => (loc_name p comps l cname, wc)) entries)])).
      { intros [sname entries]. cbv zeta. f_equal. f_equal. f_equal. f_equal. apply map_ext. intros [[l cname] wc]. rewrite (loc_name_osim ctr ctr' f p comps comps' l cname C). reflexivity. }
      rewrite (flat_map_ext _ _ E). clear. induction (flat_map _ sigs) as [|l ls IHl]; constructor; [left; reflexivity | exact IHl]. Qed.

(* compile twice, from two histories: the specifications correspond line by line *)
Corollary compile_top_renumber_lines fs includes ctr b args lines ctr1 : compile_top fs includes ctr b args [] = OK (lines, ctr1) ->
  (forall o, load_file fs includes 12 ctr b args "" "." = OK (o, ctr1) -> forall c, In c (leaves 12 o) -> user_keys (c_strands c)) ->
  forall ctr', exists lines', compile_top fs includes ctr' b args [] = OK (lines', ctr' + (ctr1 - ctr)) /\ Forall2 (lrel ctr ctr') lines lines'.
Proof. intros H U ctr'. destruct (compile_top_renumber fs includes ctr b args lines ctr1 H ctr') as (o & o' & lines' & L & -> & C' & -> & R).
  exists (emit_obj 12 o'). split; [exact C'|]. apply (emit_obj_renumber ctr ctr' 12 o o' R (U o L)). Qed.
