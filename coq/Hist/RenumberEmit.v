(* C18, composed: compile from another starting counter, then emit - the specification is the old one with every name of a
   component renamed through the same shift of anonymous numbers; for nested systems, line by line. *)
From Coq Require Import List String Ascii Arith Bool ZArith Lia.
From PC Require Import Base.Sexp Comp.Syntax Comp.Struct Comp.Wild Comp.Compile Comp.EmitProofs Comp.WfPil Comp.CompileProofs Sys.SystemProofs Hist.Purity Hist.Renumber.
Import ListNotations.
Local Open Scope string_scope.
Local Open Scope list_scope.

Definition strand_names_user (body : list stmt) : Prop := forall dummy name items len, In (SStrand dummy name items len) body -> is_anon name = false.

Lemma step_keys c ctr s c1 ctr1 : step (c, ctr) s = OK (c1, ctr1) ->
  (forall k, In k (map fst (c_structs c1)) -> In k (map fst (c_structs c)) \/ is_anon k = false) /\
  (forall k, In k (map fst (c_strands c1)) -> In k (map fst (c_strands c)) \/ exists dummy items len, s = SStrand dummy k items len).
Proof. intros H. destruct s as [name items len|dummy name items len|opt name names domain sn|low high ins0 outs]; cbn [step] in H.
  - assert (G : add_super_sequence c ctr name items len = OK (c1, ctr1) -> c_structs c1 = c_structs c /\ c_strands c1 = c_strands c).
    { clear H. intros H. unfold add_super_sequence in H. destruct (is_anon name); [discriminate|]. destruct (seq_defined c name); [discriminate|]. destruct (ahas (c_structs c) name); [discriminate|].
      destruct (clean_const c items) as [const|]; [|discriminate]. cbn [bind] in H. destruct (build_super c ctr const len) as [[[s anons] k1]|]; [|discriminate]. cbn [bind] in H.
      injection H as <- _. auto. }
    assert (G2 : c_structs c1 = c_structs c /\ c_strands c1 = c_strands c).
    { destruct items as [|[ps|n r|n r] [|it2 items]]; try (exact (G H)).
      unfold add_sequence in H. destruct (is_anon name); [discriminate|]. destruct (seq_defined c name); [discriminate|]. destruct (ahas (c_structs c) name); [discriminate|].
      destruct (get_length_const len ps); try discriminate. cbn [bind] in H. injection H as <- _. auto. }
    destruct G2 as [-> ->]. auto.
  - unfold add_strand in H. destruct (ahas (c_strands c) name); [discriminate|]. destruct (clean_const c items) as [const|]; [|discriminate]. cbn [bind] in H.
    destruct (build_super c ctr const len) as [[[s anons] k1]|]; [|discriminate]. cbn [bind] in H. destruct (Nat.eqb (s_len s) 0); [discriminate|]. injection H as <- _. cbn [c_structs c_strands].
    split; [auto|]. intros k Hk. rewrite map_app in Hk. apply in_app_or in Hk. destruct Hk as [Hk|[<-|[]]]; [auto | right; eauto].
  - destruct (compile_snot sn) as [s0|]; [|discriminate]. cbn [bind] in H. destruct (add_structure c opt name names domain s0) as [c2|] eqn:A; [|discriminate]. cbn [bind] in H. injection H as <- _.
    unfold add_structure in A. destruct (ahas (c_structs c) name); [discriminate|]. destruct (is_anon name) eqn:AN; [discriminate|]. destruct (seq_defined c name); [discriminate|].
    destruct (find_strands c names) as [ts|]; [|discriminate]. cbn [bind] in A. destruct (if domain then _ else _) as [s1|]; [|discriminate]. cbn [bind] in A.
    destruct (structure_ok s1 _); [|discriminate]. injection A as <-. cbn [c_structs c_strands]. split; [|auto].
    intros k Hk. rewrite map_app in Hk. apply in_app_or in Hk. destruct Hk as [Hk|[<-|[]]]; auto.
  - destruct (add_kinetic c low high ins0 outs) as [c2|] eqn:A; [|discriminate]. cbn [bind] in H. injection H as <- _.
    unfold add_kinetic in A. destruct (_ && _); [|discriminate]. injection A as <-. auto. Qed.

Lemma steps_keys body : forall c ctr c1 ctr1, steps (c, ctr) body = OK (c1, ctr1) -> strand_names_user body ->
  user_keys (c_structs c) -> user_keys (c_strands c) -> user_keys (c_structs c1) /\ user_keys (c_strands c1).
Proof. induction body as [|s body IH]; intros c ctr c1 ctr1 H SU U1 U2; cbn [steps] in H; [injection H as <- _; auto|].
  destruct (step (c, ctr) s) as [[c2 k2]|] eqn:ST; [|discriminate]. cbn [bind] in H. destruct (step_keys _ _ _ _ _ ST) as [A B].
  apply (IH c2 k2 c1 ctr1 H).
  - intros dummy name items len Hin. apply (SU dummy name items len). right. exact Hin.
  - intros k Hk. destruct (A k Hk) as [X|X]; [apply U1, X | exact X].
  - intros k Hk. destruct (B k Hk) as [X|[dummy [items [len E]]]]; [apply U2, X|]. apply (SU dummy k items len). left. exact E. Qed.

(* a compiled component, recompiled from another counter, emits the renamed specification *)
Theorem compile_emit_renumber ctr ctr' prefix d body c ctr1 : compile_comp ctr prefix d body = OK (c, ctr1) -> strand_names_user body ->
  compile_comp ctr' prefix d body = OK (r_comp (rho_c ctr ctr1 ctr') c, ctr' + (ctr1 - ctr)) /\
  emit_comp (r_comp (rho_c ctr ctr1 ctr') c) = map (map_line (ren_name prefix (rho_c ctr ctr1 ctr'))) (emit_comp c).
Proof. intros H SU. split; [apply (compile_renumber ctr ctr' prefix d body c ctr1 H)|].
  destruct (compile_comp_inv _ _ _ _ _ _ H) as [W [W2 _]]. pose proof (compile_comp_prefix _ _ _ _ _ _ H) as PX.
  unfold compile_comp in H. destruct (steps (empty_comp prefix, ctr) body) as [[c1 k1]|] eqn:ST; [|discriminate]. cbn [bind fst snd] in H.
  destruct (add_IO c1 d) as [c2|] eqn:IO; [|discriminate]. cbn [bind] in H. injection H as <- <-.
  pose proof (steps_ctr body _ _ _ _ (INV_empty prefix ctr) ST) as M.
  destruct (steps_r (rho_c ctr k1 ctr') (D_c ctr k1) ctr k1 ctr' (rho_c_inj ctr k1 ctr') (rho_c_user ctr k1 ctr') (rho_c_anon ctr k1 ctr')
              (fun n H => H) body (empty_comp prefix) ctr c1 k1 (INV_empty prefix ctr)) as [_ [KB US]]; auto.
  { constructor; intros k []. }
  destruct (steps_keys body _ _ _ _ ST SU (fun k (H : In k []) => match H with end) (fun k (H : In k []) => match H with end)) as [UU UT].
  unfold add_IO in IO. destruct (resolve_ports c1 (d_ins d)) as [i|]; [|discriminate]. cbn [bind] in IO. destruct (resolve_ports c1 (d_outs d)) as [o|]; [|discriminate]. cbn [bind] in IO. injection IO as <-.
  rewrite <- PX. apply (emit_renumber (rho_c ctr k1 ctr') (D_c ctr k1) (rho_c_inj ctr k1 ctr') (rho_c_user ctr k1 ctr') _ W W2); assumption. Qed.

Lemma steps_structs_user body : forall c ctr c1 ctr1, steps (c, ctr) body = OK (c1, ctr1) -> user_keys (c_structs c) -> user_keys (c_structs c1).
Proof. induction body as [|s body IH]; intros c ctr c1 ctr1 H U; cbn [steps] in H; [injection H as <- _; exact U|].
  destruct (step (c, ctr) s) as [[c2 k2]|] eqn:ST; [|discriminate]. cbn [bind] in H. apply (IH c2 k2 c1 ctr1 H).
  intros k Hk. destruct (proj1 (step_keys _ _ _ _ _ ST) k Hk) as [X|X]; [apply U, X | exact X]. Qed.

(* the same with the condition on the compiled object: no strand of it carries a name of the reserved form *)
Theorem compile_emit_renumber_obj ctr ctr' prefix d body c ctr1 : compile_comp ctr prefix d body = OK (c, ctr1) -> user_keys (c_strands c) ->
  emit_comp (r_comp (rho_c ctr ctr1 ctr') c) = map (map_line (ren_name (c_prefix c) (rho_c ctr ctr1 ctr'))) (emit_comp c).
Proof. intros H UT.
  destruct (compile_comp_inv _ _ _ _ _ _ H) as [W [W2 _]].
  unfold compile_comp in H. destruct (steps (empty_comp prefix, ctr) body) as [[c1 k1]|] eqn:ST; [|discriminate]. cbn [bind fst snd] in H.
  destruct (add_IO c1 d) as [c2|] eqn:IO; [|discriminate]. cbn [bind] in H. injection H as <- <-.
  pose proof (steps_ctr body _ _ _ _ (INV_empty prefix ctr) ST) as M.
  destruct (steps_r (rho_c ctr k1 ctr') (D_c ctr k1) ctr k1 ctr' (rho_c_inj ctr k1 ctr') (rho_c_user ctr k1 ctr') (rho_c_anon ctr k1 ctr')
              (fun n H => H) body (empty_comp prefix) ctr c1 k1 (INV_empty prefix ctr)) as [_ [KB US]]; auto.
  { constructor; intros k []. }
  pose proof (steps_structs_user body _ _ _ _ ST (fun k (H : In k []) => match H with end)) as UU.
  unfold add_IO in IO. destruct (resolve_ports c1 (d_ins d)) as [i|]; [|discriminate]. cbn [bind] in IO. destruct (resolve_ports c1 (d_outs d)) as [o|]; [|discriminate]. cbn [bind] in IO. injection IO as <-.
  apply (emit_renumber (rho_c ctr k1 ctr') (D_c ctr k1) (rho_c_inj ctr k1 ctr') (rho_c_user ctr k1 ctr') _ W W2); assumption. Qed.
