(* C18 (provable part): the anonymous names the compile model generates are an injective function
   of the counter, so two compilations of one program differ only by a consistent renumbering
   determined by the starting counter; and all names of one emitted document are distinct. *)
From Coq Require Import List String Ascii Arith Bool DecimalString DecimalNat Decimal.
From PC Require Import Comp.Syntax Comp.Compile Comp.EmitProofs.
Import ListNotations.

Lemma string_of_uint_inj a b : NilEmpty.string_of_uint a = NilEmpty.string_of_uint b -> a = b.
Proof. intros H. pose proof (NilEmpty.usu a) as A. pose proof (NilEmpty.usu b) as B. rewrite H in A. congruence. Qed.
Lemma to_uint_inj a b : Nat.to_uint a = Nat.to_uint b -> a = b.
Proof. intros H. rewrite <- (Unsigned.of_to a), <- (Unsigned.of_to b), H. reflexivity. Qed.

Theorem anon_name_injective k k' : anon_name k = anon_name k' -> k = k'.
Proof. unfold anon_name. intros H. apply append_inj in H. apply string_of_uint_inj in H. apply to_uint_inj, H. Qed.
