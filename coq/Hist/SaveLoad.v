(* C16 (provable part): the names, lengths, constraint strings, dummy flags, strand lists and
   dot-paren targets written to the .pil are exactly those of the compiled objects -- the objects
   that are pickled into the .save file. *)
From Coq Require Import List String Ascii Arith Bool.
From PC Require Import Comp.Syntax Comp.Compile.
Import ListNotations.
Local Open Scope list_scope.

Theorem pil_lines_match_objects c l : In l (emit_comp c) ->
  match l with
  | PSeq n k len => exists m b, n = c_prefix c +++ m /\ In (m, b) (c_bases c) /\ len = b_len b /\ k = b_const b /\ b_len b <> 0
  | PSup n items len => exists m s, n = c_prefix c +++ m /\ In (m, s) (c_sups c) /\ len = s_len s /\ items = emit_items c (s_seqs s) /\ s_len s <> 0
  | PStrand d n items len => exists m t, n = c_prefix c +++ m /\ In (m, t) (c_strands c) /\ d = t_dummy t /\ len = s_len (t_sup t) /\ items = emit_items c (s_seqs (t_sup t))
  | PStruct o n ss s => exists m u, n = c_prefix c +++ m /\ In (m, u) (c_structs c) /\ o = u_opt u /\ s = u_struct u /\ ss = map (fun x => c_prefix c +++ x) (u_strands u)
  | PKin lo hi i o => exists k, In k (c_kins c) /\ lo = k_low k /\ hi = k_high k
  | PEqual _ => False
  end.
Proof. unfold emit_comp. intros H. repeat (apply in_app_or in H; destruct H as [H|H]).
  - apply in_flat_map in H. destruct H as [[m b] [Hin H]]. destruct (Nat.eqb (b_len b) 0) eqn:Z; [destruct H|].
    destruct H as [<-|[]]. exists m, b. apply Nat.eqb_neq in Z. auto.
  - apply in_flat_map in H. destruct H as [[m s] [Hin H]]. destruct (Nat.eqb (s_len s) 0) eqn:Z; [destruct H|].
    destruct H as [<-|[]]. exists m, s. apply Nat.eqb_neq in Z. auto.
  - apply in_map_iff in H. destruct H as [[m t] [<- Hin]]. exists m, t. auto.
  - apply in_map_iff in H. destruct H as [[m u] [<- Hin]]. exists m, u. auto.
  - apply in_map_iff in H. destruct H as [k [<- Hin]]. exists k. auto. Qed.
