(* Extraction of every executable definition used by the correspondence
   driver.  Directives: ExtrOcamlBasic (bool, option, list, prod, unit,
   sumbool -> OCaml types) and ExtrOcamlString (ascii -> char, string -> char
   list).  No Extract Constant / Extract Inductive of our own; nat, N, Z stay
   the extracted inductive datatypes. *)
From Coq Require Extraction.
From Coq Require Import ExtrOcamlBasic ExtrOcamlString.
From PC Require Import Main.
Extraction "extracted/model.ml" Main.run.
