(* C20: over an abstract file system, processes whose write sets are pairwise disjoint and
   disjoint from the others' read sets produce, under EVERY interleaving of their atomic file
   operations, the same final file system and the same per-process observations as when run
   one after another. *)
From Coq Require Import List String Arith Bool Permutation Lia.
Import ListNotations.

Section Interleave.
Variable V : Type.
Definition path := string.
Definition fsys := path -> option V.
(* a write's content may depend on everything the process has read so far; None = remove the file *)
Inductive op := Rd (p : path) | Wr (p : path) (f : list (option V) -> option V).
Record pstate := { queue : list op; plog : list (option V) }.
Definition upd (s : fsys) (p : path) (v : option V) : fsys := fun q => if String.eqb q p then v else s q.

Definition exec (s : fsys) (ps : pstate) : fsys * pstate :=
  match queue ps with
  | [] => (s, ps)
  | Rd p :: r => (s, {| queue := r; plog := plog ps ++ [s p] |})
  | Wr p f :: r => (upd s p (f (plog ps)), {| queue := r; plog := plog ps |})
  end.

Definition gstate := (fsys * (nat -> pstate))%type.
Definition gstep (i : nat) (g : gstate) : gstate :=
  let r := exec (fst g) (snd g i) in (fst r, fun j => if Nat.eqb j i then snd r else snd g j).
Definition run (sched : list nat) (g : gstate) : gstate := fold_left (fun g i => gstep i g) sched g.

(* observational equality of global states *)
Definition geq (g g' : gstate) : Prop := (forall p, fst g p = fst g' p) /\ (forall k, snd g k = snd g' k).
Lemma geq_refl g : geq g g. Proof. split; reflexivity. Qed.
Lemma geq_trans a b c : geq a b -> geq b c -> geq a c.
Proof. intros [A1 A2] [B1 B2]. split; intros; [rewrite A1; apply B1 | rewrite A2; apply B2]. Qed.
Lemma geq_sym a b : geq a b -> geq b a.
Proof. intros [A1 A2]. split; intros; [symmetry; apply A1 | symmetry; apply A2]. Qed.

Lemma exec_ext s s' ps : (forall p, s p = s' p) ->
  (forall p, fst (exec s ps) p = fst (exec s' ps) p) /\ snd (exec s ps) = snd (exec s' ps).
Proof. intros H. unfold exec. destruct (queue ps) as [|[p|p f] r]; simpl; auto.
  - rewrite (H p). auto.
  - split; [|reflexivity]. intros q. unfold upd. destruct (String.eqb q p); auto. Qed.
Lemma gstep_ext i g g' : geq g g' -> geq (gstep i g) (gstep i g').
Proof. intros [A B]. unfold gstep. rewrite (B i). destruct (exec_ext (fst g) (fst g') (snd g' i) A) as [E1 E2].
  split; simpl; [exact E1|]. intros k. destruct (Nat.eqb k i); [exact E2 | apply B]. Qed.
Lemma run_ext sched : forall g g', geq g g' -> geq (run sched g) (run sched g').
Proof. induction sched as [|i l IH]; intros g g' H; simpl; [exact H|]. apply IH, gstep_ext, H. Qed.

Definition writes (q : list op) : list path := flat_map (fun o => match o with Wr p _ => [p] | Rd _ => [] end) q.
Definition reads (q : list op) : list path := flat_map (fun o => match o with Rd p => [p] | Wr _ _ => [] end) q.
(* pairwise: what one process writes, no other process reads or writes *)
Definition indep (g : gstate) : Prop :=
  forall i j, i <> j -> forall p, In p (writes (queue (snd g i))) ->
    ~ In p (writes (queue (snd g j))) /\ ~ In p (reads (queue (snd g j))).

Lemma exec_queue s ps : exists drop, queue ps = drop ++ queue (snd (exec s ps)).
Proof. unfold exec. destruct (queue ps) as [|[p|p f] r] eqn:E; simpl; [exists []; simpl; rewrite E | exists [Rd p] | exists [Wr p f]]; reflexivity. Qed.
Lemma writes_app a b : writes (a ++ b) = writes a ++ writes b. Proof. unfold writes. apply flat_map_app. Qed.
Lemma reads_app a b : reads (a ++ b) = reads a ++ reads b. Proof. unfold reads. apply flat_map_app. Qed.

Lemma indep_step i g : indep g -> indep (gstep i g).
Proof. intros H a b Hab p Hp. unfold gstep in *. simpl in *.
  destruct (exec_queue (fst g) (snd g i)) as [drop E].
  assert (Wa : In p (writes (queue (snd g a)))).
  { destruct (Nat.eqb a i) eqn:Q; [apply Nat.eqb_eq in Q; subst; rewrite E, writes_app; apply in_or_app; right; exact Hp | exact Hp]. }
  destruct (H a b Hab p Wa) as [N1 N2].
  destruct (Nat.eqb b i) eqn:Q; [|split; assumption]. apply Nat.eqb_eq in Q. subst.
  rewrite E, writes_app in N1. rewrite E, reads_app in N2. split; intros X; [apply N1 | apply N2]; apply in_or_app; right; exact X. Qed.

Ltac kcase i j := let k := fresh "k" in let A := fresh "A" in let B := fresh "B" in
  intros k; destruct (Nat.eqb k j) eqn:A; destruct (Nat.eqb k i) eqn:B; try reflexivity;
  try (apply Nat.eqb_eq in A; apply Nat.eqb_eq in B; exfalso; congruence).

(* two steps of different processes commute *)
Lemma gstep_commute i j g : indep g -> i <> j -> geq (gstep j (gstep i g)) (gstep i (gstep j g)).
Proof. intros H Hij. unfold gstep. simpl.
  assert (Ni : Nat.eqb i j = false) by (apply Nat.eqb_neq; exact Hij).
  assert (Nj : Nat.eqb j i = false) by (apply Nat.eqb_neq; auto).
  rewrite Ni, Nj.
  destruct (queue (snd g i)) as [|oi ri] eqn:Qi; destruct (queue (snd g j)) as [|oj rj] eqn:Qj;
    unfold exec; rewrite ?Qi, ?Qj; simpl.
  - split; simpl; [reflexivity|]. kcase i j.
  - split; simpl; [reflexivity|]. kcase i j.
  - split; simpl; [reflexivity|]. kcase i j.
  - assert (Wi : forall p f, oi = Wr p f -> ~ In p (writes (queue (snd g j))) /\ ~ In p (reads (queue (snd g j)))).
    { intros p f E. apply (H i j Hij). rewrite Qi, E. simpl. left. reflexivity. }
    assert (Wj : forall p f, oj = Wr p f -> ~ In p (writes (queue (snd g i))) /\ ~ In p (reads (queue (snd g i)))).
    { intros p f E. apply (H j i (fun X => Hij (eq_sym X))). rewrite Qj, E. simpl. left. reflexivity. }
    rewrite Qi in Wj. rewrite Qj in Wi.
    destruct oi as [pi|pi fi]; destruct oj as [pj|pj fj]; simpl.
    + split; simpl; [reflexivity|]. kcase i j.
    + destruct (Wj pj fj eq_refl) as [_ NR]. simpl in NR.
      assert (NE : String.eqb pi pj = false) by (apply String.eqb_neq; intros X; apply NR; left; auto).
      split; simpl; [reflexivity|]. kcase i j. unfold upd. rewrite NE. reflexivity.
    + destruct (Wi pi fi eq_refl) as [_ NR]. simpl in NR.
      assert (NE : String.eqb pj pi = false) by (apply String.eqb_neq; intros X; apply NR; left; auto).
      split; simpl; [reflexivity|]. kcase i j. unfold upd. rewrite NE. reflexivity.
    + destruct (Wi pi fi eq_refl) as [NW _]. simpl in NW.
      assert (NE : pi <> pj) by (intros X; apply NW; left; auto).
      split; simpl.
      * intros q. unfold upd. destruct (String.eqb q pj) eqn:A; destruct (String.eqb q pi) eqn:B; try reflexivity.
        apply String.eqb_eq in A, B. congruence.
      * kcase i j. Qed.

(* every interleaving of the same steps gives the same files and the same observations *)
Theorem interleavings_equivalent s1 s2 : Permutation s1 s2 -> forall g, indep g -> geq (run s1 g) (run s2 g).
Proof. intros P. induction P as [|x l l' P IH|x y l|l1 l2 l3 P1 IH1 P2 IH2]; intros g H.
  - apply geq_refl.
  - simpl. apply IH, indep_step, H.
  - simpl. destruct (Nat.eq_dec x y) as [->|N]; [apply geq_refl|].
    apply run_ext. apply gstep_commute; [exact H | auto].
  - eapply geq_trans; [apply IH1, H | apply IH2, H]. Qed.

(* in particular: any interleaving equals the sequential run (process 0 to completion, then 1, ...) *)
Corollary interleave_eq_sequential sched seqsched g : indep g -> Permutation sched seqsched ->
  geq (run sched g) (run seqsched g).
Proof. intros H P. apply interleavings_equivalent; assumption. Qed.
End Interleave.
