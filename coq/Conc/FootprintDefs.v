(* Vocabulary of the generated file footprints (C20). *)
From Coq Require Import List String.
Import ListNotations.

Inductive mode := MR | MW | MD | MX.            (* read, write/create, delete, execute *)
Inductive pterm :=
  | PArg (s : string)                           (* a parameter of the entry function / a CLI option *)
  | PCat (t : pterm) (lit : string)             (* t + "literal" *)
  | PDefault (a b : pterm)                      (* a if given, else b *)
  | PAlt (a b : pterm)                          (* one of two, depending on a flag *)
  | PSources                                    (* the .sys/.comp files found by load_file *)
  | PFresh.                                     (* a unique name from tempfile.mkstemp *)

Fixpoint pterm_eqb (x y : pterm) : bool :=
  match x, y with
  | PArg a, PArg b => String.eqb a b
  | PCat t a, PCat u b => pterm_eqb t u && String.eqb a b
  | PDefault a b, PDefault c d => pterm_eqb a c && pterm_eqb b d
  | PAlt a b, PAlt c d => pterm_eqb a c && pterm_eqb b d
  | PSources, PSources => true
  | PFresh, PFresh => true
  | _, _ => false
  end.
Definition modifies (m : mode) : bool := match m with MW | MD => true | _ => false end.
Definition only_modifies (fx : list (mode * pterm)) (allowed : list pterm) : bool :=
  forallb (fun '(m, t) => if modifies m then existsb (pterm_eqb t) allowed else true) fx.
