(* placeholder until the C20 translator is written *)
Definition footprint_placeholder : True := I.
