(* GENERATED on every run by harness/translate_footprint.py from /repo's working tree. Do not edit. *)
From Coq Require Import List String.
From PC Require Import Conc.FootprintDefs.
Import ListNotations.
Local Open Scope string_scope.
Definition compile_fx : list (mode * pterm) := [(MR, PSources); (MR, (PArg "fixed_file")); (MW, (PArg "outputname")); (MW, (PArg "savename"))].
Definition design_fx : list (mode * pterm) := [(MR, (PCat (PDefault (PArg "tempname") (PArg "basename")) ".eq")); (MR, (PCat (PDefault (PArg "tempname") (PArg "basename")) ".wc")); (MR, (PCat (PDefault (PArg "tempname") (PArg "basename")) ".st")); (MR, (PArg "infilename")); (MW, (PCat (PDefault (PArg "tempname") (PArg "basename")) ".eq")); (MW, (PCat (PDefault (PArg "tempname") (PArg "basename")) ".wc")); (MW, (PCat (PDefault (PArg "tempname") (PArg "basename")) ".st")); (MW, (PCat (PDefault (PArg "tempname") (PArg "basename")) ".sp")); (MX, (PArg "spuriousbinary")); (MR, (PCat (PDefault (PArg "tempname") (PArg "basename")) ".sp")); (MW, (PArg "outfilename")); (MW, PFresh); (MD, (PCat (PDefault (PArg "tempname") (PArg "basename")) ".st")); (MD, (PCat (PDefault (PArg "tempname") (PArg "basename")) ".wc")); (MD, (PCat (PDefault (PArg "tempname") (PArg "basename")) ".eq")); (MD, (PCat (PDefault (PArg "tempname") (PArg "basename")) ".sp"))].
Definition finish_fx : list (mode * pterm) := [(MR, (PArg "savename")); (MR, (PArg "designname")); (MW, (PArg "seqsname")); (MW, (PArg "strandsname"))].
Definition compile_cli : list (string * pterm) := [("output", (PDefault (PArg "--output") (PAlt (PCat (PArg "BASENAME") ".pil") (PCat (PArg "BASENAME") ".des")))); ("save", (PDefault (PArg "--save") (PCat (PArg "BASENAME") ".save")))].
Definition design_cli : list (string * pterm) := [("output", (PDefault (PArg "--output") (PCat (PArg "BASENAME") ".mfe")))].
Definition finish_cli : list (string * pterm) := [("design", (PDefault (PArg "--design") (PCat (PArg "BASENAME") ".mfe"))); ("save", (PDefault (PArg "--save") (PCat (PArg "BASENAME") ".save"))); ("seqs", (PDefault (PArg "--seqs") (PCat (PArg "BASENAME") ".seqs")))].
