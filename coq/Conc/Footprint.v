(* C20: theorems about the footprints GENERATED from the source (FootprintGen.v): what each
   tool may modify, and disjointness of the scratch files of runs with distinct temp names. *)
From Coq Require Import List String Ascii Arith Bool Lia.
From PC Require Import Base.Sexp Conc.FootprintDefs Conc.FootprintGen.
Import ListNotations.
Local Open Scope string_scope.
Local Open Scope list_scope.

Definition scratch_base : pterm := PDefault (PArg "tempname") (PArg "basename").
Definition scratch_exts : list string := [".st"; ".wc"; ".eq"; ".sp"].

(* a compile creates / overwrites only its output file and its save file *)
Theorem compile_modifies_only : only_modifies compile_fx [PArg "outputname"; PArg "savename"] = true.
Proof. vm_compute. reflexivity. Qed.
(* a design run: only its output, the four scratch files derived from its temp name, and unique
   mkstemp files for the external folding tool *)
Theorem design_modifies_only :
  only_modifies design_fx (PArg "outfilename" :: PFresh :: map (PCat scratch_base) scratch_exts) = true.
Proof. vm_compute. reflexivity. Qed.
(* a finish: only its sequence files *)
Theorem finish_modifies_only : only_modifies finish_fx [PArg "seqsname"; PArg "strandsname"] = true.
Proof. vm_compute. reflexivity. Qed.

(* the command-line defaults: outputs are derived from BASENAME unless given explicitly *)
Theorem cli_defaults :
  existsb (fun p => String.eqb (fst p) "output" && pterm_eqb (snd p)
     (PDefault (PArg "--output") (PAlt (PCat (PArg "BASENAME") ".pil") (PCat (PArg "BASENAME") ".des")))) compile_cli
  && existsb (fun p => String.eqb (fst p) "save" && pterm_eqb (snd p) (PDefault (PArg "--save") (PCat (PArg "BASENAME") ".save"))) compile_cli
  && existsb (fun p => String.eqb (fst p) "output" && pterm_eqb (snd p) (PDefault (PArg "--output") (PCat (PArg "BASENAME") ".mfe"))) design_cli
  && existsb (fun p => String.eqb (fst p) "seqs" && pterm_eqb (snd p) (PDefault (PArg "--seqs") (PCat (PArg "BASENAME") ".seqs"))) finish_cli = true.
Proof. vm_compute. reflexivity. Qed.

(* ---- distinct temp names give disjoint scratch files ---- *)
Lemma app_suffix_inj {A} (a b s t : list A) : a ++ s = b ++ t -> List.length s = List.length t -> a = b /\ s = t.
Proof. intros H L. assert (R : rev s ++ rev a = rev t ++ rev b) by (rewrite <- !rev_app_distr, H; reflexivity).
  assert (L' : List.length (rev s) = List.length (rev t)) by (rewrite !rev_length; exact L).
  assert (G : forall (x y u v : list A), x ++ u = y ++ v -> List.length x = List.length y -> x = y /\ u = v).
  { induction x as [|c x IH]; intros [|d y] u v E Len; simpl in *; try discriminate; auto.
    inversion E as [[E0 E1']]; subst. inversion Len as [Len']. destruct (IH y u v E1' Len'); subst; auto. }
  destruct (G _ _ _ _ R L') as [E1 E2]. split.
  - rewrite <- (rev_involutive a), <- (rev_involutive b), E2. reflexivity.
  - rewrite <- (rev_involutive s), <- (rev_involutive t), E1. reflexivity. Qed.

Lemma chars_append a b : chars (a ++ b)%string = (chars a ++ chars b)%list.
Proof. induction a as [|c a IH]; simpl; [reflexivity | rewrite IH; reflexivity]. Qed.
Lemma chars_inj a : forall b, chars a = chars b -> a = b.
Proof. induction a as [|c a IH]; intros [|d b] H; simpl in H; try discriminate; [reflexivity|]. inversion H; subst. f_equal. apply IH. assumption. Qed.

(* two runs with different temp names never share a scratch file, whichever of the four *)
Theorem scratch_disjoint t1 t2 e1 e2 : t1 <> t2 -> In e1 scratch_exts -> In e2 scratch_exts -> (t1 ++ e1)%string <> (t2 ++ e2)%string.
Proof. intros Hne H1 H2 E. apply (f_equal chars) in E. rewrite !chars_append in E.
  assert (L : List.length (chars e1) = List.length (chars e2)).
  { simpl in H1, H2. repeat (destruct H1 as [<-|H1]; [repeat (destruct H2 as [<-|H2]; [reflexivity|]); destruct H2|]). destruct H1. }
  destruct (app_suffix_inj _ _ _ _ E L) as [A _]. apply Hne, chars_inj, A. Qed.
