(* C20, the "consequently": the generated footprints, evaluated under the arguments of two runs with distinct output, save
   and temp names, name disjoint sets of files to be modified - the hypothesis `indep` of the interleaving theorem (FS2.v). *)
From Coq Require Import List String Ascii Arith Bool Lia.
From PC Require Import Base.Sexp Conc.FootprintDefs Conc.FootprintGen Conc.Footprint.
Import ListNotations.
Local Open Scope string_scope.
Local Open Scope list_scope.

(* a footprint term under concrete arguments: e gives the value of a parameter if it was given; flag picks the back-end
   alternative; fresh is the unique name mkstemp returned; the source files (a set) are only ever read *)
Fixpoint peval (e : string -> option string) (flag : bool) (fresh : string) (t : pterm) : option string :=
  match t with
  | PArg s => e s
  | PCat t l => option_map (fun x => (x ++ l)%string) (peval e flag fresh t)
  | PDefault a b => match peval e flag fresh a with Some x => Some x | None => peval e flag fresh b end
  | PAlt a b => if flag then peval e flag fresh a else peval e flag fresh b
  | PSources => None
  | PFresh => Some fresh
  end.
Definition mods (e : string -> option string) (flag : bool) (fresh : string) (fx : list (mode * pterm)) : list string :=
  flat_map (fun mt => if modifies (fst mt) then match peval e flag fresh (snd mt) with Some p => [p] | None => [] end else []) fx.

Lemma only_modifies_mods e flag fresh fx allowed : only_modifies fx allowed = true ->
  forall p, In p (mods e flag fresh fx) -> exists t, In t allowed /\ peval e flag fresh t = Some p.
Proof. unfold only_modifies, mods. intros H p Hin. rewrite forallb_forall in H. apply in_flat_map in Hin. destruct Hin as [[m t] [Hmt Hp]].
  specialize (H _ Hmt). cbn [fst snd] in *. destruct (modifies m); [|destruct Hp]. apply existsb_exists in H. destruct H as [u [Hu E]].
  assert (Q : forall x y, pterm_eqb x y = true -> x = y).
  { induction x; destruct y; simpl; intros Hq; try discriminate; try reflexivity.
    - apply String.eqb_eq in Hq. congruence.
    - apply andb_prop in Hq. destruct Hq as [A B]. apply String.eqb_eq in B. rewrite (IHx _ A), B. reflexivity.
    - apply andb_prop in Hq. destruct Hq as [A B]. rewrite (IHx1 _ A), (IHx2 _ B). reflexivity.
    - apply andb_prop in Hq. destruct Hq as [A B]. rewrite (IHx1 _ A), (IHx2 _ B). reflexivity. }
  apply Q in E. subst u. exists t. split; [exact Hu|]. destruct (peval e flag fresh t) as [q|]; [|destruct Hp]. destruct Hp as [<-|[]]. reflexivity. Qed.

(* what a compile / a design run / a finish may modify, as concrete names *)
Theorem compile_mods e flag fresh p : In p (mods e flag fresh compile_fx) -> e "outputname" = Some p \/ e "savename" = Some p.
Proof. intros H. destruct (only_modifies_mods e flag fresh _ _ compile_modifies_only p H) as [t [[<-|[<-|[]]] E]]; simpl in E; auto. Qed.
Theorem finish_mods e flag fresh p : In p (mods e flag fresh finish_fx) -> e "seqsname" = Some p \/ e "strandsname" = Some p.
Proof. intros H. destruct (only_modifies_mods e flag fresh _ _ finish_modifies_only p H) as [t [[<-|[<-|[]]] E]]; simpl in E; auto. Qed.
Theorem design_mods e flag fresh p : In p (mods e flag fresh design_fx) ->
  e "outfilename" = Some p \/ p = fresh \/ exists tb ext, peval e flag fresh scratch_base = Some tb /\ In ext scratch_exts /\ p = (tb ++ ext)%string.
Proof. intros H. destruct (only_modifies_mods e flag fresh _ _ design_modifies_only p H) as [t [Ht E]].
  destruct Ht as [<-|[<-|Ht]]; [left; exact E | right; left; simpl in E; congruence|]. right. right.
  apply in_map_iff in Ht. destruct Ht as [ext [<- Hext]]. cbn [peval] in E. fold (peval e flag fresh scratch_base) in E.
  destruct (peval e flag fresh scratch_base) as [tb|]; [|discriminate]. simpl in E. inversion E. exists tb, ext. auto. Qed.

(* two compiles with distinct output and save names (four distinct names) modify no common file *)
Theorem compiles_disjoint e1 e2 f1 f2 fr1 fr2 o1 s1 o2 s2 : e1 "outputname" = Some o1 -> e1 "savename" = Some s1 -> e2 "outputname" = Some o2 -> e2 "savename" = Some s2 ->
  o1 <> o2 -> o1 <> s2 -> s1 <> o2 -> s1 <> s2 -> forall p, In p (mods e1 f1 fr1 compile_fx) -> In p (mods e2 f2 fr2 compile_fx) -> False.
Proof. intros A1 B1 A2 B2 N1 N2 N3 N4 p H1 H2. apply compile_mods in H1. apply compile_mods in H2. destruct H1 as [H1|H1], H2 as [H2|H2]; congruence. Qed.

(* two design runs with distinct output names, distinct temp names, distinct mkstemp names, neither output being a scratch or
   mkstemp name of the other run, modify no common file *)
Theorem designs_disjoint e1 e2 f1 f2 fr1 fr2 o1 o2 t1 t2 : e1 "outfilename" = Some o1 -> e2 "outfilename" = Some o2 ->
  peval e1 f1 fr1 scratch_base = Some t1 -> peval e2 f2 fr2 scratch_base = Some t2 ->
  o1 <> o2 -> t1 <> t2 -> fr1 <> fr2 -> o1 <> fr2 -> o2 <> fr1 ->
  (forall ext, In ext scratch_exts -> o1 <> (t2 ++ ext)%string /\ o2 <> (t1 ++ ext)%string /\ fr1 <> (t2 ++ ext)%string /\ fr2 <> (t1 ++ ext)%string) ->
  forall p, In p (mods e1 f1 fr1 design_fx) -> In p (mods e2 f2 fr2 design_fx) -> False.
Proof. intros A1 A2 B1 B2 N1 N2 N3 N4 N5 NS p H1 H2. apply design_mods in H1. apply design_mods in H2.
  destruct H1 as [H1|[H1|[tb1 [x1 [T1 [X1 P1]]]]]], H2 as [H2|[H2|[tb2 [x2 [T2 [X2 P2]]]]]]; try congruence.
  - assert (Q2 : tb2 = t2) by congruence. subst tb2. apply (proj1 (NS x2 X2)). congruence.
  - assert (Q2 : tb2 = t2) by congruence. subst tb2. apply (proj1 (proj2 (proj2 (NS x2 X2)))). congruence.
  - assert (Q1 : tb1 = t1) by congruence. subst tb1. apply (proj1 (proj2 (NS x1 X1))). congruence.
  - assert (Q1 : tb1 = t1) by congruence. subst tb1. apply (proj2 (proj2 (proj2 (NS x1 X1)))). congruence.
  - assert (Q1 : tb1 = t1) by congruence. assert (Q2 : tb2 = t2) by congruence. subst tb1 tb2. apply (scratch_disjoint t1 t2 x1 x2 N2 X1 X2). congruence. Qed.

(* ---- from file sets to the independence hypothesis of the interleaving theorem ---- *)
From PC Require Import Conc.FS2.
Theorem indep_from_sets (V : Type) (g : gstate V) (W R : nat -> list string) :
  (forall i p, In p (writes V (queue V (snd g i))) -> In p (W i)) ->
  (forall i p, In p (reads V (queue V (snd g i))) -> In p (R i)) ->
  (forall i j, i <> j -> forall p, In p (W i) -> ~ In p (W j) /\ ~ In p (R j)) -> indep V g.
Proof. intros HW HR D i j NE p Hp. destruct (D i j NE p (HW i p Hp)) as [A B]. split; [intros C; apply A, (HW j p C) | intros C; apply B, (HR j p C)]. Qed.

(* hence: processes that write only into their (pairwise disjoint, unread by others) file sets end in the same files and the
   same observations under every interleaving of their atomic file operations *)
Corollary runs_with_disjoint_sets_commute (V : Type) (g : gstate V) (W R : nat -> list string) s1 s2 :
  (forall i p, In p (writes V (queue V (snd g i))) -> In p (W i)) ->
  (forall i p, In p (reads V (queue V (snd g i))) -> In p (R i)) ->
  (forall i j, i <> j -> forall p, In p (W i) -> ~ In p (W j) /\ ~ In p (R j)) ->
  Permutation.Permutation s1 s2 -> geq V (run V s1 g) (run V s2 g).
Proof. intros HW HR D P. apply (interleavings_equivalent V s1 s2 P g (indep_from_sets V g W R HW HR D)). Qed.
