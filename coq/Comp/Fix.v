(* Model of sequence fixing (C12): Sequence.fix_seq, ReverseSequence.fix_seq,
   SuperSequence.fix_seq (also used by strands and complemented super-sequences) and
   Structure.fix_seq on the component object of Compile.v. *)
From Coq Require Import List String Ascii Arith Bool.
From PC Require Import Base.Codes Comp.Syntax Comp.Compile.
Import ListNotations.
Local Open Scope string_scope.
Local Open Scope list_scope.

(* outcome of a fix: the (possibly partially updated) base table and how it ended.
   FKey = a KeyError escaped (swallowed as a "not found" warning by the caller for
   sequence / strand / structure entries), FFail = AssertionError / ValueError (compilation stops) *)
Inductive fstatus := FOk | FKey | FFail (k : string).
Definition bases := list (string * bseq).

Fixpoint set_const (bs : bases) (n : string) (k : list ascii) : bases :=
  match bs with
  | [] => []
  | (m, b) :: r => if String.eqb m n then (m, {| b_len := b_len b; b_const := k; b_anon := b_anon b |}) :: r
                   else (m, b) :: set_const r n k
  end.

(* per position: the intersection of the old code and the fixed code *)
Fixpoint inter_consts (old fixed : list ascii) : list ascii * fstatus :=
  match old, fixed with
  | o :: orest, f :: frest =>
      match code_inter o f with
      | IOk c => let (r, st) := inter_consts orest frest in (c :: r, st)
      | IEmpty => ([], FFail "conflict")
      | IKeyErr => ([], FKey)
      end
  | _, _ => ([], FOk)
  end.

Definition fix_base (bs : bases) (n : string) (fixed : list ascii) : bases * fstatus :=
  match afind bs n with
  | None => (bs, FKey)
  | Some b =>
      if negb (Nat.eqb (List.length fixed) (b_len b)) then (bs, FFail "length") else
      match inter_consts (b_const b) fixed with
      | (k, FOk) => (set_const bs n k, FOk)
      | (_, st) => (bs, st)
      end
  end.

(* ReverseSequence.fix_seq: fix the underlying sequence to the reverse complement *)
Definition fix_bref (bs : bases) (x : bref) (fixed : list ascii) : bases * fstatus :=
  if snd x then match wc_codes fixed with Some w => fix_base bs (fst x) w | None => (bs, FKey) end
  else fix_base bs (fst x) fixed.

Definition firstn_skipn {A} (n : nat) (l : list A) : list A * list A := (firstn n l, skipn n l).

(* SuperSequence.fix_seq over the item list; super-sequence items recurse (fuel = nesting depth) *)
Fixpoint fix_refs (fuel : nat) (c : comp) (bs : bases) (seqs : list ref) (fixed : list ascii) {struct fuel} : bases * fstatus :=
  match fuel with
  | O => (bs, FFail "fuel")
  | S f =>
      (fix go (bs : bases) (seqs : list ref) (fixed : list ascii) {struct seqs} : bases * fstatus :=
         match seqs with
         | [] => (bs, FOk)
         | x :: rest =>
             let l := match x with
                      | RB n _ => base_len bs n
                      | RS n _ => match afind (c_sups c) n with Some s => s_len s | None => 0 end end in
             let piece := firstn l fixed in
             let r := match x with
                      | RB n r => fix_bref bs (n, r) piece
                      | RS n r =>
                          match afind (c_sups c) n with
                          | Some s =>
                              if negb (Nat.eqb (List.length piece) (s_len s)) then (bs, FFail "length")
                              else fix_refs f c bs (if r then rc_refs (s_seqs s) else s_seqs s) piece
                          | None => (bs, FKey)
                          end
                      end in
             match r with
             | (bs', FOk) => go bs' rest (skipn l fixed)
             | other => other
             end
         end) bs seqs fixed
  end.

Definition fix_sup (c : comp) (bs : bases) (s : sup) (fixed : list ascii) : bases * fstatus :=
  if negb (Nat.eqb (List.length fixed) (s_len s)) then (bs, FFail "length")
  else fix_refs (S (S (List.length (c_sups c)))) c bs (s_seqs s) fixed.

Fixpoint split_on_plus (l : list ascii) (cur : list ascii) : list (list ascii) :=
  match l with
  | [] => [rev cur]
  | c :: r => if Ascii.eqb c "+"%char then rev cur :: split_on_plus r [] else split_on_plus r (c :: cur)
  end.

Fixpoint fix_strands (c : comp) (bs : bases) (names : list string) (pieces : list (list ascii)) : bases * fstatus :=
  match names, pieces with
  | n :: nr, p :: pr =>
      match afind (c_strands c) n with
      | Some t => match fix_sup c bs (t_sup t) p with
                  | (bs', FOk) => fix_strands c bs' nr pr
                  | other => other end
      | None => (bs, FKey)
      end
  | _, _ => (bs, FOk)
  end.

(* one entry of the fixed file applied to a component; kind is the first word of the line *)
Definition is_prefix_of_word (k w : string) : bool :=
  (* Python:  type_ in "sequence"  is a SUBSTRING test *)
  (fix sub (fuel : nat) (w : string) : bool :=
     match fuel with O => false | S f =>
       if String.prefix k w then true else match w with EmptyString => false | String _ r => sub f r end end)
    (S (String.length w)) w.

Definition fix_entry_comp (c : comp) (bs : bases) (kind name : string) (fixed : list ascii) : bases * fstatus :=
  if is_prefix_of_word kind "sequence" then
    (if ahas bs name then fix_base bs name fixed
     else match afind (c_sups c) name with
          | Some s => fix_sup c bs s fixed
          | None => (bs, FKey)
          end)
  else if is_prefix_of_word kind "signal" then (bs, FKey)       (* a component has no signals: warning *)
  else if String.eqb kind "strand" then
    match afind (c_strands c) name with Some t => fix_sup c bs (t_sup t) fixed | None => (bs, FKey) end
  else if String.eqb kind "structure" then
    match afind (c_structs c) name with
    | Some u =>
        let pieces := split_on_plus fixed [] in
        if negb (Nat.eqb (List.length pieces) (List.length (u_strands u))) then (bs, FFail "strand-count")
        else fix_strands c bs (u_strands u) pieces
    | None => (bs, FKey)
    end
  else (bs, FOk).
