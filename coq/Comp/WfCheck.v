(* An executable checker for the invariant WF of EmitProofs.v, proved sound.  The driver
   evaluates it on every component the model compiles, so that for each correspondence case
   the hypothesis of the emission theorems is established by a verified computation. *)
From Coq Require Import List String Ascii Arith Bool Lia.
From PC Require Import Comp.Syntax Comp.Compile Comp.Denote Comp.EmitProofs.
Import ListNotations.
Local Open Scope list_scope.

Fixpoint nodupb (l : list string) : bool :=
  match l with [] => true | x :: r => negb (existsb (String.eqb x) r) && nodupb r end.
Lemma nodupb_sound l : nodupb l = true -> NoDup l.
Proof. induction l as [|x r IH]; simpl; intros H; [constructor|].
  apply andb_prop in H. destruct H as [H1 H2]. constructor; [|apply IH; exact H2].
  intros Hin. apply negb_true_iff in H1. assert (existsb (String.eqb x) r = true).
  { apply existsb_exists. exists x. split; [exact Hin | apply String.eqb_refl]. } congruence. Qed.

Definition bref_eqb (a b : bref) : bool := String.eqb (fst a) (fst b) && Bool.eqb (snd a) (snd b).
Lemma bref_eqb_eq a b : bref_eqb a b = true -> a = b.
Proof. destruct a, b. unfold bref_eqb. simpl. intros H. apply andb_prop in H. destruct H as [H1 H2].
  apply String.eqb_eq in H1. apply eqb_prop in H2. subst. reflexivity. Qed.
Fixpoint brefs_eqb (a b : list bref) : bool :=
  match a, b with [], [] => true | x :: a', y :: b' => bref_eqb x y && brefs_eqb a' b' | _, _ => false end.
Lemma brefs_eqb_eq a : forall b, brefs_eqb a b = true -> a = b.
Proof. induction a as [|x a IH]; intros [|y b]; simpl; intros H; try discriminate; [reflexivity|].
  apply andb_prop in H. destruct H as [H1 H2]. apply bref_eqb_eq in H1. apply IH in H2. subst. reflexivity. Qed.

Definition ref_okb (c : comp) (before : list (string * sup)) (x : ref) : bool :=
  match x with RB n _ => ahas (c_bases c) n | RS n _ => ahas before n end.
Definition sup_okb (c : comp) (before : list (string * sup)) (s : sup) : bool :=
  forallb (ref_okb c before) (s_seqs s) &&
  brefs_eqb (s_base s) (flat_map (ref_base c) (s_seqs s)) &&
  Nat.eqb (s_len s) (List.length (flatB c (s_base s))) &&
  forallb (fun x => ahas (c_bases c) (fst x)) (s_base s).
Lemma sup_okb_sound c before s : sup_okb c before s = true -> sup_ok c before s.
Proof. unfold sup_okb. intros H. apply andb_prop in H. destruct H as [H H4]. apply andb_prop in H. destruct H as [H H3]. apply andb_prop in H. destruct H as [H1 H2].
  constructor.
  - intros x Hx. rewrite forallb_forall in H1. specialize (H1 x Hx). destruct x; exact H1.
  - apply brefs_eqb_eq, H2.
  - apply Nat.eqb_eq, H3.
  - intros x Hx. rewrite forallb_forall in H4. apply H4, Hx. Qed.

Fixpoint check_sups (c : comp) (pre rest : list (string * sup)) : bool :=
  match rest with
  | [] => true
  | (n, s) :: r => sup_okb c pre s && check_sups c (pre ++ [(n, s)]) r
  end.
Lemma app_eq_len {A} (pre : list A) : forall p a b, pre ++ a = p ++ b -> List.length pre = List.length p -> pre = p /\ a = b.
Proof. induction pre as [|x pre IH]; intros [|y p] a b E EQ; simpl in *; try discriminate; auto.
  inversion E as [[E1 E2]]; subst. inversion EQ as [EQ']. destruct (IH p a b E2 EQ') as [A1 B1]. subst. auto. Qed.

Lemma check_sups_sound c : forall rest pre, check_sups c pre rest = true ->
  forall p n s post, pre ++ rest = p ++ (n, s) :: post -> List.length pre <= List.length p -> sup_ok c p s.
Proof. induction rest as [|[n0 s0] r IH]; intros pre H p n s post E L.
  - rewrite app_nil_r in E. subst pre. rewrite app_length in L. simpl in L. lia.
  - simpl in H. apply andb_prop in H. destruct H as [H1 H2].
    destruct (Nat.eq_dec (List.length pre) (List.length p)) as [EQ|NE].
    + assert (pre = p /\ (n0, s0) :: r = (n, s) :: post) as [A B].
      { apply (app_eq_len pre p _ _ E EQ). }
      inversion B; subst. apply sup_okb_sound, H1.
    + apply (IH (pre ++ [(n0, s0)]) H2 p n s post).
      * rewrite <- app_assoc. exact E.
      * rewrite app_length. simpl. lia. Qed.

Definition wf_check (c : comp) : bool :=
  nodupb (map fst (c_bases c) ++ map fst (c_sups c)) &&
  forallb (fun '(n, b) => Nat.eqb (List.length (b_const b)) (b_len b)) (c_bases c) &&
  check_sups c [] (c_sups c) &&
  forallb (fun '(n, t) => sup_okb c (c_sups c) (t_sup t)) (c_strands c).

Theorem wf_check_sound c : wf_check c = true -> WF c.
Proof. unfold wf_check. intros H. apply andb_prop in H. destruct H as [H H4]. apply andb_prop in H. destruct H as [H H3].
  apply andb_prop in H. destruct H as [H1 H2]. constructor.
  - apply nodupb_sound, H1.
  - intros n b Hin. rewrite forallb_forall in H2. specialize (H2 _ Hin). simpl in H2. apply Nat.eqb_eq, H2.
  - intros pre n s post E. apply (check_sups_sound c (c_sups c) [] H3 pre n s post); [simpl; exact E | simpl; lia].
  - intros n t Hin. rewrite forallb_forall in H4. specialize (H4 _ Hin). simpl in H4. apply sup_okb_sound, H4. Qed.
