(* C09: the executable well-formedness predicate on PIL documents (evaluated on the
   implementation's real output by the driver) and the proof that the emission of every
   well-formed component object satisfies it. *)
From Coq Require Import List String Ascii Arith Bool Lia.
From PC Require Import Comp.Syntax Comp.Struct Comp.Compile Comp.Denote Comp.EmitProofs Comp.WfCheck.
Import ListNotations.
Local Open Scope list_scope.

Record wstate := { w_env : penv; w_strands : list (string * nat); w_structs : list string }.
Definition w0 : wstate := {| w_env := []; w_strands := []; w_structs := [] |}.
Definition smem (x : string) (l : list string) : bool := existsb (String.eqb x) l.

Fixpoint strand_lens (ss : list (string * nat)) (names : list string) : option (list nat) :=
  match names with
  | [] => Some []
  | n :: r => match afind ss n, strand_lens ss r with Some l, Some ls => Some (l :: ls) | _, _ => None end
  end.

(* one pass over the document, definitions before uses:
   - sequence / sup-sequence / strand names are new, their items resolve, resolved length = declared length
   - a structure's strands are defined, it balances, it has one segment per strand of that strand's length
   - kinetics mention defined structures; equal lines resolve to sequences of one length *)
Fixpoint wf_run (lines : list pline) (w : wstate) : option wstate :=
  match lines with
  | [] => Some w
  | PSeq n k len :: r =>
      if negb (ahas (w_env w) n) && Nat.eqb (List.length k) len
      then wf_run r {| w_env := w_env w ++ [(n, dom_nts n (List.length k))]; w_strands := w_strands w; w_structs := w_structs w |}
      else None
  | PSup n items len :: r =>
      match resolve_items (w_env w) items with
      | Some v => if negb (ahas (w_env w) n) && Nat.eqb (List.length v) len
                  then wf_run r {| w_env := w_env w ++ [(n, v)]; w_strands := w_strands w; w_structs := w_structs w |}
                  else None
      | None => None
      end
  | PStrand d n items len :: r =>
      match resolve_items (w_env w) items with
      | Some v => if negb (ahas (w_strands w) n) && Nat.eqb (List.length v) len
                  then wf_run r {| w_env := w_env w; w_strands := w_strands w ++ [(n, len)]; w_structs := w_structs w |}
                  else None
      | None => None
      end
  | PStruct o n ss s :: r =>
      match strand_lens (w_strands w) ss with
      | Some lens => if negb (smem n (w_structs w)) && balanced s && structure_ok s lens
                     then wf_run r {| w_env := w_env w; w_strands := w_strands w; w_structs := w_structs w ++ [n] |}
                     else None
      | None => None
      end
  | PKin _ _ ins outs :: r =>
      if forallb (fun x => smem x (w_structs w)) ins && forallb (fun x => smem x (w_structs w)) outs
      then wf_run r w else None
  | PEqual items :: r =>
      match items with
      | [] => None
      | i0 :: _ =>
          match resolve_items (w_env w) [i0] with
          | Some v0 => if forallb (fun i => match resolve_items (w_env w) [i] with
                                            | Some v => Nat.eqb (List.length v) (List.length v0) | None => false end) items
                       then wf_run r w else None
          | None => None
          end
      end
  end.
Definition wf_pil (lines : list pline) : bool := match wf_run lines w0 with Some _ => true | None => false end.

Lemma wf_run_app l1 : forall l2 w, wf_run (l1 ++ l2) w = match wf_run l1 w with Some w1 => wf_run l2 w1 | None => None end.
Proof. induction l1 as [|x l1 IH]; intros l2 w; [reflexivity|].
  destruct x; cbn [app wf_run].
  - destruct (negb (ahas (w_env w) name) && Nat.eqb (List.length const) len); [apply IH | reflexivity].
  - destruct (resolve_items (w_env w) items); [|reflexivity].
    destruct (negb (ahas (w_env w) name) && Nat.eqb (List.length l) len); [apply IH | reflexivity].
  - destruct (resolve_items (w_env w) items); [|reflexivity].
    destruct (negb (ahas (w_strands w) name) && Nat.eqb (List.length l) len); [apply IH | reflexivity].
  - destruct (strand_lens (w_strands w) strands); [|reflexivity].
    destruct (negb (smem name (w_structs w)) && balanced s && structure_ok s l); [apply IH | reflexivity].
  - destruct (forallb _ ins && forallb _ outs); [apply IH | reflexivity].
  - destruct items as [|i0 items]; [reflexivity|].
    destruct (resolve_items (w_env w) [i0]); [|reflexivity].
    destruct (forallb _ (i0 :: items)); [apply IH | reflexivity]. Qed.

(* ---- the second half of the object invariant: strands / structures / kinetics ---- *)
Record WF2 (c : comp) : Prop := {
  wf2_strands : NoDup (map fst (c_strands c));
  wf2_structs : forall pre n u post, c_structs c = pre ++ (n, u) :: post ->
      ~ In n (map fst pre) /\ balanced (u_struct u) = true /\
      exists ts, find_strands c (u_strands u) = OK ts /\
                 structure_ok (u_struct u) (map (fun t => s_len (t_sup t)) ts) = true;
  wf2_kins : forall k, In k (c_kins c) ->
      forallb (ahas (c_structs c)) (k_ins k) = true /\ forallb (ahas (c_structs c)) (k_outs k) = true }.

Fixpoint check_structs (c : comp) (pre rest : list (string * struc)) : bool :=
  match rest with
  | [] => true
  | (n, u) :: r =>
      negb (ahas pre n) && balanced (u_struct u) &&
      match find_strands c (u_strands u) with
      | OK ts => structure_ok (u_struct u) (map (fun t => s_len (t_sup t)) ts)
      | Err _ => false
      end && check_structs c (pre ++ [(n, u)]) r
  end.
Definition wf_check2 (c : comp) : bool :=
  nodupb (map fst (c_strands c)) && check_structs c [] (c_structs c) &&
  forallb (fun k => forallb (ahas (c_structs c)) (k_ins k) && forallb (ahas (c_structs c)) (k_outs k)) (c_kins c).

Lemma ahas_false_notin {V} (t : list (string * V)) k : ahas t k = false -> ~ In k (map fst t).
Proof. intros H Hin. unfold ahas in H. induction t as [|[k' v] t IH]; simpl in *; [exact Hin|].
  destruct (String.eqb k' k) eqn:E; [discriminate|]. destruct Hin as [Hin|Hin]; [subst; rewrite String.eqb_refl in E; discriminate | auto]. Qed.

Lemma check_structs_sound c : forall rest pre, check_structs c pre rest = true ->
  forall p n u post, pre ++ rest = p ++ (n, u) :: post -> List.length pre <= List.length p ->
  ~ In n (map fst p) /\ balanced (u_struct u) = true /\
  exists ts, find_strands c (u_strands u) = OK ts /\ structure_ok (u_struct u) (map (fun t => s_len (t_sup t)) ts) = true.
Proof. induction rest as [|[n0 u0] r IH]; intros pre H p n u post E L.
  - rewrite app_nil_r in E. subst pre. rewrite app_length in L. simpl in L. lia.
  - simpl in H. apply andb_prop in H. destruct H as [H H4]. apply andb_prop in H. destruct H as [H H3].
    apply andb_prop in H. destruct H as [H1 H2].
    destruct (Nat.eq_dec (List.length pre) (List.length p)) as [EQ|NE].
    + destruct (app_eq_len pre p _ _ E EQ) as [A B]. inversion B; subst.
      split; [apply ahas_false_notin, negb_true_iff, H1 | split; [exact H2|]].
      destruct (find_strands c (u_strands u)) as [ts|]; [|discriminate]. exists ts. auto.
    + apply (IH (pre ++ [(n0, u0)]) H4 p n u post); [rewrite <- app_assoc; exact E | rewrite app_length; simpl; lia]. Qed.

Theorem wf_check2_sound c : wf_check2 c = true -> WF2 c.
Proof. unfold wf_check2. intros H. apply andb_prop in H. destruct H as [H H3]. apply andb_prop in H. destruct H as [H1 H2].
  constructor.
  - apply nodupb_sound, H1.
  - intros pre n u post E. apply (check_structs_sound c (c_structs c) [] H2 pre n u post); [exact E | simpl; lia].
  - intros k Hk. rewrite forallb_forall in H3. specialize (H3 k Hk). apply andb_prop in H3. exact H3. Qed.

(* ---- emission of a well-formed object is a well-formed document ---- *)
Section EmitWf.
Variable c : comp.
Hypothesis W : WF c.
Hypothesis W2 : WF2 c.
Let P := c_prefix c.

Definition st_bases (done : list (string * bseq)) : wstate :=
  {| w_env := env_bases c done; w_strands := []; w_structs := [] |}.

Lemma run_bases : forall bs done, c_bases c = done ++ bs ->
  wf_run (base_lines c bs) (st_bases done) = Some (st_bases (c_bases c)).
Proof. induction bs as [|[n b] bs IH]; intros done Hd; simpl.
  - rewrite Hd, app_nil_r. reflexivity.
  - assert (Hd' : c_bases c = (done ++ [(n, b)]) ++ bs) by (rewrite <- app_assoc; exact Hd).
    specialize (IH _ Hd').
    assert (E : env_bases c (done ++ [(n, b)]) = env_bases c done ++ (if Nat.eqb (b_len b) 0 then [] else [(P +++ n, dom_nts (P +++ n) (b_len b))])).
    { unfold env_bases. rewrite flat_map_app. simpl. rewrite app_nil_r. reflexivity. }
    destruct (Nat.eqb (b_len b) 0) eqn:Z; simpl.
    + unfold st_bases in IH. rewrite E, app_nil_r in IH. exact IH.
    + assert (HL : List.length (b_const b) = b_len b).
      { apply (wf_const c W n). rewrite Hd. apply in_or_app. right. left. reflexivity. }
      rewrite HL, Nat.eqb_refl. rewrite ahas_false.
      * simpl. unfold st_bases in IH. rewrite E in IH. exact IH.
      * intros H. apply env_bases_keys in H. destruct H as [m [A B]]. apply append_inj in A. subst m.
        pose proof (nodup_bases c W) as ND. rewrite Hd, map_app in ND. simpl in ND.
        apply NoDup_remove_2 in ND. apply ND. apply in_or_app. left. exact B. Qed.

Definition st_sups (done : list (string * sup)) : wstate :=
  {| w_env := env_bases c (c_bases c) ++ env_sups c done; w_strands := []; w_structs := [] |}.

Lemma flat_len_sup n s : In (n, s) (c_sups c) -> List.length (flatB c (s_base s)) = s_len s.
Proof. intros H. destruct (in_split _ _ H) as [pre [post E]]. symmetry. apply (so_len _ _ _ (wf_sups c W pre n s post E)). Qed.

Lemma run_sups : forall ss done, c_sups c = done ++ ss ->
  wf_run (sup_lines c ss) (st_sups done) = Some (st_sups (c_sups c)).
Proof. induction ss as [|[n s] ss IH]; intros done Hd; simpl.
  - rewrite Hd, app_nil_r. reflexivity.
  - assert (Hd' : c_sups c = (done ++ [(n, s)]) ++ ss) by (rewrite <- app_assoc; exact Hd).
    specialize (IH _ Hd').
    assert (E : env_sups c (done ++ [(n, s)]) = env_sups c done ++ (if Nat.eqb (s_len s) 0 then [] else [(P +++ n, flatB c (s_base s))])).
    { unfold env_sups. rewrite flat_map_app. simpl. rewrite app_nil_r. reflexivity. }
    destruct (Nat.eqb (s_len s) 0) eqn:Z; simpl.
    + unfold st_sups in IH. rewrite E, app_nil_r in IH. exact IH.
    + pose proof (wf_sups c W done n s ss Hd) as OKs.
      rewrite (resolve_refs c W done (s_seqs s) (so_refs _ _ _ OKs)); [|exists ((n, s) :: ss); exact Hd].
      rewrite (flat_refs_base c s done OKs), <- (so_len _ _ _ OKs), Nat.eqb_refl.
      rewrite ahas_false.
      * simpl. unfold st_sups in IH. rewrite E, app_assoc in IH. exact IH.
      * rewrite map_app. intros H. apply in_app_or in H. destruct H as [H|H].
        -- apply env_bases_keys in H. destruct H as [m [A B]]. apply append_inj in A. subst m.
           apply (base_not_sup c W n B). rewrite Hd, map_app. apply in_or_app. right. left. reflexivity.
        -- apply env_sups_keys in H. destruct H as [m [A B]]. apply append_inj in A. subst m.
           pose proof (nodup_sups c W) as ND. rewrite Hd, map_app in ND. simpl in ND.
           apply NoDup_remove_2 in ND. apply ND. apply in_or_app. left. exact B. Qed.

Definition strand_entries (ts : list (string * strand)) : list (string * nat) :=
  map (fun '(n, t) => (P +++ n, s_len (t_sup t))) ts.
Definition st_strands (done : list (string * strand)) : wstate :=
  {| w_env := final_env c; w_strands := strand_entries done; w_structs := [] |}.
Definition strand_lines (ts : list (string * strand)) : list pline :=
  map (fun '(n, t) => PStrand (t_dummy t) (P +++ n) (emit_items c (s_seqs (t_sup t))) (s_len (t_sup t))) ts.

Lemma run_strands : forall ts done, c_strands c = done ++ ts ->
  wf_run (strand_lines ts) (st_strands done) = Some (st_strands (c_strands c)).
Proof. induction ts as [|[n t] ts IH]; intros done Hd; simpl.
  - rewrite Hd, app_nil_r. reflexivity.
  - assert (Hd' : c_strands c = (done ++ [(n, t)]) ++ ts) by (rewrite <- app_assoc; exact Hd).
    specialize (IH _ Hd').
    assert (OKs : sup_ok c (c_sups c) (t_sup t)).
    { apply (wf_strands c W n). rewrite Hd. apply in_or_app. right. left. reflexivity. }
    assert (R := resolve_refs c W (c_sups c) (s_seqs (t_sup t)) (so_refs _ _ _ OKs)).
    unfold final_env. rewrite R; [|exists []; rewrite app_nil_r; reflexivity].
    rewrite (flat_refs_base c _ _ OKs), <- (so_len _ _ _ OKs), Nat.eqb_refl.
    rewrite ahas_false.
    + simpl. unfold st_strands, strand_entries in IH. rewrite map_app in IH. exact IH.
    + unfold strand_entries. rewrite map_map. intros H. apply in_map_iff in H. destruct H as [[m u] [A B]].
      simpl in A. apply append_inj in A. subst m.
      pose proof (wf2_strands c W2) as ND. rewrite Hd, map_app in ND. simpl in ND.
      apply NoDup_remove_2 in ND. apply ND. apply in_or_app. left. apply (in_map fst) in B. exact B. Qed.

Lemma strand_lens_found : forall names ts, find_strands c names = OK ts ->
  strand_lens (strand_entries (c_strands c)) (map (fun x => P +++ x) names) = Some (map (fun t => s_len (t_sup t)) ts).
Proof. induction names as [|n r IH]; intros ts H; simpl in *.
  - inversion H. reflexivity.
  - destruct (afind (c_strands c) n) as [t|] eqn:E; [|discriminate].
    destruct (find_strands c r) as [rest|] eqn:R; [|discriminate]. simpl in H. inversion H; subst.
    rewrite (IH rest eq_refl).
    assert (F : afind (strand_entries (c_strands c)) (P +++ n) = Some (s_len (t_sup t))).
    { apply afind_Some_In in E. revert E. pose proof (wf2_strands c W2) as ND. revert ND.
      generalize (c_strands c) as l. induction l as [|[m u] l IHl]; simpl; intros ND Hin; [destruct Hin|].
      inversion ND as [|? ? N1 N2]; subst. destruct Hin as [Hin|Hin].
      - inversion Hin; subst. rewrite String.eqb_refl. reflexivity.
      - destruct (String.eqb (P +++ m) (P +++ n)) eqn:Q; [|apply IHl; auto].
        apply String.eqb_eq, append_inj in Q. subst. exfalso. apply N1. apply (in_map fst) in Hin. exact Hin. }
    rewrite F. reflexivity. Qed.

Definition st_structs (done : list (string * struc)) : wstate :=
  {| w_env := final_env c; w_strands := strand_entries (c_strands c); w_structs := map (fun p => P +++ fst p) done |}.
Definition struct_lines (us : list (string * struc)) : list pline :=
  map (fun '(n, u) => PStruct (u_opt u) (P +++ n) (map (fun x => P +++ x) (u_strands u)) (u_struct u)) us.

Lemma smem_false x l : ~ In x l -> smem x l = false.
Proof. intros H. unfold smem. destruct (existsb (String.eqb x) l) eqn:E; [|reflexivity].
  apply existsb_exists in E. destruct E as [y [Hy Q]]. apply String.eqb_eq in Q. subst. tauto. Qed.
Lemma smem_true x l : In x l -> smem x l = true.
Proof. intros H. unfold smem. apply existsb_exists. exists x. split; [exact H | apply String.eqb_refl]. Qed.

Lemma run_structs : forall us done, c_structs c = done ++ us ->
  wf_run (struct_lines us) (st_structs done) = Some (st_structs (c_structs c)).
Proof. induction us as [|[n u] us IH]; intros done Hd; simpl.
  - rewrite Hd, app_nil_r. reflexivity.
  - assert (Hd' : c_structs c = (done ++ [(n, u)]) ++ us) by (rewrite <- app_assoc; exact Hd).
    specialize (IH _ Hd').
    destruct (wf2_structs c W2 done n u us Hd) as [Nin [B [ts [F S]]]].
    rewrite (strand_lens_found _ _ F), B, S. rewrite smem_false.
    + simpl. unfold st_structs in IH. rewrite map_app in IH. exact IH.
    + intros H. apply in_map_iff in H. destruct H as [[m v] [A Hin]]. simpl in A. apply append_inj in A. subst m.
      apply Nin. apply (in_map fst) in Hin. exact Hin. Qed.

Definition kin_lines : list pline :=
  map (fun k => PKin (k_low k) (k_high k) (map (fun x => P +++ x) (k_ins k)) (map (fun x => P +++ x) (k_outs k))) (c_kins c).

Lemma forall_smem names : forallb (ahas (c_structs c)) names = true ->
  forallb (fun x => smem x (map (fun p => P +++ fst p) (c_structs c))) (map (fun x => P +++ x) names) = true.
Proof. intros H. rewrite forallb_forall in *. intros x Hx. apply in_map_iff in Hx. destruct Hx as [y [A B]]. subst.
  apply smem_true. specialize (H y B). apply ahas_In in H. apply in_map_iff in H. destruct H as [[m v] [Q R]].
  simpl in Q. subst. apply in_map_iff. exists (y, v). auto. Qed.

Lemma run_kins : wf_run kin_lines (st_structs (c_structs c)) = Some (st_structs (c_structs c)).
Proof. unfold kin_lines. assert (H := wf2_kins c W2). revert H. generalize (c_kins c) as ks.
  induction ks as [|k ks IH]; simpl; intros H; [reflexivity|].
  destruct (H k (or_introl eq_refl)) as [A B].
  rewrite (forall_smem _ A), (forall_smem _ B). simpl. apply IH. intros k' Hk'. apply H. right. exact Hk'. Qed.

(* Whenever the (model of the) compiler produces output for a well-formed object, the
   document satisfies every clause of the well-formedness predicate. *)
Theorem emit_wf_pil : wf_pil (emit_comp c) = true.
Proof. unfold wf_pil.
  assert (E : emit_comp c = base_lines c (c_bases c) ++ sup_lines c (c_sups c) ++ strand_lines (c_strands c) ++ struct_lines (c_structs c) ++ kin_lines)
    by reflexivity.
  rewrite E, wf_run_app.
  change w0 with (st_bases []). rewrite (run_bases (c_bases c) [] eq_refl).
  rewrite wf_run_app.
  assert (S0 : st_bases (c_bases c) = st_sups []) by (unfold st_bases, st_sups; simpl; rewrite app_nil_r; reflexivity).
  rewrite S0, (run_sups (c_sups c) [] eq_refl).
  rewrite wf_run_app.
  assert (S1 : st_sups (c_sups c) = st_strands []) by reflexivity.
  rewrite S1, (run_strands (c_strands c) [] eq_refl).
  rewrite wf_run_app.
  assert (S2 : st_strands (c_strands c) = st_structs []) by reflexivity.
  rewrite S2, (run_structs (c_structs c) [] eq_refl), run_kins. reflexivity. Qed.
End EmitWf.
