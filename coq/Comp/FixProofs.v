(* C12 proofs on the fix model. *)
From Coq Require Import List String Ascii Arith Bool Lia.
From PC Require Import Base.Codes Base.TablesGen Base.Tables Comp.Syntax Comp.Compile Comp.Fix.
Import ListNotations.
Local Open Scope list_scope.

(* per position, the new code denotes exactly the intersection of the old and the fixed code *)
Theorem inter_consts_spec : forall old fixed k, List.length old = List.length fixed -> inter_consts old fixed = (k, FOk) ->
  List.length k = List.length old /\
  forall i o f, nth_error old i = Some o -> nth_error fixed i = Some f ->
    exists c go gf, nth_error k i = Some c /\ group o = Some go /\ group f = Some gf /\ group c = Some (binter go gf) /\ bempty (binter go gf) = false.
Proof. induction old as [|o old IH]; intros [|f fixed] k L H; simpl in *; try discriminate.
  - inversion H; subst. split; [reflexivity|]. intros i o f Ho. destruct i; discriminate.
  - destruct (code_inter o f) as [c| |] eqn:C; try discriminate.
    destruct (inter_consts old fixed) as [r st] eqn:R. inversion H; subst. inversion L as [L'].
    destruct (IH fixed r L' R) as [A B]. split; [simpl; f_equal; exact A|].
    intros i o' f' Ho Hf. destruct i as [|i]; simpl in *.
    + inversion Ho; inversion Hf; subst. unfold code_inter in C.
      destruct (group o') as [go|] eqn:Go; [|discriminate]. destruct (group f') as [gf|] eqn:Gf; [|discriminate].
      destruct (bempty (binter go gf)) eqn:E; [discriminate|].
      destruct (inter_closed o' f' go gf Go Gf E) as [c' [C1 [C2 _]]].
      unfold code_inter in C1. rewrite Go, Gf, E in C1.
      destruct (rev_group (binter go gf)) as [c''|]; [|discriminate]. inversion C; inversion C1; subst.
      exists c', go, gf. auto.
    + apply (B i o' f' Ho Hf). Qed.

(* an empty intersection anywhere is an error, a wrong length is an error *)
Theorem fix_base_errors bs n b fixed : afind bs n = Some b ->
  (List.length fixed <> b_len b -> snd (fix_base bs n fixed) = FFail "length") /\
  (forall i o f go gf, List.length fixed = b_len b -> List.length (b_const b) = b_len b ->
     nth_error (b_const b) i = Some o -> nth_error fixed i = Some f ->
     group o = Some go -> group f = Some gf -> bempty (binter go gf) = true ->
     (forall j o' f', j < i -> nth_error (b_const b) j = Some o' -> nth_error fixed j = Some f' ->
        exists c, code_inter o' f' = IOk c) ->
     snd (fix_base bs n fixed) = FFail "conflict").
Proof. intros Hb. unfold fix_base. rewrite Hb. split.
  - intros H. apply Nat.eqb_neq in H. rewrite H. reflexivity.
  - intros i o f go gf L1 L2 Ho Hf Go Gf E Hbefore. rewrite L1, Nat.eqb_refl. simpl.
    assert (X : snd (inter_consts (b_const b) fixed) = FFail "conflict").
    { clear -Ho Hf Go Gf E Hbefore. revert i fixed Ho Hf Hbefore. generalize (b_const b) as old.
      induction old as [|o0 old IH]; intros i fixed Ho Hf Hb; [destruct i; discriminate|].
      destruct fixed as [|f0 fixed]; [destruct i; discriminate|]. simpl.
      destruct i as [|i]; simpl in *.
      - inversion Ho; inversion Hf; subst. unfold code_inter. rewrite Go, Gf, E. reflexivity.
      - destruct (Hb 0 o0 f0) as [c Hc]; [lia | reflexivity | reflexivity|]. rewrite Hc.
        specialize (IH i fixed Ho Hf). destruct (inter_consts old fixed) as [r st]. simpl in *.
        apply IH. intros j o' f' Hj. apply (Hb (S j)). lia. }
    destruct (inter_consts (b_const b) fixed) as [k st]. simpl in X. subst st. reflexivity. Qed.

Lemma afind_set_const_other bs n k m : m <> n -> afind (set_const bs n k) m = afind bs m.
Proof. intros H. induction bs as [|[x b] bs IH]; simpl; [reflexivity|].
  destruct (String.eqb x n) eqn:E; simpl.
  - apply String.eqb_eq in E. subst. destruct (String.eqb n m) eqn:Q; [apply String.eqb_eq in Q; congruence | reflexivity].
  - destruct (String.eqb x m); [reflexivity | exact IH]. Qed.
Lemma afind_set_const_same bs n k b : afind bs n = Some b ->
  afind (set_const bs n k) n = Some {| b_len := b_len b; b_const := k; b_anon := b_anon b |}.
Proof. induction bs as [|[x b0] bs IH]; simpl; [discriminate|].
  destruct (String.eqb x n) eqn:E; simpl.
  - intros H. inversion H; subst. rewrite E. reflexivity.
  - rewrite E. exact IH. Qed.

(* fixing one base sequence changes that sequence's constraint only, keeps its length, and nothing else *)
Theorem fix_base_frame bs n fixed bs' : fix_base bs n fixed = (bs', FOk) ->
  (forall m, m <> n -> afind bs' m = afind bs m) /\
  (forall b, afind bs n = Some b -> exists k, afind bs' n = Some {| b_len := b_len b; b_const := k; b_anon := b_anon b |} /\
       inter_consts (b_const b) fixed = (k, FOk) /\ List.length fixed = b_len b).
Proof. unfold fix_base. destruct (afind bs n) as [b|] eqn:Hb; [|discriminate].
  destruct (Nat.eqb (List.length fixed) (b_len b)) eqn:L; simpl; [|discriminate].
  destruct (inter_consts (b_const b) fixed) as [k st] eqn:I. destruct st; try discriminate.
  intros H. inversion H; subst. split.
  - intros m Hm. apply afind_set_const_other, Hm.
  - intros b0 Hb0. inversion Hb0; subst. exists k. split; [apply afind_set_const_same, Hb | split; [exact I | apply Nat.eqb_eq, L]]. Qed.
(* a failed or warned fix of a base sequence changes nothing at all *)
Theorem fix_base_fail_unchanged bs n fixed bs' st : fix_base bs n fixed = (bs', st) -> st <> FOk -> bs' = bs.
Proof. unfold fix_base. destruct (afind bs n) as [b|]; [|intros H; inversion H; reflexivity].
  destruct (negb (Nat.eqb (List.length fixed) (b_len b))); [intros H; inversion H; reflexivity|].
  destruct (inter_consts (b_const b) fixed) as [k [| |s]]; intros H; inversion H; subst; [congruence | reflexivity | reflexivity]. Qed.

(* a starred domain is fixed through the reverse complement *)
Theorem fix_bref_star bs n fixed w : wc_codes fixed = Some w -> fix_bref bs (n, true) fixed = fix_base bs n w.
Proof. intros H. unfold fix_bref. simpl. rewrite H. reflexivity. Qed.
Theorem fix_bref_plain bs n fixed : fix_bref bs (n, false) fixed = fix_base bs n fixed.
Proof. reflexivity. Qed.
