(* Model of DNA_classes.Sequence._get_length_const (C10): wildcard arithmetic of one
   quoted constraint.  The composite case (deferred wildcard region of a super-sequence or
   strand) is Compile.build_super. *)
From Coq Require Import List String Ascii Arith Bool.
From PC Require Import Comp.Syntax.
Import ListNotations.
Local Open Scope string_scope.
Local Open Scope list_scope.

Fixpoint count_wild (ps : list part) : nat :=
  match ps with [] => 0 | (MWild, _) :: r => S (count_wild r) | _ :: r => count_wild r end.
Fixpoint sum_nums (ps : list part) : nat :=
  match ps with [] => 0 | (MNum n, _) :: r => n + sum_nums r | _ :: r => sum_nums r end.
(* the long-form constraint string, every '?' taking w copies *)
Fixpoint build_const (w : nat) (ps : list part) : list ascii :=
  match ps with
  | [] => []
  | (MNum n, c) :: r => repeat c n ++ build_const w r
  | (MWild, c) :: r => repeat c w ++ build_const w r
  end.

Inductive wres := WOk (len : nat) (const : list ascii) | WWild | WErr (k : string).

Definition get_length_const (length : option nat) (ps : list part) : wres :=
  match count_wild ps with
  | 0 => let s := sum_nums ps in
         match length with
         | Some L => if Nat.eqb L s then WOk L (build_const 0 ps) else WErr "length-mismatch"
         | None => WOk s (build_const 0 ps)
         end
  | 1 => match length with
         | None => WWild                      (* WildError: '?' without a length *)
         | Some L => let c := sum_nums ps in
                     if Nat.ltb L c then WErr "too-short" else WOk L (build_const (L - c) ps)
         end
  | _ => WErr "too-many-wildcards"
  end.
