(* Model of component compilation: component_parser.load_component's dispatch,
   Component.add_sequence / clean_const / add_super_sequence / add_strand / add_structure /
   add_kinetic / add_IO and the DNA_classes constructors (Sequence, SuperSequence incl. the
   deferred wildcard region, Reverse* views as functions on references, Strand, Structure).
   Python objects are identified by (name, reversed); the process-global anonymous counter
   is an explicit state component. *)
From Coq Require Import List String Ascii Arith Bool DecimalString DecimalNat.
From PC Require Import Base.Sexp Comp.Syntax Comp.Struct Comp.Wild.
Import ListNotations.
Local Open Scope string_scope.
Local Open Scope list_scope.
Notation "a +++ b" := (String.append a b) (at level 60, right associativity).

Record bseq := { b_len : nat; b_const : list ascii; b_anon : bool }.
Definition bref := (string * bool)%type.                       (* base sequence name, reversed *)
Inductive ref := RB (n : string) (r : bool) | RS (n : string) (r : bool).
Record sup := { s_seqs : list ref; s_base : list bref; s_len : nat }.
Record strand := { t_sup : sup; t_dummy : bool }.
Record struc := { u_opt : nat; u_strands : list string; u_struct : list sym }.
Record kinr := { k_low : option string; k_high : option string; k_ins : list string; k_outs : list string }.
Record comp := {
  c_prefix : string;
  c_bases : list (string * bseq);      (* Component.base_seqs, insertion order *)
  c_sups : list (string * sup);        (* Component.sup_seqs *)
  c_strands : list (string * strand);
  c_structs : list (string * struc);
  c_kins : list kinr;
  c_ins : list (ref * option string);  (* input_seqs / input_structs *)
  c_outs : list (ref * option string) }.

Fixpoint afind {V} (t : list (string * V)) (k : string) : option V :=
  match t with [] => None | (k', v) :: r => if String.eqb k' k then Some v else afind r k end.
Definition ahas {V} (t : list (string * V)) (k : string) : bool :=
  match afind t k with Some _ => true | None => false end.

Definition rflip (x : ref) : ref := match x with RB n r => RB n (negb r) | RS n r => RS n (negb r) end.
Definition bflip (x : bref) : bref := (fst x, negb (snd x)).
Definition rc_refs (l : list ref) : list ref := map rflip (rev l).
Definition rc_brefs (l : list bref) : list bref := map bflip (rev l).

Definition base_len (bs : list (string * bseq)) (n : string) : nat :=
  match afind bs n with Some b => b_len b | None => 0 end.
Definition ref_len (c : comp) (x : ref) : nat :=
  match x with
  | RB n _ => base_len (c_bases c) n
  | RS n _ => match afind (c_sups c) n with Some s => s_len s | None => 0 end
  end.
Definition ref_base (c : comp) (x : ref) : list bref :=
  match x with
  | RB n r => [(n, r)]
  | RS n r => match afind (c_sups c) n with
              | Some s => if r then rc_brefs (s_base s) else s_base s
              | None => []
              end
  end.
Definition ref_seqs (c : comp) (n : string) (r : bool) : option (list ref) :=
  match afind (c_sups c) n with
  | Some s => Some (if r then rc_refs (s_seqs s) else s_seqs s)
  | None => None
  end.

Definition seq_defined (c : comp) (n : string) : bool := ahas (c_bases c) n || ahas (c_sups c) n.

(* Component.check_user_name: names starting with _Anon are reserved for anonymous sequences *)
Definition is_anon (n : string) : bool := prefix "_Anon" n.

(* clean_const *)
Inductive citem := CRef (x : ref) | CNuc (ps : list part).
Fixpoint clean_const (c : comp) (items : list item) : res (list citem) :=
  match items with
  | [] => OK []
  | IRef n star :: rest =>
      if is_anon n then Err "reserved-name" else
      if ahas (c_bases c) n then do r <- clean_const c rest; OK (CRef (RB n star) :: r)
      else if ahas (c_sups c) n then do r <- clean_const c rest; OK (CRef (RS n star) :: r)
      else Err "undefined-sequence"
  | IDom n star :: rest =>
      if is_anon n then Err "reserved-name" else
      match ref_seqs c n star with
      | Some l => do r <- clean_const c rest; OK (map CRef l ++ r)
      | None => Err "undefined-super-sequence"
      end
  | INuc ps :: rest => do r <- clean_const c rest; OK (CNuc ps :: r)
  end.

(* "_Anon" + repr(num); decimal printing from the standard library (provably injective) *)
Definition anon_name (k : nat) : string := "_Anon" +++ NilEmpty.string_of_uint (Nat.to_uint k).

Fixpoint insert_at {A} (i : nat) (x : A) (l : list A) : list A :=
  match i, l with
  | O, _ => x :: l
  | S i', [] => [x]                       (* list.insert past the end appends *)
  | S i', y :: r => y :: insert_at i' x r
  end.

Record bstate := {
  q_seqs : list ref; q_base : list bref; q_len : nat;
  q_wild : option (nat * nat * list part);
  q_anons : list (string * bseq); q_ctr : nat }.

(* the "for item in constraints" loop of SuperSequence.__init__ *)
Fixpoint bs_loop (c : comp) (items : list citem) (q : bstate) : res bstate :=
  match items with
  | [] => OK q
  | CRef x :: rest =>
      bs_loop c rest {| q_seqs := q_seqs q ++ [x]; q_base := q_base q ++ ref_base c x;
                        q_len := q_len q + ref_len c x; q_wild := q_wild q;
                        q_anons := q_anons q; q_ctr := q_ctr q |}
  | CNuc ps :: rest =>
      match get_length_const None ps with
      | WOk l k =>
          let nm := anon_name (q_ctr q) in
          bs_loop c rest {| q_seqs := q_seqs q ++ [RB nm false]; q_base := q_base q ++ [(nm, false)];
                            q_len := q_len q + l; q_wild := q_wild q;
                            q_anons := q_anons q ++ [(nm, {| b_len := l; b_const := k; b_anon := true |})];
                            q_ctr := S (q_ctr q) |}
      | WWild =>
          match q_wild q with
          | Some _ => Err "too-many-wildcards"
          | None => bs_loop c rest {| q_seqs := q_seqs q; q_base := q_base q; q_len := q_len q;
                                      q_wild := Some (List.length (q_seqs q), List.length (q_base q), ps);
                                      q_anons := q_anons q; q_ctr := q_ctr q |}
          end
      | WErr k => Err k
      end
  end.

(* SuperSequence.__init__ : returns the object, the anonymous sequences it created, the counter *)
Definition build_super (c : comp) (ctr : nat) (items : list citem) (length : option nat)
  : res (sup * list (string * bseq) * nat) :=
  do q <- bs_loop c items {| q_seqs := []; q_base := []; q_len := 0; q_wild := None; q_anons := []; q_ctr := ctr |};
  match q_wild q with
  | None =>
      match length with
      | Some L => if Nat.eqb L (q_len q)
                  then OK ({| s_seqs := q_seqs q; s_base := q_base q; s_len := q_len q |}, q_anons q, q_ctr q)
                  else Err "length-mismatch"
      | None => OK ({| s_seqs := q_seqs q; s_base := q_base q; s_len := q_len q |}, q_anons q, q_ctr q)
      end
  | Some (i, j, ps) =>
      match length with
      | None => Err "wildcard-without-length"
      | Some L =>
          if Nat.ltb L (q_len q) then Err "too-short" else
          match get_length_const (Some (L - q_len q)) ps with
          | WOk l k =>
              let nm := anon_name (q_ctr q) in
              OK ({| s_seqs := insert_at i (RB nm false) (q_seqs q);
                     s_base := insert_at j (nm, false) (q_base q);
                     s_len := q_len q + l |},
                  q_anons q ++ [(nm, {| b_len := l; b_const := k; b_anon := true |})], S (q_ctr q))
          | WWild => Err "wildcard-without-length"
          | WErr k => Err k
          end
      end
  end.

(* register the anonymous sequences just created, in the order they appear in seqs *)
Fixpoint register (bases : list (string * bseq)) (sups : list (string * sup))
                  (anons : list (string * bseq)) (seqs : list ref) : list (string * bseq) :=
  match seqs with
  | [] => bases
  | RB n _ :: rest =>
      if ahas bases n || ahas sups n then register bases sups anons rest
      else match afind anons n with
           | Some b => register (bases ++ [(n, b)]) sups anons rest
           | None => register bases sups anons rest
           end
  | RS _ _ :: rest => register bases sups anons rest
  end.

Definition empty_comp (prefix : string) : comp :=
  {| c_prefix := prefix; c_bases := []; c_sups := []; c_strands := []; c_structs := []; c_kins := [];
     c_ins := []; c_outs := [] |}.

Definition set_bases (c : comp) (b : list (string * bseq)) : comp :=
  {| c_prefix := c_prefix c; c_bases := b; c_sups := c_sups c; c_strands := c_strands c;
     c_structs := c_structs c; c_kins := c_kins c; c_ins := c_ins c; c_outs := c_outs c |}.

Definition add_sequence (c : comp) (name : string) (ps : list part) (len : option nat) : res comp :=
  if is_anon name then Err "reserved-name" else
  if seq_defined c name then Err "duplicate-sequence" else
  if ahas (c_structs c) name then Err "name-of-a-structure" else
  match get_length_const len ps with
  | WOk l k => OK (set_bases c (c_bases c ++ [(name, {| b_len := l; b_const := k; b_anon := false |})]))
  | WWild => Err "wildcard-without-length"
  | WErr k => Err k
  end.

Definition add_super_sequence (c : comp) (ctr : nat) (name : string) (items : list item) (len : option nat)
  : res (comp * nat) :=
  if is_anon name then Err "reserved-name" else
  if seq_defined c name then Err "duplicate-sequence" else
  if ahas (c_structs c) name then Err "name-of-a-structure" else
  do const <- clean_const c items;
  do r <- build_super c ctr const len;
  let '(s, anons, ctr') := r in
  let sups' := c_sups c ++ [(name, s)] in
  OK ({| c_prefix := c_prefix c; c_bases := register (c_bases c) sups' anons (s_seqs s); c_sups := sups';
         c_strands := c_strands c; c_structs := c_structs c; c_kins := c_kins c;
         c_ins := c_ins c; c_outs := c_outs c |}, ctr').

Definition add_strand (c : comp) (ctr : nat) (dummy : bool) (name : string) (items : list item) (len : option nat)
  : res (comp * nat) :=
  if ahas (c_strands c) name then Err "duplicate-strand" else
  do const <- clean_const c items;
  do r <- build_super c ctr const len;
  let '(s, anons, ctr') := r in
  if Nat.eqb (s_len s) 0 then Err "strand-of-length-0" else
  OK ({| c_prefix := c_prefix c; c_bases := register (c_bases c) (c_sups c) anons (s_seqs s); c_sups := c_sups c;
         c_strands := c_strands c ++ [(name, {| t_sup := s; t_dummy := dummy |})];
         c_structs := c_structs c; c_kins := c_kins c; c_ins := c_ins c; c_outs := c_outs c |}, ctr').

Fixpoint find_strands (c : comp) (names : list string) : res (list strand) :=
  match names with
  | [] => OK []
  | n :: r => match afind (c_strands c) n with
              | Some t => do rest <- find_strands c r; OK (t :: rest)
              | None => Err "undefined-strand"
              end
  end.

Definition add_structure (c : comp) (opt : nat) (name : string) (names : list string) (domain : bool) (s0 : list sym)
  : res comp :=
  if ahas (c_structs c) name then Err "duplicate-structure" else
  if is_anon name then Err "reserved-name" else
  if seq_defined c name then Err "name-of-a-sequence" else
  do ts <- find_strands c names;
  do s <- (if domain then domain_expand s0 (map (fun t => map (ref_len c) (s_seqs (t_sup t))) ts) else OK s0);
  if structure_ok s (map (fun t => s_len (t_sup t)) ts) then
    OK {| c_prefix := c_prefix c; c_bases := c_bases c; c_sups := c_sups c; c_strands := c_strands c;
          c_structs := c_structs c ++ [(name, {| u_opt := opt; u_strands := names; u_struct := s |})];
          c_kins := c_kins c; c_ins := c_ins c; c_outs := c_outs c |}
  else Err "structure-mismatch".

Definition add_kinetic (c : comp) (low high : option string) (ins outs : list string) : res comp :=
  if forallb (ahas (c_structs c)) ins && forallb (ahas (c_structs c)) outs then
    OK {| c_prefix := c_prefix c; c_bases := c_bases c; c_sups := c_sups c; c_strands := c_strands c;
          c_structs := c_structs c;
          c_kins := c_kins c ++ [{| k_low := low; k_high := high; k_ins := ins; k_outs := outs |}];
          c_ins := c_ins c; c_outs := c_outs c |}
  else Err "undefined-structure".

Fixpoint resolve_ports (c : comp) (ps : list port) : res (list (ref * option string)) :=
  match ps with
  | [] => OK []
  | ((n, star), sn) :: r =>
      do x <- (if is_anon n then Err "reserved-name" else if ahas (c_bases c) n then OK (RB n star) else if ahas (c_sups c) n then OK (RS n star)
               else Err "declare-undefined-sequence");
      do _ <- (match sn with
               | Some s => if ahas (c_structs c) s then OK tt else Err "declare-undefined-structure"
               | None => OK tt end);
      do rest <- resolve_ports c r;
      OK ((x, sn) :: rest)
  end.

Definition add_IO (c : comp) (d : declare) : res comp :=
  do i <- resolve_ports c (d_ins d);
  do o <- resolve_ports c (d_outs d);
  OK {| c_prefix := c_prefix c; c_bases := c_bases c; c_sups := c_sups c; c_strands := c_strands c;
        c_structs := c_structs c; c_kins := c_kins c; c_ins := i; c_outs := o |}.

Definition step (cs : comp * nat) (s : stmt) : res (comp * nat) :=
  let '(c, ctr) := cs in
  match s with
  | SSeq name [INuc ps] len => do c' <- add_sequence c name ps len; OK (c', ctr)
  | SSeq name items len => add_super_sequence c ctr name items len
  | SStrand dummy name items len => add_strand c ctr dummy name items len
  | SStruct opt name names domain sn =>
      do s0 <- compile_snot sn; do c' <- add_structure c opt name names domain s0; OK (c', ctr)
  | SKin low high ins outs => do c' <- add_kinetic c low high ins outs; OK (c', ctr)
  end.

Fixpoint steps (cs : comp * nat) (l : list stmt) : res (comp * nat) :=
  match l with [] => OK cs | s :: r => do cs' <- step cs s; steps cs' r end.

(* load_component *)
Definition compile_comp (ctr : nat) (prefix : string) (d : declare) (body : list stmt) : res (comp * nat) :=
  do cs <- steps (empty_comp prefix, ctr) body;
  do c <- add_IO (fst cs) d;
  OK (c, snd cs).

(* ---- Component.output_synthesis ---- *)
Definition ref_dummy (c : comp) (x : ref) : bool := Nat.eqb (ref_len c x) 0.
Definition ref_name (c : comp) (x : ref) : string * bool :=
  match x with RB n r => (c_prefix c +++ n, r) | RS n r => (c_prefix c +++ n, r) end.
Definition emit_items (c : comp) (l : list ref) : list (string * bool) :=
  map (ref_name c) (filter (fun x => negb (ref_dummy c x)) l).

Definition emit_comp (c : comp) : list pline :=
  flat_map (fun '(n, b) => if Nat.eqb (b_len b) 0 then [] else [PSeq (c_prefix c +++ n) (b_const b) (b_len b)]) (c_bases c)
  ++ flat_map (fun '(n, s) => if Nat.eqb (s_len s) 0 then [] else [PSup (c_prefix c +++ n) (emit_items c (s_seqs s)) (s_len s)]) (c_sups c)
  ++ map (fun '(n, t) => PStrand (t_dummy t) (c_prefix c +++ n) (emit_items c (s_seqs (t_sup t))) (s_len (t_sup t))) (c_strands c)
  ++ map (fun '(n, u) => PStruct (u_opt u) (c_prefix c +++ n) (map (fun x => c_prefix c +++ x) (u_strands u)) (u_struct u)) (c_structs c)
  ++ map (fun k => PKin (k_low k) (k_high k) (map (fun x => c_prefix c +++ x) (k_ins k)) (map (fun x => c_prefix c +++ x) (k_outs k))) (c_kins c).
