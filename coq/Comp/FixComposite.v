(* C12, composite objects: fixing a super-sequence, strand or structure distributes the fixed
   string over the underlying base sequences at the right offsets: SuperSequence.fix_seq over the
   (nested) item list equals fixing the flattened list of base-sequence references left to right,
   each with its own slice of the string (reverse complemented for a starred domain). *)
From Coq Require Import List String Ascii Arith Bool Lia.
From PC Require Import Base.Codes Base.Tables Comp.Syntax Comp.Compile Comp.Denote Comp.EmitProofs Comp.CompileProofs Comp.Fix Comp.FixProofs.
Import ListNotations.
Local Open Scope list_scope.

Fixpoint fix_brefs (bs : bases) (l : list bref) (fixed : list ascii) : bases * fstatus :=
  match l with
  | [] => (bs, FOk)
  | x :: r =>
      let n := base_len bs (fst x) in
      match fix_bref bs x (firstn n fixed) with
      | (bs', FOk) => fix_brefs bs' r (skipn n fixed)
      | other => other
      end
  end.

Definition blens (bs : bases) (l : list bref) : nat := sum_list (map (fun x => base_len bs (fst x)) l).

(* ---- fixing never changes a length ---- *)
Lemma base_len_set_const bs n k m : base_len (set_const bs n k) m = base_len bs m.
Proof. unfold base_len. induction bs as [|[x b] bs IH]; simpl; [reflexivity|].
  destruct (String.eqb x n) eqn:E; simpl.
  - destruct (String.eqb x m); reflexivity.
  - destruct (String.eqb x m); [reflexivity | exact IH]. Qed.
Lemma fix_base_lens bs n fixed bs' st : fix_base bs n fixed = (bs', st) -> forall m, base_len bs' m = base_len bs m.
Proof. unfold fix_base. destruct (afind bs n) as [b|]; [|intros H; inversion H; reflexivity].
  destruct (negb _); [intros H; inversion H; reflexivity|].
  destruct (inter_consts (b_const b) fixed) as [k [| |s]]; intros H; inversion H; subst; intros m;
    [apply base_len_set_const | reflexivity | reflexivity]. Qed.
Lemma fix_bref_lens bs x fixed bs' st : fix_bref bs x fixed = (bs', st) -> forall m, base_len bs' m = base_len bs m.
Proof. unfold fix_bref. destruct (snd x).
  - destruct (wc_codes fixed); [apply fix_base_lens | intros H; inversion H; reflexivity].
  - apply fix_base_lens. Qed.
Lemma fix_brefs_lens l : forall bs fixed bs' st, fix_brefs bs l fixed = (bs', st) -> forall m, base_len bs' m = base_len bs m.
Proof. induction l as [|x l IH]; intros bs fixed bs' st H m; simpl in H; [inversion H; reflexivity|].
  destruct (fix_bref bs x _) as [bs1 st1] eqn:F. pose proof (fix_bref_lens _ _ _ _ _ F) as L1.
  destruct st1; [rewrite (IH _ _ _ _ H m); apply L1 | inversion H; subst; apply L1 | inversion H; subst; apply L1]. Qed.
Lemma blens_ext bs bs' l : (forall m, base_len bs' m = base_len bs m) -> blens bs' l = blens bs l.
Proof. intros H. unfold blens. f_equal. apply map_ext. intros x. apply H. Qed.

Lemma skipn_add {A} (a b : nat) (l : list A) : skipn (a + b) l = skipn b (skipn a l).
Proof. revert l. induction a as [|a IH]; intros l; simpl; [reflexivity|]. destruct l; [destruct b; reflexivity | apply IH]. Qed.

Lemma fix_brefs_app l1 : forall bs l2 fixed, fix_brefs bs (l1 ++ l2) fixed =
  match fix_brefs bs l1 (firstn (blens bs l1) fixed) with
  | (bs', FOk) => fix_brefs bs' l2 (skipn (blens bs l1) fixed)
  | other => other end.
Proof. induction l1 as [|x l1 IH]; intros bs l2 fixed; [reflexivity|].
  cbn [app fix_brefs]. unfold blens. cbn [map sum_list]. fold (blens bs l1).
  set (n := base_len bs (fst x)). rewrite firstn_firstn. replace (Nat.min n (n + blens bs l1)) with n by lia.
  destruct (fix_bref bs x (firstn n fixed)) as [bs1 st1] eqn:F. destruct st1; try reflexivity.
  rewrite IH, (blens_ext bs bs1 l1 (fix_bref_lens _ _ _ _ _ F)). rewrite <- firstn_skipn_comm, skipn_add. reflexivity. Qed.

(* ---- reversed views ---- *)
Lemma bflip_invol x : bflip (bflip x) = x. Proof. destruct x as [n r]. unfold bflip. simpl. rewrite negb_involutive. reflexivity. Qed.
Lemma rc_brefs_app a b : rc_brefs (a ++ b) = rc_brefs b ++ rc_brefs a.
Proof. unfold rc_brefs. rewrite rev_app_distr, map_app. reflexivity. Qed.
Lemma rc_brefs_invol l : rc_brefs (rc_brefs l) = l.
Proof. unfold rc_brefs. rewrite <- map_rev, rev_involutive, map_map. rewrite <- (map_id l) at 2. apply map_ext. apply bflip_invol. Qed.
Lemma ref_base_flip c x : ref_base c (rflip x) = rc_brefs (ref_base c x).
Proof. destruct x as [n r|n r]; simpl; [reflexivity|]. destruct (afind (c_sups c) n) as [s|]; [|reflexivity].
  destruct r; simpl; [rewrite rc_brefs_invol|]; reflexivity. Qed.
Lemma flat_rc_refs c l : flat_map (ref_base c) (rc_refs l) = rc_brefs (flat_map (ref_base c) l).
Proof. unfold rc_refs. induction l as [|x l IH]; [reflexivity|]. simpl. rewrite map_app, flat_map_app, IH. simpl.
  rewrite app_nil_r, rc_brefs_app, ref_base_flip. reflexivity. Qed.
Lemma blens_app bs a b : blens bs (a ++ b) = blens bs a + blens bs b.
Proof. unfold blens. rewrite map_app, sum_list_app. reflexivity. Qed.
Lemma blens_rc bs l : blens bs (rc_brefs l) = blens bs l.
Proof. unfold rc_brefs. induction l as [|x l IH]; [reflexivity|]. simpl. rewrite map_app, blens_app, IH. unfold blens. simpl. lia. Qed.

(* ---- unfolding of the nested fixpoint ---- *)
Lemma fix_refs_nil f c bs fixed : fix_refs (S f) c bs [] fixed = (bs, FOk). Proof. reflexivity. Qed.
Lemma fix_refs_cons f c bs x rest fixed : fix_refs (S f) c bs (x :: rest) fixed =
  let l := match x with RB n _ => base_len bs n | RS n _ => match afind (c_sups c) n with Some s => s_len s | None => 0 end end in
  let piece := firstn l fixed in
  let r := match x with
           | RB n r => fix_bref bs (n, r) piece
           | RS n r => match afind (c_sups c) n with
                       | Some s => if negb (Nat.eqb (List.length piece) (s_len s)) then (bs, FFail "length")
                                   else fix_refs f c bs (if r then rc_refs (s_seqs s) else s_seqs s) piece
                       | None => (bs, FKey) end end in
  match r with
  | (bs', FOk) => fix_refs (S f) c bs' rest (skipn l fixed)
  | other => other end.
Proof. reflexivity. Qed.

Section Composite.
Variable c : comp.
Hypothesis W : WF c.

Definition dok (fuel : nat) (seqs : list ref) : Prop :=
  forall m r, In (RS m r) seqs -> exists pre s post, c_sups c = pre ++ (m, s) :: post /\ S (List.length pre) < fuel.
Definition lens_agree (bs : bases) : Prop := forall n, base_len bs n = base_len (c_bases c) n.
Definition tot (seqs : list ref) : nat := blens (c_bases c) (flat_map (ref_base c) seqs).

Lemma sup_lookup pre m s post : c_sups c = pre ++ (m, s) :: post -> afind (c_sups c) m = Some s.
Proof. intros E. apply (afind_In _ _ _ (nodup_sups c W)). rewrite E. apply in_or_app. right. left. reflexivity. Qed.

Lemma sup_len pre m s post : c_sups c = pre ++ (m, s) :: post -> s_len s = blens (c_bases c) (s_base s).
Proof. intros E. pose proof (wf_sups c W pre m s post E) as [_ _ L _]. rewrite L, flatB_length. reflexivity. Qed.

Lemma dok_sub pre m s post fuel : c_sups c = pre ++ (m, s) :: post -> S (List.length pre) < S fuel -> dok fuel (s_seqs s).
Proof. intros E L m' r' Hin. pose proof (wf_sups c W pre m s post E) as [R _ _ _]. specialize (R _ Hin). simpl in R.
  apply ahas_true_In in R. apply in_map_iff in R. destruct R as [[m'' s'] [Q Hs]]. simpl in Q. subst m''.
  destruct (in_split _ _ Hs) as [pre' [post' E']]. exists pre', s', (post' ++ (m, s) :: post). split.
  - rewrite E, E', <- app_assoc. reflexivity.
  - assert (List.length pre' < List.length pre) by (rewrite E', app_length; simpl; lia). lia. Qed.

Lemma dok_rc fuel l : dok fuel l -> dok fuel (rc_refs l).
Proof. intros D m r Hin. unfold rc_refs in Hin. apply in_map_iff in Hin. destruct Hin as [x [Q Hx]]. apply in_rev in Hx.
  destruct x as [n b|n b]; simpl in Q; [discriminate|]. inversion Q; subst. apply (D m b Hx). Qed.

Lemma dok_tail fuel x l : dok fuel (x :: l) -> dok fuel l.
Proof. intros D m r Hin. apply (D m r). right. exact Hin. Qed.

Theorem fix_refs_flat : forall fuel seqs bs fixed, dok fuel seqs -> 0 < fuel -> lens_agree bs ->
  List.length fixed = tot seqs ->
  fix_refs fuel c bs seqs fixed = fix_brefs bs (flat_map (ref_base c) seqs) fixed.
Proof. induction fuel as [|f IHf]; intros seqs bs fixed D P LA LEN; [lia|]. clear P.
  revert bs fixed D LA LEN. induction seqs as [|x rest IHs]; intros bs fixed D LA LEN; [reflexivity|].
  rewrite fix_refs_cons. cbv zeta. cbn [flat_map]. rewrite fix_brefs_app.
  unfold tot in LEN. cbn [flat_map] in LEN. rewrite blens_app in LEN. fold (tot rest) in LEN.
  destruct x as [n r|n r].
  - cbn [ref_base fix_brefs]. unfold blens. cbn [map sum_list fst]. rewrite Nat.add_0_r.
    rewrite firstn_firstn, Nat.min_id.
    destruct (fix_bref bs (n, r) (firstn (base_len bs n) fixed)) as [bs1 st1] eqn:F.
    destruct st1; try reflexivity. cbn [skipn].
    apply IHs; [apply (dok_tail _ _ _ D) | intros m; rewrite (fix_bref_lens _ _ _ _ _ F m); apply LA|].
    rewrite skipn_length, LEN. cbn [ref_base]. unfold blens at 1. cbn [map sum_list fst]. rewrite (LA n). lia.
  - destruct (D n r (or_introl eq_refl)) as [pre [s [post [E L]]]].
    pose proof (sup_lookup _ _ _ _ E) as FS. cbn [ref_base]. rewrite FS.
    pose proof (sup_len _ _ _ _ E) as SL. pose proof (wf_sups c W pre n s post E) as [_ SB _ _].
    set (B := if r then rc_brefs (s_base s) else s_base s).
    assert (BL : blens (c_bases c) B = s_len s) by (unfold B; destruct r; [rewrite blens_rc|]; symmetry; exact SL).
    assert (BL' : blens bs B = s_len s) by (rewrite (blens_ext (c_bases c) bs B LA); exact BL).
    cbn [ref_base] in LEN. rewrite FS in LEN. fold B in LEN. rewrite BL in LEN.
    rewrite BL'. assert (PL : List.length (firstn (s_len s) fixed) = s_len s) by (apply firstn_length_le; lia).
    rewrite PL, Nat.eqb_refl. cbn [negb].
    assert (FB : flat_map (ref_base c) (if r then rc_refs (s_seqs s) else s_seqs s) = B).
    { unfold B. destruct r; [rewrite flat_rc_refs, <- SB | rewrite <- SB]; reflexivity. }
    rewrite (IHf _ bs (firstn (s_len s) fixed)); [rewrite FB| | lia | exact LA |].
    + destruct (fix_brefs bs B (firstn (s_len s) fixed)) as [bs1 st1] eqn:F.
      destruct st1; try reflexivity.
      apply IHs; [apply (dok_tail _ _ _ D) | intros m; rewrite (fix_brefs_lens _ _ _ _ _ F m); apply LA|].
      rewrite skipn_length, LEN. lia.
    + pose proof (dok_sub pre n s post f E L) as DS. destruct r; [apply dok_rc, DS | exact DS].
    + unfold tot. rewrite FB, BL. exact PL. Qed.

(* SuperSequence.fix_seq on any super-sequence or strand of a well-formed component *)
Theorem fix_sup_flat s before bs fixed : sup_ok c before s -> (forall m, ahas before m = true -> ahas (c_sups c) m = true) ->
  lens_agree bs ->
  fix_sup c bs s fixed = if negb (Nat.eqb (List.length fixed) (s_len s)) then (bs, FFail "length")
                         else fix_brefs bs (s_base s) fixed.
Proof. intros [R B L D] HB LA. unfold fix_sup. destruct (Nat.eqb (List.length fixed) (s_len s)) eqn:Q; [|reflexivity].
  cbn [negb]. apply Nat.eqb_eq in Q. rewrite B. apply fix_refs_flat; [|lia | exact LA|].
  - intros m r Hin. specialize (R _ Hin). simpl in R. apply HB in R. apply ahas_true_In in R.
    apply in_map_iff in R. destruct R as [[m' s'] [E Hs]]. simpl in E. subst m'.
    destruct (in_split _ _ Hs) as [pre [post E]]. exists pre, s', post. split; [exact E|].
    rewrite E, app_length. simpl. lia.
  - unfold tot. rewrite <- B, Q, L, flatB_length. reflexivity. Qed.
End Composite.

(* ---- what fixing a flattened list does to each base sequence ---- *)
Definition oriented (r : bool) (piece : list ascii) : list ascii :=
  if r then match wc_codes piece with Some w => w | None => piece end else piece.
Fixpoint slices (bs : bases) (l : list bref) (fixed : list ascii) (n : string) : list (list ascii) :=
  match l with
  | [] => []
  | x :: r => let len := base_len bs (fst x) in
              (if String.eqb (fst x) n then [oriented (snd x) (firstn len fixed)] else []) ++ slices bs r (skipn len fixed) n
  end.
Fixpoint fold_inter (k0 : list ascii) (ps : list (list ascii)) : list ascii * fstatus :=
  match ps with
  | [] => (k0, FOk)
  | p :: r => match inter_consts k0 p with (k1, FOk) => fold_inter k1 r | other => other end
  end.
Lemma slices_ext bs bs' l : (forall m, base_len bs' m = base_len bs m) -> forall fixed n, slices bs' l fixed n = slices bs l fixed n.
Proof. intros H. induction l as [|x l IH]; intros fixed n; simpl; [reflexivity|]. rewrite H, IH. reflexivity. Qed.

(* every base sequence ends with its old constraint intersected, in order, with each slice of the
   fixed string that lands on one of its occurrences (reverse complemented for starred occurrences);
   its length and anonymity are kept; sequences that do not occur are untouched *)
Theorem fix_brefs_spec l : forall bs fixed bs', fix_brefs bs l fixed = (bs', FOk) ->
  forall n, match afind bs n with
            | Some b => exists k, afind bs' n = Some {| b_len := b_len b; b_const := k; b_anon := b_anon b |} /\
                                  fold_inter (b_const b) (slices bs l fixed n) = (k, FOk)
            | None => afind bs' n = None
            end.
Proof. induction l as [|x l IH]; intros bs fixed bs' H n.
  - simpl in H. inversion H; subst. destruct (afind bs' n) as [b|]; [|reflexivity]. exists (b_const b). destruct b; auto.
  - cbn [fix_brefs] in H. destruct (fix_bref bs x (firstn (base_len bs (fst x)) fixed)) as [bs1 st1] eqn:F.
    destruct st1; try discriminate. pose proof (fix_bref_lens _ _ _ _ _ F) as LE.
    specialize (IH bs1 _ bs' H n). cbn [slices]. rewrite (slices_ext bs bs1 l LE) in IH.
    set (piece := firstn (base_len bs (fst x)) fixed) in *.
    assert (FB : exists p, fix_base bs (fst x) p = (bs1, FOk) /\ p = oriented (snd x) piece).
    { unfold fix_bref in F. unfold oriented. destruct (snd x).
      - destruct (wc_codes piece) as [w|]; [exists w; auto | discriminate].
      - exists piece. auto. }
    destruct FB as [p [FB Hp]]. destruct (fix_base_frame _ _ _ _ FB) as [OTH SAME].
    destruct (String.eqb (fst x) n) eqn:Q.
    + apply String.eqb_eq in Q. subst n. destruct (afind bs (fst x)) as [b|] eqn:A.
      * destruct (SAME b eq_refl) as [k1 [A1 [I1 _]]]. rewrite A1 in IH. cbn [b_len b_const b_anon] in IH.
        destruct IH as [k [A2 FI]]. exists k. split; [exact A2|]. cbn [app fold_inter]. rewrite <- Hp, I1. exact FI.
      * unfold fix_base in FB. rewrite A in FB. discriminate.
    + assert (NE : n <> fst x) by (intros ->; rewrite String.eqb_refl in Q; discriminate).
      rewrite (OTH n NE) in IH. cbn [app]. exact IH. Qed.
