(* C10 proofs: wildcard arithmetic of a quoted constraint and the position of the deferred
   wildcard region in a composite (super-sequence / strand). *)
From Coq Require Import List String Ascii Arith Bool Lia.
From PC Require Import Comp.Syntax Comp.Wild Comp.Compile.
Import ListNotations.
Local Open Scope list_scope.

Definition subst_wild (w : nat) (ps : list part) : list part :=
  map (fun p => match fst p with MWild => (MNum w, snd p) | _ => p end) ps.

Lemma build_const_subst w ps : build_const w ps = build_const 0 (subst_wild w ps).
Proof. induction ps as [|[m c] ps IH]; simpl; [reflexivity|]. destruct m; simpl; rewrite IH; reflexivity. Qed.
Lemma count_subst w ps : count_wild (subst_wild w ps) = 0.
Proof. induction ps as [|[m c] ps IH]; simpl; [reflexivity|]. destruct m; simpl; exact IH. Qed.
Lemma sum_subst w ps : sum_nums (subst_wild w ps) = sum_nums ps + w * count_wild ps.
Proof. induction ps as [|[m c] ps IH]; simpl; [lia|]. destruct m; simpl; rewrite IH; lia. Qed.
Lemma build_const_length w ps : List.length (build_const w ps) = sum_nums ps + w * count_wild ps.
Proof. induction ps as [|[m c] ps IH]; simpl; [lia|].
  destruct m; rewrite app_length, repeat_length, IH; lia. Qed.
(* written order and multiplicity of every part are kept *)
Lemma build_const_app w a b : build_const w (a ++ b) = build_const w a ++ build_const w b.
Proof. induction a as [|[m c] a IH]; simpl; [reflexivity|]. destruct m; rewrite IH, app_assoc; reflexivity. Qed.

(* one '?', declared length L >= the other parts: the '?' takes exactly L - (sum of the others);
   the result has length L and is identical to writing that number explicitly *)
Theorem wild_exact ps L : count_wild ps = 1 -> sum_nums ps <= L ->
  get_length_const (Some L) ps = WOk L (build_const (L - sum_nums ps) ps) /\
  List.length (build_const (L - sum_nums ps) ps) = L /\
  get_length_const (Some L) (subst_wild (L - sum_nums ps) ps) = WOk L (build_const (L - sum_nums ps) ps).
Proof. intros H1 HL. unfold get_length_const. rewrite H1, count_subst.
  assert (E : Nat.ltb L (sum_nums ps) = false) by (apply Nat.ltb_ge; exact HL). rewrite E.
  split; [reflexivity|]. split.
  - rewrite build_const_length, H1. lia.
  - rewrite sum_subst, H1.
    assert (E2 : Nat.eqb L (sum_nums ps + (L - sum_nums ps) * 1) = true) by (apply Nat.eqb_eq; lia).
    rewrite E2, <- build_const_subst. reflexivity. Qed.

Theorem nowild_exact ps : count_wild ps = 0 ->
  get_length_const None ps = WOk (sum_nums ps) (build_const 0 ps) /\
  (forall L, get_length_const (Some L) ps = if Nat.eqb L (sum_nums ps) then WOk L (build_const 0 ps) else WErr "length-mismatch").
Proof. intros H. unfold get_length_const. rewrite H. split; [reflexivity | intros L; reflexivity]. Qed.

Theorem wild_rejects ps :
  (2 <= count_wild ps -> forall len, get_length_const len ps = WErr "too-many-wildcards") /\
  (count_wild ps = 1 -> get_length_const None ps = WWild) /\
  (count_wild ps = 1 -> forall L, L < sum_nums ps -> get_length_const (Some L) ps = WErr "too-short") /\
  (count_wild ps = 0 -> forall L, L <> sum_nums ps -> get_length_const (Some L) ps = WErr "length-mismatch").
Proof. unfold get_length_const. repeat split.
  - intros H len. destruct (count_wild ps) as [|[|n]]; try lia. reflexivity.
  - intros ->. reflexivity.
  - intros -> L HL. apply Nat.ltb_lt in HL. rewrite HL. reflexivity.
  - intros -> L HL. apply Nat.eqb_neq in HL. rewrite HL. reflexivity. Qed.

(* ---- the composite case ---- *)
Lemma insert_at_app {A} (l1 l2 : list A) x : insert_at (List.length l1) x (l1 ++ l2) = l1 ++ x :: l2.
Proof. induction l1 as [|y l1 IH]; simpl; [destruct l2; reflexivity|]. rewrite IH. reflexivity. Qed.

(* the loop only ever appends to seqs / base_seqs, and never forgets a recorded wildcard *)
Lemma bs_loop_extends c items : forall q q', bs_loop c items q = OK q' ->
  exists X Y, q_seqs q' = q_seqs q ++ X /\ q_base q' = q_base q ++ Y /\
              (forall w, q_wild q = Some w -> q_wild q' = Some w).
Proof. induction items as [|it items IH]; intros q q' H; simpl in H.
  - inversion H; subst. exists [], []. rewrite !app_nil_r. auto.
  - destruct it as [x|ps].
    + destruct (IH _ _ H) as [X [Y [A [B C]]]]. simpl in *.
      exists (x :: X), (ref_base c x ++ Y). rewrite A, B, <- !app_assoc. simpl. auto.
    + destruct (get_length_const None ps) as [l k| |k].
      * destruct (IH _ _ H) as [X [Y [A [B C]]]]. simpl in *.
        exists (RB (anon_name (q_ctr q)) false :: X), ((anon_name (q_ctr q), false) :: Y).
        rewrite A, B, <- !app_assoc. simpl. auto.
      * destruct (q_wild q) as [w|] eqn:W; [discriminate|].
        destruct (IH _ _ H) as [X [Y [A [B C]]]]. simpl in *. exists X, Y. split; [exact A | split; [exact B|]].
        intros w Hw. discriminate.
      * discriminate. Qed.

Lemma bs_loop_app c a : forall b q, bs_loop c (a ++ b) q = (do q1 <- bs_loop c a q; bs_loop c b q1).
Proof. induction a as [|it a IH]; intros b q; simpl; [reflexivity|].
  destruct it as [x|ps]; [apply IH|].
  destruct (get_length_const None ps); try reflexivity; [apply IH|].
  destruct (q_wild q); [reflexivity | apply IH]. Qed.

(* A '?' region written as item number |pre| of a composite ends up at exactly that place in
   the item list and in the flattened base-sequence list, whatever follows it, and its length
   is what makes the total equal the declared length. *)
Theorem composite_wild_position c ctr pre ps post L s anons ctr' q1 :
  count_wild ps = 1 ->
  bs_loop c pre {| q_seqs := []; q_base := []; q_len := 0; q_wild := None; q_anons := []; q_ctr := ctr |} = OK q1 ->
  q_wild q1 = None ->
  build_super c ctr (pre ++ CNuc ps :: post) (Some L) = OK (s, anons, ctr') ->
  exists nm X Y, s_seqs s = q_seqs q1 ++ RB nm false :: X /\ s_base s = q_base q1 ++ (nm, false) :: Y /\ s_len s = L.
Proof. intros HW H1 HN HB. unfold build_super in HB. rewrite bs_loop_app, H1 in HB. simpl in HB.
  unfold get_length_const in HB at 1. rewrite HW, HN in HB.
  match type of HB with context [bs_loop c post ?q] => destruct (bs_loop c post q) as [q2|k] eqn:H2; [|discriminate] end.
  simpl in HB. destruct (bs_loop_extends _ _ _ _ H2) as [X [Y [A [B C]]]]. simpl in A, B, C.
  rewrite (C _ eq_refl) in HB.
  destruct (Nat.ltb L (q_len q2)) eqn:LT; [discriminate|]. apply Nat.ltb_ge in LT.
  destruct (get_length_const (Some (L - q_len q2)) ps) as [l k| |k] eqn:G; try discriminate.
  inversion HB; subst. simpl. exists (anon_name (q_ctr q2)), X, Y.
  rewrite A, B, !insert_at_app. split; [reflexivity | split; [reflexivity|]].
  unfold get_length_const in G. rewrite HW in G.
  destruct (Nat.ltb (L - q_len q2) (sum_nums ps)); inversion G; subst. lia. Qed.

(* more than one '?' region in a composite is rejected *)
Theorem composite_two_wild_rejected c ctr a ps1 b ps2 d L :
  count_wild ps1 = 1 -> count_wild ps2 = 1 ->
  exists k, build_super c ctr (a ++ CNuc ps1 :: b ++ CNuc ps2 :: d) L = Err k.
Proof. intros H1 H2. unfold build_super. rewrite bs_loop_app.
  destruct (bs_loop c a _) as [q1|k] eqn:E1; cbn [bind bs_loop]; [|eauto].
  assert (G1 : get_length_const None ps1 = WWild) by (unfold get_length_const; rewrite H1; reflexivity).
  assert (G2 : get_length_const None ps2 = WWild) by (unfold get_length_const; rewrite H2; reflexivity).
  rewrite G1. destruct (q_wild q1) as [w|] eqn:W1; [cbn [bind]; eauto|].
  rewrite bs_loop_app.
  match goal with |- context [bs_loop c b ?q] => destruct (bs_loop c b q) as [q2|k] eqn:E2; cbn [bind bs_loop]; [|eauto] end.
  destruct (bs_loop_extends _ _ _ _ E2) as [_ [_ [_ [_ C]]]]. simpl in C.
  rewrite G2, (C _ eq_refl). cbn [bind]. eauto. Qed.

(* non-vacuity *)
Example wild_example : get_length_const (Some 7) [(MNum 3, "N"%char); (MWild, "S"%char)] = WOk 7 (repeat "N"%char 3 ++ repeat "S"%char 4).
Proof. reflexivity. Qed.
