(* C14: zero-length domains are inert in the emission model. *)
From Coq Require Import List String Ascii Arith Bool Lia.
From PC Require Import Comp.Syntax Comp.Compile Comp.Denote Comp.EmitProofs.
Import ListNotations.
Local Open Scope list_scope.

(* a zero-length base sequence contributes no nucleotide wherever it is inserted (or deleted) *)
Theorem flatB_dummy c l1 x l2 : base_len (c_bases c) (fst x) = 0 -> flatB c (l1 ++ x :: l2) = flatB c (l1 ++ l2).
Proof. intros H. rewrite !flatB_app. f_equal. unfold flatB. simpl.
  unfold flat_bref. rewrite H. destruct (snd x); reflexivity. Qed.

(* a zero-length item (base or super-sequence, starred or not) never appears in an emitted item list,
   and inserting / deleting it leaves the emitted list unchanged *)
Theorem emit_items_dummy c l1 x l2 : ref_dummy c x = true -> emit_items c (l1 ++ x :: l2) = emit_items c (l1 ++ l2).
Proof. intros H. unfold emit_items. rewrite !filter_app. simpl. rewrite H. reflexivity. Qed.

Theorem emit_items_nonempty c l n star : In (n, star) (emit_items c l) ->
  exists x, In x l /\ ref_name c x = (n, star) /\ ref_len c x <> 0.
Proof. unfold emit_items. intros H. apply in_map_iff in H. destruct H as [x [E Hx]].
  apply filter_In in Hx. destruct Hx as [Hin Hd]. exists x. split; [exact Hin | split; [exact E|]].
  unfold ref_dummy in Hd. apply negb_true_iff, Nat.eqb_neq in Hd. exact Hd. Qed.

(* no emitted sequence or super-sequence line has length 0 *)
Theorem no_empty_lines c l : In l (emit_comp c) ->
  match l with PSeq _ _ len => len <> 0 | PSup _ _ len => len <> 0 | _ => True end.
Proof. unfold emit_comp. intros H. repeat (apply in_app_or in H; destruct H as [H|H]).
  - apply in_flat_map in H. destruct H as [[n b] [_ H]]. destruct (Nat.eqb (b_len b) 0) eqn:Z; [destruct H|].
    destruct H as [<-|[]]. apply Nat.eqb_neq, Z.
  - apply in_flat_map in H. destruct H as [[n s] [_ H]]. destruct (Nat.eqb (s_len s) 0) eqn:Z; [destruct H|].
    destruct H as [<-|[]]. apply Nat.eqb_neq, Z.
  - apply in_map_iff in H. destruct H as [[n t] [<- _]]. exact I.
  - apply in_map_iff in H. destruct H as [[n u] [<- _]]. exact I.
  - apply in_map_iff in H. destruct H as [k [<- _]]. exact I. Qed.

(* in a well-formed object a zero-length reference denotes no nucleotide at all *)
Theorem dummy_denotes_nothing c : WF c -> forall x, ref_ok c (c_sups c) x -> ref_dummy c x = true -> flat_ref c x = [].
Proof. intros W x Hok Hd. apply (flat_ref_dummy c W x (c_sups c) Hok); [auto | exact Hd]. Qed.
