(* Fixing sequences never changes the shape of a component: the same base sequences under the same names with the
   same lengths (and constraint strings of those lengths), whatever the outcome of the fix.  Hence every invariant of
   compiled components (WF, WF2, the name invariant) survives a fixed-sequence file. *)
From Coq Require Import List String Ascii Arith Bool Lia.
From PC Require Import Base.Codes Comp.Syntax Comp.Struct Comp.Compile Comp.Denote Comp.EmitProofs Comp.WfCheck Comp.WfPil Comp.CompileProofs Comp.NameProofs
  Comp.Fix Comp.FixProofs.
Import ListNotations.
Local Open Scope list_scope.

Definition shp (bs : bases) : list (string * nat * bool) := map (fun nb => (fst nb, b_len (snd nb), b_anon (snd nb))) bs.
Definition const_ok (bs : bases) : Prop := forall n b, In (n, b) bs -> List.length (b_const b) = b_len b.
(* every constraint character is one of the 15 codes (what the designer's loader demands of a template) *)
Definition codes_ok (k : list ascii) : bool := forallb (fun ch => match group ch with Some _ => true | None => false end) k.
Definition vt_ok (bs : bases) : Prop := forall n b, In (n, b) bs -> codes_ok (b_const b) = true.
Definition same_shape (bs bs' : bases) : Prop := shp bs' = shp bs /\ (const_ok bs -> const_ok bs') /\ (vt_ok bs -> vt_ok bs').

Lemma same_shape_refl bs : same_shape bs bs. Proof. split; auto. Qed.
Lemma same_shape_trans a b c : same_shape a b -> same_shape b c -> same_shape a c.
Proof. intros [A1 [A2 A3]] [B1 [B2 B3]]. split; [congruence | auto]. Qed.

Lemma shp_afind bs bs' n : shp bs' = shp bs -> match afind bs n, afind bs' n with
  | Some b, Some b' => b_len b' = b_len b | None, None => True | _, _ => False end.
Proof. revert bs'. induction bs as [|[m b] bs IH]; intros [|[m' b'] bs'] H; simpl in H; try discriminate; [exact I|].
  inversion H as [[H1 H2 H3 H4]]. subst m'. simpl. destruct (String.eqb m n); [exact H2 | apply IH, H4]. Qed.
Lemma shp_base_len bs bs' n : shp bs' = shp bs -> base_len bs' n = base_len bs n.
Proof. intros H. pose proof (shp_afind bs bs' n H) as X. unfold base_len. destruct (afind bs n), (afind bs' n); try contradiction; auto. Qed.
Lemma shp_ahas bs bs' n : shp bs' = shp bs -> ahas bs' n = ahas bs n.
Proof. intros H. pose proof (shp_afind bs bs' n H) as X. unfold ahas. destruct (afind bs n), (afind bs' n); try contradiction; auto. Qed.
Lemma shp_names bs bs' : shp bs' = shp bs -> map fst bs' = map fst bs.
Proof. intros H. apply (f_equal (map (fun x : string * nat * bool => fst (fst x)))) in H. unfold shp in H. rewrite !map_map in H. exact H. Qed.

Lemma set_const_shp bs n k : shp (set_const bs n k) = shp bs.
Proof. induction bs as [|[m b] bs IH]; [reflexivity|]. simpl. destruct (String.eqb m n); simpl; [reflexivity | f_equal; exact IH]. Qed.
Lemma set_const_ok bs n k : const_ok bs -> (forall b, afind bs n = Some b -> List.length k = b_len b) -> const_ok (set_const bs n k).
Proof. induction bs as [|[m b] bs IH]; intros C H; [exact C|]. simpl in *. destruct (String.eqb m n) eqn:E.
  - intros n0 b0 [Q|Hin]; [inversion Q; subst; simpl; apply (H b eq_refl) | apply (C n0 b0 (or_intror Hin))].
  - intros n0 b0 [Q|Hin]; [apply (C n0 b0 (or_introl Q)) | apply (IH (fun x y Hxy => C x y (or_intror Hxy)) H n0 b0 Hin)]. Qed.
Lemma set_const_vt bs n k : vt_ok bs -> codes_ok k = true -> vt_ok (set_const bs n k).
Proof. induction bs as [|[m b] bs IH]; intros C H; [exact C|]. simpl in *. destruct (String.eqb m n) eqn:E.
  - intros n0 b0 [Q|Hin]; [inversion Q; subst; simpl; exact H | apply (C n0 b0 (or_intror Hin))].
  - intros n0 b0 [Q|Hin]; [apply (C n0 b0 (or_introl Q)) | apply (IH (fun x y Hxy => C x y (or_intror Hxy)) H n0 b0 Hin)]. Qed.
Lemma set_const_shape bs n k : (const_ok bs -> forall b, afind bs n = Some b -> List.length k = b_len b) -> codes_ok k = true -> same_shape bs (set_const bs n k).
Proof. intros H V. split; [apply set_const_shp | split; [intros C; apply set_const_ok; auto | intros C; apply set_const_vt; auto]]. Qed.

Lemma rev_group_code s ch : rev_group s = Some ch -> exists g, group ch = Some g.
Proof. unfold rev_group. destruct (find _ all_codes) as [c0|] eqn:F; [|discriminate]. intros Q. inversion Q; subst c0. apply find_some in F. destruct F as [_ F].
  destruct (group ch) as [g|]; [eauto | discriminate]. Qed.
Lemma inter_consts_codes : forall old fixed k, inter_consts old fixed = (k, FOk) -> codes_ok k = true.
Proof. induction old as [|o old IH]; intros [|f fixed] k H; simpl in *; try (inversion H; reflexivity).
  destruct (code_inter o f) as [ch| |] eqn:CI; try discriminate. destruct (inter_consts old fixed) as [r st] eqn:E. inversion H; subst. simpl.
  rewrite (IH fixed r E). unfold code_inter in CI. destruct (group o); [|discriminate]. destruct (group f); [|discriminate]. destruct (bempty _); [discriminate|].
  destruct (rev_group _) as [c1|] eqn:RG; [|discriminate]. inversion CI; subst c1. destruct (rev_group_code _ _ RG) as [g ->]. reflexivity. Qed.

Lemma inter_consts_length : forall old fixed k, inter_consts old fixed = (k, FOk) -> List.length old = List.length fixed -> List.length k = List.length old.
Proof. induction old as [|o old IH]; intros [|f fixed] k H L; simpl in *; try discriminate; [inversion H; reflexivity|].
  destruct (code_inter o f); try discriminate. destruct (inter_consts old fixed) as [r st] eqn:E. inversion H; subst. simpl. f_equal. apply (IH fixed r E). lia. Qed.

Lemma fix_base_shape bs n fixed : same_shape bs (fst (fix_base bs n fixed)).
Proof. unfold fix_base. destruct (afind bs n) as [b|] eqn:A; [|apply same_shape_refl]. destruct (Nat.eqb_spec (List.length fixed) (b_len b)) as [L|]; [|apply same_shape_refl]. cbn [negb].
  destruct (inter_consts (b_const b) fixed) as [k st] eqn:E. destruct st; try apply same_shape_refl. cbn [fst].
  apply set_const_shape. intros C b0 A0. rewrite A in A0. inversion A0; subst b0. pose proof (C n b (afind_Some_In _ _ _ A)) as CB.
  rewrite (inter_consts_length _ _ _ E ltac:(lia)). exact CB. apply (inter_consts_codes _ _ _ E). Qed.
Lemma fix_bref_shape bs x fixed : same_shape bs (fst (fix_bref bs x fixed)).
Proof. unfold fix_bref. destruct (snd x); [destruct (wc_codes fixed); [apply fix_base_shape | apply same_shape_refl] | apply fix_base_shape]. Qed.

Lemma fix_refs_shape c : forall fuel bs seqs fixed, same_shape bs (fst (fix_refs fuel c bs seqs fixed)).
Proof. induction fuel as [|f IH]; intros bs seqs fixed; [apply same_shape_refl|]. cbn [fix_refs]. revert bs fixed.
  induction seqs as [|x rest IHs]; intros bs fixed; [apply same_shape_refl|]. cbv zeta.
  match goal with |- same_shape bs (fst (match ?r with pair _ _ => _ end)) => assert (R : same_shape bs (fst r)); [|destruct r as [bs' st]] end.
  { destruct x as [n r|n r]; [apply fix_bref_shape|]. destruct (afind (c_sups c) n) as [s|]; [|apply same_shape_refl].
    destruct (negb _); [apply same_shape_refl | apply IH]. }
  cbn [fst] in R. destruct st; try exact R. apply (same_shape_trans _ _ _ R). apply IHs. Qed.

Lemma fix_sup_shape c bs s fixed : same_shape bs (fst (fix_sup c bs s fixed)).
Proof. unfold fix_sup. destruct (negb _); [apply same_shape_refl | apply fix_refs_shape]. Qed.
Lemma fix_strands_shape c : forall names bs pieces, same_shape bs (fst (fix_strands c bs names pieces)).
Proof. induction names as [|n nr IH]; intros bs pieces; [apply same_shape_refl|]. destruct pieces as [|p pr]; [apply same_shape_refl|]. cbn [fix_strands].
  destruct (afind (c_strands c) n) as [t|]; [|apply same_shape_refl]. pose proof (fix_sup_shape c bs (t_sup t) p) as R.
  destruct (fix_sup c bs (t_sup t) p) as [bs' st]. cbn [fst] in R. destruct st; try exact R. apply (same_shape_trans _ _ _ R). apply IH. Qed.

Theorem fix_entry_comp_shape c bs kind name fixed : same_shape bs (fst (fix_entry_comp c bs kind name fixed)).
Proof. unfold fix_entry_comp. destruct (is_prefix_of_word kind "sequence").
  - destruct (ahas bs name); [apply fix_base_shape|]. destruct (afind (c_sups c) name); [apply fix_sup_shape | apply same_shape_refl].
  - destruct (is_prefix_of_word kind "signal"); [apply same_shape_refl|]. destruct (String.eqb kind "strand").
    + destruct (afind (c_strands c) name); [apply fix_sup_shape | apply same_shape_refl].
    + destruct (String.eqb kind "structure"); [|apply same_shape_refl]. destruct (afind (c_structs c) name); [|apply same_shape_refl].
      destruct (negb _); [apply same_shape_refl | apply fix_strands_shape]. Qed.

(* ---------- the component invariants depend on the base table only through its shape ---------- *)
Section Transport.
Variables (c : comp) (bs : bases).
Hypothesis S : same_shape (c_bases c) bs.
Let c' := set_bases c bs.
Let SH : shp bs = shp (c_bases c) := proj1 S.

Lemma shape_flat_bref x : flat_bref c' x = flat_bref c x.
Proof. unfold flat_bref, c'. simpl. rewrite (shp_base_len _ _ _ SH). reflexivity. Qed.
Lemma shape_flatB l : flatB c' l = flatB c l.
Proof. unfold flatB. apply flat_map_ext. intros x. apply shape_flat_bref. Qed.
Lemma shape_ref_base x : ref_base c' x = ref_base c x. Proof. reflexivity. Qed.
Lemma shape_ref_len x : ref_len c' x = ref_len c x.
Proof. destruct x; simpl; [apply (shp_base_len _ _ _ SH) | reflexivity]. Qed.
Lemma shape_sup_ok before s : sup_ok c before s -> sup_ok c' before s.
Proof. intros [A B C D]. constructor.
  - intros x Hx. specialize (A x Hx). destruct x; simpl in *; [rewrite (shp_ahas _ _ _ SH); exact A | exact A].
  - exact B.
  - rewrite shape_flatB. exact C.
  - intros x Hx. simpl. rewrite (shp_ahas _ _ _ SH). apply (D x Hx). Qed.

Theorem shape_WF : WF c -> WF c'.
Proof. intros W. constructor.
  - simpl. rewrite (shp_names _ _ SH). apply (wf_nodup c W).
  - simpl. apply (proj1 (proj2 S)). exact (wf_const c W).
  - simpl. intros pre n s post EQ. apply shape_sup_ok. apply (wf_sups c W pre n s post EQ).
  - simpl. intros n t H. apply shape_sup_ok. apply (wf_strands c W n t H). Qed.

Theorem shape_WF2 : WF2 c -> WF2 c'.
Proof. assert (FS : forall names, find_strands c' names = find_strands c names).
  { induction names as [|n r IH]; simpl; [reflexivity|]. destruct (afind (c_strands c) n); [rewrite IH|]; reflexivity. }
  intros [A B C]. constructor; [exact A | | exact C]. intros pre n u post EQ. rewrite FS. apply (B pre n u post EQ). Qed.

Theorem shape_NI : NI c -> NI c'.
Proof. intros [A B]. constructor.
  - intros n H. apply A. simpl in H. rewrite (shp_names _ _ SH) in H. exact H.
  - intros n H. simpl in H. destruct (B n H) as [B1 B2]. split; [exact B1|]. unfold seq_defined in *. simpl. rewrite (shp_ahas _ _ _ SH). exact B2. Qed.

Theorem shape_fresh ctr : fresh_from c ctr -> fresh_from c' ctr.
Proof. intros F k Hk. simpl. rewrite (shp_ahas _ _ _ SH). apply (F k Hk). Qed.
End Transport.

(* a compiled component with any sequence of fixed-file entries applied is still well formed *)
Fixpoint fix_comp_entries (c : comp) (es : list (string * string * list ascii)) : comp :=
  match es with
  | [] => c
  | (kind, name, fixed) :: r => fix_comp_entries (set_bases c (fst (fix_entry_comp c (c_bases c) kind name fixed))) r
  end.

Theorem fixed_component_invariants : forall es c, WF c -> WF2 c ->
  let c' := fix_comp_entries c es in WF c' /\ WF2 c' /\ shp (c_bases c') = shp (c_bases c) /\ c_sups c' = c_sups c /\ c_strands c' = c_strands c /\ c_structs c' = c_structs c.
Proof. induction es as [|e r IH]; intros c W W2; cbn zeta; [exact (conj W (conj W2 (conj eq_refl (conj eq_refl (conj eq_refl eq_refl)))))|]. destruct e as [[kind name] fixed]. cbn [fix_comp_entries].
  pose proof (fix_entry_comp_shape c (c_bases c) kind name fixed) as S.
  destruct (IH _ (shape_WF c _ S W) (shape_WF2 c _ W2)) as (A & B & D & E & F & G).
  refine (conj A (conj B (conj _ (conj E (conj F G))))). rewrite D. simpl. apply (proj1 S). Qed.

Theorem fixed_component_NI : forall es c, NI c -> NI (fix_comp_entries c es).
Proof. induction es as [|e r IH]; intros c N; [exact N|]. destruct e as [[kind name] fixed]. cbn [fix_comp_entries].
  apply IH. apply shape_NI; [apply fix_entry_comp_shape | exact N]. Qed.

Theorem fixed_component_fresh : forall es c ctr, fresh_from c ctr -> fresh_from (fix_comp_entries c es) ctr.
Proof. induction es as [|e r IH]; intros c ctr F; [exact F|]. destruct e as [[kind name] fixed]. cbn [fix_comp_entries].
  apply IH. apply shape_fresh; [apply fix_entry_comp_shape | exact F]. Qed.

Theorem fixed_component_vt : forall es c, vt_ok (c_bases c) -> vt_ok (c_bases (fix_comp_entries c es)).
Proof. induction es as [|e r IH]; intros c V; [exact V|]. destruct e as [[kind name] fixed]. cbn [fix_comp_entries].
  apply IH. simpl. apply (proj2 (proj2 (fix_entry_comp_shape c (c_bases c) kind name fixed)) V). Qed.
