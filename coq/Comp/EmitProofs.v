(* C01/C14, emission half: for every well-formed component object (invariant WF, established
   by CompileProofs.v), re-reading the emitted PIL lines through their own definitions gives
   back exactly the nucleotides of the model objects: zero-length items drop out without
   changing anything, starred names resolve to reverse complements, definitions precede uses. *)
From Coq Require Import List String Ascii Arith Bool Lia.
From PC Require Import Comp.Syntax Comp.Compile Comp.Denote.
Import ListNotations.
Local Open Scope list_scope.

(* ---------- small facts ---------- *)
Lemma NoDup_app_l {A} (a b : list A) : NoDup (a ++ b) -> NoDup a.
Proof. induction a as [|x a IH]; simpl; intros H; [constructor|].
  inversion H as [|? ? H1 H2]; subst. constructor; [|apply IH; exact H2].
  intros Hx. apply H1. apply in_or_app. left. exact Hx. Qed.
Lemma NoDup_app_r {A} (a b : list A) : NoDup (a ++ b) -> NoDup b.
Proof. induction a as [|x a IH]; simpl; intros H; [exact H|].
  inversion H as [|? ? H1 H2]; subst. apply IH. exact H2. Qed.
Lemma append_inj p a b : p +++ a = p +++ b -> a = b.
Proof. induction p as [|c p IH]; simpl; intros H; [exact H | inversion H; auto]. Qed.

Lemma afind_app {V} (t1 t2 : list (string * V)) k :
  afind (t1 ++ t2) k = match afind t1 k with Some v => Some v | None => afind t2 k end.
Proof. induction t1 as [|[k' v] t1 IH]; simpl; auto. destruct (String.eqb k' k); auto. Qed.

Lemma afind_In {V} (t : list (string * V)) k v : NoDup (map fst t) -> In (k, v) t -> afind t k = Some v.
Proof. induction t as [|[k' v'] t IH]; simpl; intros ND H; [destruct H|].
  inversion ND as [|? ? H1 H2]; subst. destruct H as [H|H].
  - inversion H; subst. rewrite String.eqb_refl. reflexivity.
  - destruct (String.eqb k' k) eqn:E; [|auto]. apply String.eqb_eq in E. subst.
    exfalso. apply H1. apply (in_map fst) in H. exact H. Qed.

Lemma afind_None {V} (t : list (string * V)) k : ~ In k (map fst t) -> afind t k = None.
Proof. induction t as [|[k' v'] t IH]; simpl; intros H; auto.
  destruct (String.eqb k' k) eqn:E; [apply String.eqb_eq in E; subst; tauto | apply IH; tauto]. Qed.

Lemma afind_Some_In {V} (t : list (string * V)) k v : afind t k = Some v -> In (k, v) t.
Proof. induction t as [|[k' v'] t IH]; simpl; intros H; [discriminate|].
  destruct (String.eqb k' k) eqn:E; [apply String.eqb_eq in E; inversion H; subst; auto | auto]. Qed.

Lemma ahas_In {V} (t : list (string * V)) k : ahas t k = true -> In k (map fst t).
Proof. unfold ahas. destruct (afind t k) eqn:E; [|discriminate]. intros _.
  apply afind_Some_In in E. apply (in_map fst) in E. exact E. Qed.

Lemma rc_app a b : rc (a ++ b) = rc b ++ rc a.
Proof. unfold rc. rewrite rev_app_distr, map_app. reflexivity. Qed.
Lemma flipnt_invol x : flipnt (flipnt x) = x.
Proof. destruct x as [[d i] r]. unfold flipnt. simpl. rewrite negb_involutive. reflexivity. Qed.
Lemma rc_invol l : rc (rc l) = l.
Proof. unfold rc. rewrite <- map_rev, rev_involutive, map_map.
  rewrite <- (map_id l) at 2. apply map_ext. apply flipnt_invol. Qed.
Lemma rc_nil : rc [] = []. Proof. reflexivity. Qed.
Lemma rc_length l : List.length (rc l) = List.length l.
Proof. unfold rc. rewrite map_length, rev_length. reflexivity. Qed.

Lemma flat_bref_flip c x : flat_bref c (bflip x) = rc (flat_bref c x).
Proof. destruct x as [n r]. unfold flat_bref, bflip. simpl. destruct r; simpl; [rewrite rc_invol|]; reflexivity. Qed.

(* flattening commutes with reverse complement of a base-reference list *)
Lemma flatB_rc c l : flatB c (rc_brefs l) = rc (flatB c l).
Proof. unfold flatB, rc_brefs. induction l as [|x l IH]; simpl; [reflexivity|].
  rewrite map_app, flat_map_app, IH. simpl. rewrite app_nil_r, rc_app, flat_bref_flip. reflexivity. Qed.

Lemma flatB_app c a b : flatB c (a ++ b) = flatB c a ++ flatB c b.
Proof. unfold flatB. apply flat_map_app. Qed.

(* ---------- the invariant ---------- *)
Definition ref_ok (c : comp) (before : list (string * sup)) (x : ref) : Prop :=
  match x with RB n _ => ahas (c_bases c) n = true | RS n _ => ahas before n = true end.

Record sup_ok (c : comp) (before : list (string * sup)) (s : sup) : Prop := {
  so_refs : forall x, In x (s_seqs s) -> ref_ok c before x;
  so_base : s_base s = flat_map (ref_base c) (s_seqs s);
  so_len : s_len s = List.length (flatB c (s_base s));
  so_bdef : forall x, In x (s_base s) -> ahas (c_bases c) (fst x) = true }.

Record WF (c : comp) : Prop := {
  wf_nodup : NoDup (map fst (c_bases c) ++ map fst (c_sups c));
  wf_const : forall n b, In (n, b) (c_bases c) -> List.length (b_const b) = b_len b;
  wf_sups : forall pre n s post, c_sups c = pre ++ (n, s) :: post -> sup_ok c pre s;
  wf_strands : forall n t, In (n, t) (c_strands c) -> sup_ok c (c_sups c) (t_sup t) }.

(* what a reference denotes *)
Definition flat_ref (c : comp) (x : ref) : list nt := flatB c (ref_base c x).

Section Emit.
Variable c : comp.
Hypothesis W : WF c.
Let P := c_prefix c.

Lemma nodup_bases : NoDup (map fst (c_bases c)).
Proof. pose proof (wf_nodup c W) as H. apply NoDup_app_l in H. exact H. Qed.
Lemma nodup_sups : NoDup (map fst (c_sups c)).
Proof. pose proof (wf_nodup c W) as H. apply NoDup_app_r in H. exact H. Qed.
Lemma base_not_sup n : In n (map fst (c_bases c)) -> ~ In n (map fst (c_sups c)).
Proof. pose proof (wf_nodup c W) as H. revert H. generalize (map fst (c_bases c)) as l1. generalize (map fst (c_sups c)) as l2.
  intros l2 l1. induction l1 as [|a l1 IH]; simpl; intros ND [].
  - subst. inversion ND as [|? ? H1 H2]; subst. intros Hn. apply H1. apply in_or_app. right. exact Hn.
  - inversion ND as [|? ? H1 H2]; subst. apply IH; assumption. Qed.

(* the environment an emitted prefix of definitions produces *)
Definition env_bases (bs : list (string * bseq)) : penv :=
  flat_map (fun '(n, b) => if Nat.eqb (b_len b) 0 then [] else [(P +++ n, dom_nts (P +++ n) (b_len b))]) bs.
Definition env_sups (ss : list (string * sup)) : penv :=
  flat_map (fun '(n, s) => if Nat.eqb (s_len s) 0 then [] else [(P +++ n, flatB c (s_base s))]) ss.

Lemma env_bases_keys bs k : In k (map fst (env_bases bs)) -> exists n, k = P +++ n /\ In n (map fst bs).
Proof. induction bs as [|[n b] bs IH]; simpl; [intros []|].
  destruct (Nat.eqb (b_len b) 0); simpl.
  - intros H. destruct (IH H) as [m [A B]]. eauto.
  - intros [H|H]; [exists n; auto | destruct (IH H) as [m [A B]]; eauto]. Qed.
Lemma env_sups_keys ss k : In k (map fst (env_sups ss)) -> exists n, k = P +++ n /\ In n (map fst ss).
Proof. induction ss as [|[n s] ss IH]; simpl; [intros []|].
  destruct (Nat.eqb (s_len s) 0); simpl.
  - intros H. destruct (IH H) as [m [A B]]. eauto.
  - intros [H|H]; [exists n; auto | destruct (IH H) as [m [A B]]; eauto]. Qed.

Lemma env_bases_find bs n b : NoDup (map fst bs) -> In (n, b) bs -> b_len b <> 0 ->
  afind (env_bases bs) (P +++ n) = Some (dom_nts (P +++ n) (b_len b)).
Proof. induction bs as [|[n' b'] bs IH]; simpl; intros ND H Hl; [destruct H|].
  inversion ND as [|? ? H1 H2]; subst. destruct H as [H|H].
  - inversion H; subst. destruct (Nat.eqb (b_len b) 0) eqn:E; [apply Nat.eqb_eq in E; tauto|].
    simpl. rewrite String.eqb_refl. reflexivity.
  - destruct (Nat.eqb (b_len b') 0); [apply IH; auto|]. simpl.
    destruct (String.eqb (P +++ n') (P +++ n)) eqn:E; [|apply IH; auto].
    apply String.eqb_eq, append_inj in E. subst. exfalso. apply H1. apply (in_map fst) in H. exact H. Qed.
Lemma env_sups_find ss n s : NoDup (map fst ss) -> In (n, s) ss -> s_len s <> 0 ->
  afind (env_sups ss) (P +++ n) = Some (flatB c (s_base s)).
Proof. induction ss as [|[n' s'] ss IH]; simpl; intros ND H Hl; [destruct H|].
  inversion ND as [|? ? H1 H2]; subst. destruct H as [H|H].
  - inversion H; subst. destruct (Nat.eqb (s_len s) 0) eqn:E; [apply Nat.eqb_eq in E; tauto|].
    simpl. rewrite String.eqb_refl. reflexivity.
  - destruct (Nat.eqb (s_len s') 0); [apply IH; auto|]. simpl.
    destruct (String.eqb (P +++ n') (P +++ n)) eqn:E; [|apply IH; auto].
    apply String.eqb_eq, append_inj in E. subst. exfalso. apply H1. apply (in_map fst) in H. exact H. Qed.

(* a reference that is not a dummy resolves, in an environment holding all bases and the
   super-sequences [before], to what it denotes; a dummy denotes nothing *)
Lemma flat_ref_dummy x before : ref_ok c before x ->
  (forall n s, In (n, s) before -> In (n, s) (c_sups c)) ->
  ref_dummy c x = true -> flat_ref c x = [].
Proof. intros Hok Hsub Hd. unfold ref_dummy in Hd. apply Nat.eqb_eq in Hd. unfold flat_ref.
  destruct x as [n r|n r]; simpl in *.
  - unfold flatB. simpl. rewrite app_nil_r. unfold flat_bref. simpl. rewrite Hd.
    destruct r; reflexivity.
  - destruct (afind (c_sups c) n) as [s|] eqn:E; [|reflexivity].
    apply afind_Some_In in E. destruct (in_split _ _ E) as [pre [post Hsp]].
    pose proof (so_len _ _ _ (wf_sups c W pre n s post Hsp)) as HL. rewrite Hd in HL.
    assert (Z : flatB c (s_base s) = []) by (destruct (flatB c (s_base s)); [reflexivity | simpl in HL; discriminate]).
    destruct r; [rewrite flatB_rc, Z; reflexivity | exact Z]. Qed.

Lemma resolve_ref x before : ref_ok c before x ->
  (exists post, c_sups c = before ++ post) ->
  ref_dummy c x = false ->
  forall rest v, resolve_items (env_bases (c_bases c) ++ env_sups before) rest = Some v ->
  resolve_items (env_bases (c_bases c) ++ env_sups before) (ref_name c x :: rest) = Some (flat_ref c x ++ v).
Proof. intros Hok [post Hpost] Hd rest v Hr. unfold ref_dummy in Hd. apply Nat.eqb_neq in Hd.
  unfold flat_ref. destruct x as [n r|n r]; simpl in *; fold P.
  - (* base *) apply ahas_In in Hok as Hin.
    unfold ahas in Hok. destruct (afind (c_bases c) n) as [b|] eqn:E; [|discriminate].
    apply afind_Some_In in E.
    assert (Hl : b_len b <> 0).
    { unfold base_len in Hd. rewrite (afind_In _ _ _ nodup_bases E) in Hd. exact Hd. }
    rewrite afind_app, (env_bases_find _ _ _ nodup_bases E Hl), Hr.
    unfold flatB. simpl. rewrite app_nil_r. unfold flat_bref. simpl.
    unfold base_len. rewrite (afind_In _ _ _ nodup_bases E). fold P. destruct r; reflexivity.
  - (* super-sequence defined before *)
    unfold ahas in Hok. destruct (afind before n) as [s|] eqn:E; [|discriminate].
    apply afind_Some_In in E.
    assert (NDb : NoDup (map fst before)).
    { pose proof nodup_sups as ND. rewrite Hpost, map_app in ND. apply NoDup_app_l in ND. exact ND. }
    assert (Ein : In (n, s) (c_sups c)) by (rewrite Hpost; apply in_or_app; left; exact E).
    rewrite (afind_In _ _ _ nodup_sups Ein) in *.
    assert (Hl : s_len s <> 0) by exact Hd.
    rewrite afind_app.
    assert (NB : afind (env_bases (c_bases c)) (P +++ n) = None).
    { apply afind_None. intros H. apply env_bases_keys in H. destruct H as [m [A B]].
      apply append_inj in A. subst m. apply (base_not_sup n B). apply (in_map fst) in Ein. exact Ein. }
    rewrite NB, (env_sups_find _ _ _ NDb E Hl), Hr.
    destruct r; [rewrite flatB_rc|]; reflexivity. Qed.

Lemma resolve_refs before l :
  (forall x, In x l -> ref_ok c before x) -> (exists post, c_sups c = before ++ post) ->
  resolve_items (env_bases (c_bases c) ++ env_sups before) (emit_items c l) = Some (flat_map (flat_ref c) l).
Proof. intros Hok Hpost. unfold emit_items. induction l as [|x l IH]; simpl; [reflexivity|].
  assert (IH' := IH (fun y Hy => Hok y (or_intror Hy))).
  destruct (ref_dummy c x) eqn:D; simpl.
  - rewrite IH'. destruct Hpost as [post Hp].
    rewrite (flat_ref_dummy x before (Hok x (or_introl eq_refl))); [reflexivity | | exact D].
    intros n s H. rewrite Hp. apply in_or_app. left. exact H.
  - apply resolve_ref; auto. apply Hok. left. reflexivity. Qed.

Lemma flat_refs_base s before : sup_ok c before s -> flat_map (flat_ref c) (s_seqs s) = flatB c (s_base s).
Proof. intros H. rewrite (so_base _ _ _ H). unfold flat_ref, flatB.
  induction (s_seqs s) as [|x l IH]; simpl; [reflexivity|]. rewrite flat_map_app, IH. reflexivity. Qed.

(* ---- walking over the emitted lines ---- *)
Definition base_lines (bs : list (string * bseq)) : list pline :=
  flat_map (fun '(n, b) => if Nat.eqb (b_len b) 0 then [] else [PSeq (P +++ n) (b_const b) (b_len b)]) bs.
Definition sup_lines (ss : list (string * sup)) : list pline :=
  flat_map (fun '(n, s) => if Nat.eqb (s_len s) 0 then [] else [PSup (P +++ n) (emit_items c (s_seqs s)) (s_len s)]) ss.

Lemma pil_defs_app l1 : forall l2 env env1, pil_defs l1 env = Some env1 -> pil_defs (l1 ++ l2) env = pil_defs l2 env1.
Proof. induction l1 as [|x l1 IH]; simpl; intros l2 env env1 H; [inversion H; reflexivity|].
  destruct x; try (apply IH; exact H).
  - destruct (ahas env name); [discriminate | apply IH; exact H].
  - destruct (ahas env name); [discriminate|]. destruct (resolve_items env items); [apply IH; exact H | discriminate]. Qed.

Lemma ahas_false {V} (t : list (string * V)) k : ~ In k (map fst t) -> ahas t k = false.
Proof. intros H. unfold ahas. rewrite (afind_None t k H). reflexivity. Qed.

Lemma base_lines_env : forall bs done, c_bases c = done ++ bs ->
  pil_defs (base_lines bs) (env_bases done) = Some (env_bases (c_bases c)).
Proof. induction bs as [|[n b] bs IH]; intros done Hd; simpl.
  - rewrite Hd, app_nil_r. reflexivity.
  - assert (Hd' : c_bases c = (done ++ [(n, b)]) ++ bs) by (rewrite <- app_assoc; exact Hd).
    specialize (IH _ Hd').
    assert (E : env_bases (done ++ [(n, b)]) = env_bases done ++ (if Nat.eqb (b_len b) 0 then [] else [(P +++ n, dom_nts (P +++ n) (b_len b))])).
    { unfold env_bases. rewrite flat_map_app. simpl. rewrite app_nil_r. reflexivity. }
    destruct (Nat.eqb (b_len b) 0) eqn:Z; simpl.
    + rewrite E, app_nil_r in IH. exact IH.
    + rewrite ahas_false.
      * assert (HL : List.length (b_const b) = b_len b).
        { apply (wf_const c W n). rewrite Hd. apply in_or_app. right. left. reflexivity. }
        rewrite HL. rewrite E in IH. exact IH.
      * intros H. apply env_bases_keys in H. destruct H as [m [A B]]. apply append_inj in A. subst m.
        pose proof nodup_bases as ND. rewrite Hd, map_app in ND. simpl in ND.
        apply NoDup_remove_2 in ND. apply ND. apply in_or_app. left. exact B. Qed.

Lemma sup_lines_env : forall ss done, c_sups c = done ++ ss ->
  pil_defs (sup_lines ss) (env_bases (c_bases c) ++ env_sups done) = Some (env_bases (c_bases c) ++ env_sups (c_sups c)).
Proof. induction ss as [|[n s] ss IH]; intros done Hd; simpl.
  - rewrite Hd, app_nil_r. reflexivity.
  - assert (Hd' : c_sups c = (done ++ [(n, s)]) ++ ss) by (rewrite <- app_assoc; exact Hd).
    specialize (IH _ Hd').
    assert (E : env_sups (done ++ [(n, s)]) = env_sups done ++ (if Nat.eqb (s_len s) 0 then [] else [(P +++ n, flatB c (s_base s))])).
    { unfold env_sups. rewrite flat_map_app. simpl. rewrite app_nil_r. reflexivity. }
    destruct (Nat.eqb (s_len s) 0) eqn:Z; simpl.
    + rewrite E, app_nil_r in IH. exact IH.
    + pose proof (wf_sups c W done n s ss Hd) as OKs.
      rewrite ahas_false.
      * rewrite (resolve_refs done (s_seqs s) (so_refs _ _ _ OKs)); [|exists ((n, s) :: ss); exact Hd].
        rewrite (flat_refs_base s done OKs). rewrite E, app_assoc in IH. exact IH.
      * rewrite map_app. intros H. apply in_app_or in H. destruct H as [H|H].
        -- apply env_bases_keys in H. destruct H as [m [A B]]. apply append_inj in A. subst m.
           apply (base_not_sup n B). rewrite Hd, map_app. apply in_or_app. right. left. reflexivity.
        -- apply env_sups_keys in H. destruct H as [m [A B]]. apply append_inj in A. subst m.
           pose proof nodup_sups as ND. rewrite Hd, map_app in ND. simpl in ND.
           apply NoDup_remove_2 in ND. apply ND. apply in_or_app. left. exact B. Qed.

Definition final_env : penv := env_bases (c_bases c) ++ env_sups (c_sups c).

Lemma pil_defs_other l env : (forall x, In x l -> match x with PSeq _ _ _ | PSup _ _ _ => False | _ => True end) ->
  pil_defs l env = Some env.
Proof. induction l as [|x l IH]; simpl; intros H; [reflexivity|].
  pose proof (H x (or_introl eq_refl)) as Hx. destruct x; try tauto; apply IH; intros y Hy; apply H; right; exact Hy. Qed.

Lemma emit_split : emit_comp c =
  base_lines (c_bases c) ++ sup_lines (c_sups c) ++
  (map (fun '(n, t) => PStrand (t_dummy t) (P +++ n) (emit_items c (s_seqs (t_sup t))) (s_len (t_sup t))) (c_strands c)
  ++ map (fun '(n, u) => PStruct (u_opt u) (P +++ n) (map (fun x => P +++ x) (u_strands u)) (u_struct u)) (c_structs c)
  ++ map (fun k => PKin (k_low k) (k_high k) (map (fun x => P +++ x) (k_ins k)) (map (fun x => P +++ x) (k_outs k))) (c_kins c)).
Proof. reflexivity. Qed.

(* Re-reading the emitted definitions succeeds and yields exactly [final_env] *)
Theorem emit_defs : pil_defs (emit_comp c) [] = Some final_env.
Proof. rewrite emit_split.
  rewrite (pil_defs_app _ _ [] _ (base_lines_env (c_bases c) [] eq_refl)).
  assert (S := sup_lines_env (c_sups c) [] eq_refl). simpl in S. rewrite app_nil_r in S.
  rewrite (pil_defs_app _ _ _ _ S). apply pil_defs_other.
  intros x Hx. apply in_app_or in Hx. destruct Hx as [Hx|Hx].
  - apply in_map_iff in Hx. destruct Hx as [[n t] [E _]]. subst. exact I.
  - apply in_app_or in Hx. destruct Hx as [Hx|Hx]; apply in_map_iff in Hx.
    + destruct Hx as [[n u] [E _]]. subst. exact I.
    + destruct Hx as [k [E _]]. subst. exact I. Qed.

Lemma pil_strands_app l1 l2 env : pil_strands (l1 ++ l2) env = pil_strands l1 env ++ pil_strands l2 env.
Proof. induction l1 as [|x l1 IH]; simpl; [reflexivity|]. destruct x; simpl; rewrite ?IH; reflexivity. Qed.
Lemma pil_strands_none l env : (forall x, In x l -> match x with PStrand _ _ _ _ => False | _ => True end) -> pil_strands l env = [].
Proof. induction l as [|x l IH]; simpl; intros H; [reflexivity|].
  pose proof (H x (or_introl eq_refl)) as Hx. destruct x; try tauto; apply IH; intros y Hy; apply H; right; exact Hy. Qed.

(* every emitted strand line re-reads to the nucleotides of the strand object *)
Theorem emit_strands : pil_strands (emit_comp c) final_env =
  map (fun '(n, t) => (P +++ n, t_dummy t, Some (flatB c (s_base (t_sup t))), s_len (t_sup t))) (c_strands c).
Proof. rewrite emit_split, !pil_strands_app.
  rewrite (pil_strands_none (base_lines _)), (pil_strands_none (sup_lines _)); simpl.
  - match goal with |- _ ++ pil_strands ?l1 _ ++ pil_strands ?l2 _ = _ =>
      rewrite (pil_strands_none l1), (pil_strands_none l2) end.
    + rewrite !app_nil_r. assert (H := wf_strands c W). revert H.
      generalize (c_strands c) as ts. induction ts as [|[n t] ts IH]; simpl; intros H; [reflexivity|].
      rewrite IH; [|intros m u Hu; apply (H m u); right; exact Hu].
      pose proof (H n t (or_introl eq_refl)) as OKs.
      assert (R := resolve_refs (c_sups c) (s_seqs (t_sup t)) (so_refs _ _ _ OKs)).
      unfold final_env. rewrite R; [|exists []; rewrite app_nil_r; reflexivity].
      rewrite (flat_refs_base _ _ OKs). reflexivity.
    + intros x Hx. apply in_map_iff in Hx. destruct Hx as [k [E _]]. subst. exact I.
    + intros x Hx. apply in_map_iff in Hx. destruct Hx as [[n u] [E _]]. subst. exact I.
  - intros x Hx. unfold sup_lines in Hx. apply in_flat_map in Hx. destruct Hx as [[n s] [_ Hx]].
    destruct (Nat.eqb (s_len s) 0); simpl in Hx; [destruct Hx | destruct Hx as [<-|[]]; exact I].
  - intros x Hx. unfold base_lines in Hx. apply in_flat_map in Hx. destruct Hx as [[n b] [_ Hx]].
    destruct (Nat.eqb (b_len b) 0); simpl in Hx; [destruct Hx | destruct Hx as [<-|[]]; exact I]. Qed.

(* every non-empty sequence and super-sequence is defined with its own nucleotides *)
Theorem emit_named_sup n s : In (n, s) (c_sups c) -> s_len s <> 0 -> afind final_env (P +++ n) = Some (flatB c (s_base s)).
Proof. intros H Hl. unfold final_env. rewrite afind_app.
  rewrite afind_None; [apply env_sups_find; auto; apply nodup_sups|].
  intros K. apply env_bases_keys in K. destruct K as [m [A B]]. apply append_inj in A. subst m.
  apply (base_not_sup n B). apply (in_map fst) in H. exact H. Qed.
Theorem emit_named_base n b : In (n, b) (c_bases c) -> b_len b <> 0 ->
  afind final_env (P +++ n) = Some (dom_nts (P +++ n) (b_len b)).
Proof. intros H Hl. unfold final_env. rewrite afind_app, (env_bases_find _ _ _ nodup_bases H Hl). reflexivity. Qed.
(* nothing else is defined: the names are exactly the non-empty sequences and super-sequences *)
Theorem emit_names k : In k (map fst final_env) ->
  exists n, k = P +++ n /\ ((exists b, In (n, b) (c_bases c) /\ b_len b <> 0) \/ (exists s, In (n, s) (c_sups c) /\ s_len s <> 0)).
Proof. unfold final_env. rewrite map_app. intros H. apply in_app_or in H. destruct H as [H|H].
  - unfold env_bases in H. rewrite in_map_iff in H. destruct H as [[k' v] [E H]]. simpl in E. subst k'.
    apply in_flat_map in H. destruct H as [[n b] [Hin H]]. destruct (Nat.eqb (b_len b) 0) eqn:Z; [destruct H|].
    destruct H as [H|[]]. inversion H; subst. exists n. split; [reflexivity|]. left. exists b. split; auto.
    apply Nat.eqb_neq. exact Z.
  - unfold env_sups in H. rewrite in_map_iff in H. destruct H as [[k' v] [E H]]. simpl in E. subst k'.
    apply in_flat_map in H. destruct H as [[n s] [Hin H]]. destruct (Nat.eqb (s_len s) 0) eqn:Z; [destruct H|].
    destruct H as [H|[]]. inversion H; subst. exists n. split; [reflexivity|]. right. exists s. split; auto.
    apply Nat.eqb_neq. exact Z. Qed.
End Emit.
