(* Names in a compiled component: if no sequence / structure name written in the program contains a '*'
   (the statement grammar yields [\w-]+), then no name of the object does - anonymous names are "_Anon"
   followed by decimal digits - and no structure shares its name with a sequence (defect D13's repair). *)
From Coq Require Import List String Ascii Arith Bool Lia DecimalString DecimalNat.
From PC Require Import Base.Sexp Comp.Syntax Comp.Struct Comp.Wild Comp.Compile Comp.Denote Comp.EmitProofs Comp.WfCheck Comp.WfPil Comp.CompileProofs.
Import ListNotations.
Local Open Scope list_scope.

Definition nostar (s : string) : Prop := ~ In "*"%char (chars s).
Lemma chars_app a b : chars (a +++ b) = chars a ++ chars b.
Proof. induction a as [|ch a IH]; simpl; [reflexivity | rewrite IH; reflexivity]. Qed.
Lemma nostar_app a b : nostar (a +++ b) <-> nostar a /\ nostar b.
Proof. unfold nostar. rewrite chars_app, in_app_iff. tauto. Qed.

Lemma uint_nostar u : nostar (NilEmpty.string_of_uint u).
Proof. unfold nostar. induction u; simpl; [tauto | | | | | | | | | |]; (intros [C|C]; [discriminate | exact (IHu C)]). Qed.
Lemma anon_nostar k : nostar (anon_name k).
Proof. unfold anon_name. apply nostar_app. split; [|apply uint_nostar]. unfold nostar. simpl. intros [C|[C|[C|[C|[C|[]]]]]]; discriminate. Qed.

(* the names of a program's sequence and structure statements *)
Definition stmt_nostar (s : stmt) : Prop :=
  match s with
  | SSeq name _ _ => nostar name
  | SStruct _ name _ _ _ => nostar name
  | _ => True
  end.

Record NI (c : comp) : Prop := {
  ni_star : forall n, In n (map fst (c_bases c)) \/ In n (map fst (c_sups c)) \/ In n (map fst (c_structs c)) -> nostar n;
  ni_disj : forall n, ahas (c_structs c) n = true -> is_anon n = false /\ seq_defined c n = false }.

Lemma NI_empty prefix : NI (empty_comp prefix).
Proof. constructor; simpl; [intros n [[]|[[]|[]]] | intros n H; discriminate]. Qed.

Lemma ahas_In {V} (t : list (string * V)) n : ahas t n = true -> In n (map fst t).
Proof. unfold ahas. destruct (afind t n) as [v|] eqn:A; [|discriminate]. intros _. apply afind_Some_In in A. apply in_map_iff. exists (n, v). auto. Qed.
Lemma In_ahas {V} (t : list (string * V)) n : In n (map fst t) -> ahas t n = true.
Proof. intros H. destruct (In_fst_afind t n H) as [v A]. unfold ahas. rewrite A. reflexivity. Qed.
Lemma ahas_false_app {V} (t x : list (string * V)) n : ahas t n = false -> ~ In n (map fst x) -> ahas (t ++ x) n = false.
Proof. intros A B. rewrite ahas_app, A. simpl. destruct (ahas x n) eqn:E; [|reflexivity]. exfalso. apply B, ahas_In, E. Qed.

(* growing by anonymous sequences, at most one named super-sequence and strands keeps the invariant *)
Lemma NI_grow c X Y T : NI c ->
  (forall n, In n (map fst X) -> exists k, n = anon_name k) ->
  (forall n, In n (map fst Y) -> nostar n /\ is_anon n = false /\ ahas (c_structs c) n = false) ->
  NI (grow c X Y T).
Proof. intros [A B] HX HY. constructor; cbn [grow c_bases c_sups c_structs].
  - intros n H. rewrite !map_app, !in_app_iff in H. destruct H as [[H|H]|[[H|H]|H]].
    + apply A. auto.
    + destruct (HX n H) as [k ->]. apply anon_nostar.
    + apply A. auto.
    + apply (HY n H).
    + apply A. auto.
  - intros n H. destruct (B n H) as [B1 B2]. split; [exact B1|]. unfold seq_defined in *. cbn [grow c_bases c_sups]. apply orb_false_elim in B2. destruct B2 as [B2 B3].
    rewrite (ahas_false_app _ X n B2), (ahas_false_app _ Y n B3); [reflexivity | |].
    + intros C. destruct (HY n C) as [_ [_ D]]. congruence.
    + intros C. destruct (HX n C) as [k ->]. rewrite anon_is_anon in B1. discriminate. Qed.

Lemma built_anon_names c ctr s anons ctr' X : built c ctr s anons ctr' -> (forall n b, In (n, b) X <-> In (n, b) anons) ->
  forall n, In n (map fst X) -> exists k, n = anon_name k.
Proof. intros B HX n H. apply in_map_iff in H. destruct H as [[n' b] [E Hin]]. simpl in E. subst n'. apply HX in Hin.
  assert (Hn : In n (map fst anons)) by (apply in_map_iff; exists (n, b); auto). rewrite (bt_names _ _ _ _ _ B) in Hn.
  apply anon_names_In in Hn. destruct Hn as [k [_ ->]]. eauto. Qed.

Lemma add_super_sequence_NI c ctr name items len c' ctr' : INV c ctr -> NI c -> nostar name ->
  add_super_sequence c ctr name items len = OK (c', ctr') -> NI c'.
Proof. intros [W W2 F] N NS H. unfold add_super_sequence in H. destruct (is_anon name) eqn:HN; [discriminate|].
  destruct (seq_defined c name) eqn:D; [discriminate|]. destruct (ahas (c_structs c) name) eqn:HS0; [discriminate|].
  destruct (clean_const c items) as [const|] eqn:CC; [|discriminate]. cbn [bind] in H.
  destruct (build_super c ctr const len) as [[[s anons] ctr1]|] eqn:BS; [|discriminate]. cbn [bind] in H.
  injection H as H1 H2. subst c' ctr'.
  pose proof (build_super_spec c ctr const len s anons ctr1 F (clean_const_spec c W items const CC) BS) as B.
  assert (HS : forall k, ctr <= k -> ahas (c_sups c ++ [(name, s)]) (anon_name k) = false).
  { intros k Hk. rewrite ahas_app. destruct (F k Hk) as [_ ->]. unfold ahas. simpl.
    destruct (String.eqb name (anon_name k)) eqn:Q; [|reflexivity]. apply String.eqb_eq in Q. subst name.
    rewrite anon_is_anon in HN. discriminate. }
  destruct (register_built c ctr s anons ctr1 _ F B HS) as [X [E [ND HX]]].
  match goal with |- NI ?c0 => assert (EQ : c0 = grow c X [(name, s)] []) end.
  { unfold grow. rewrite E, app_nil_r. reflexivity. }
  rewrite EQ. apply (NI_grow c X _ [] N (built_anon_names c ctr s anons ctr1 X B HX)).
  intros n [<-|[]]. auto. Qed.

Lemma add_strand_NI c ctr dummy name items len c' ctr' : INV c ctr -> NI c ->
  add_strand c ctr dummy name items len = OK (c', ctr') -> NI c'.
Proof. intros [W W2 F] N H. unfold add_strand in H.
  destruct (ahas (c_strands c) name) eqn:D; [discriminate|].
  destruct (clean_const c items) as [const|] eqn:CC; [|discriminate]. cbn [bind] in H.
  destruct (build_super c ctr const len) as [[[s anons] ctr1]|] eqn:BS; [|discriminate]. cbn [bind] in H.
  destruct (Nat.eqb (s_len s) 0); [discriminate|].
  injection H as H1 H2. subst c' ctr'.
  pose proof (build_super_spec c ctr const len s anons ctr1 F (clean_const_spec c W items const CC) BS) as B.
  assert (HS : forall k, ctr <= k -> ahas (c_sups c) (anon_name k) = false) by (intros k Hk; apply (F k Hk)).
  destruct (register_built c ctr s anons ctr1 _ F B HS) as [X [E [ND HX]]].
  match goal with |- NI ?c0 => assert (EQ : c0 = grow c X [] [(name, {| t_sup := s; t_dummy := dummy |})]) end.
  { unfold grow. rewrite E, app_nil_r. reflexivity. }
  rewrite EQ. apply (NI_grow c X [] _ N (built_anon_names c ctr s anons ctr1 X B HX)). intros n []. Qed.

Lemma add_sequence_NI c name ps len c' : NI c -> nostar name -> add_sequence c name ps len = OK c' -> NI c'.
Proof. intros [A B] NS H. unfold add_sequence in H. destruct (is_anon name) eqn:HN; [discriminate|]. destruct (seq_defined c name) eqn:D; [discriminate|].
  destruct (ahas (c_structs c) name) eqn:HS; [discriminate|].
  destruct (get_length_const len ps) as [l k| |k]; try discriminate. injection H as H. subst c'. constructor; cbn [set_bases c_bases c_sups c_structs].
  - intros n H. rewrite map_app, in_app_iff in H. destruct H as [[H|[<-|[]]]|H]; [apply A; auto | exact NS | apply A; tauto].
  - intros n H. destruct (B n H) as [B1 B2]. split; [exact B1|]. unfold seq_defined in *. cbn [set_bases c_bases c_sups]. apply orb_false_elim in B2. destruct B2 as [B2 B3].
    rewrite (ahas_false_app _ _ n B2), B3; [reflexivity|]. simpl. intros [E|[]]. subst n. congruence. Qed.

Lemma add_structure_NI c opt name names domain s0 c' : NI c -> nostar name -> add_structure c opt name names domain s0 = OK c' -> NI c'.
Proof. intros [A B] NS H. unfold add_structure in H. destruct (ahas (c_structs c) name) eqn:D; [discriminate|]. destruct (is_anon name) eqn:HA; [discriminate|].
  destruct (seq_defined c name) eqn:SD; [discriminate|].
  destruct (find_strands c names) as [ts|]; [|discriminate]. cbn [bind] in H.
  destruct (if domain then _ else _) as [s|]; [|discriminate]. cbn [bind] in H. destruct (structure_ok s _); [|discriminate]. injection H as H. subst c'.
  constructor; cbn [c_bases c_sups c_structs].
  - intros n H. rewrite map_app, in_app_iff in H. destruct H as [H|[H|[H|[<-|[]]]]]; [apply A; auto | apply A; auto | apply A; auto | exact NS].
  - intros n H. rewrite ahas_app in H. apply orb_prop in H. destruct H as [H|H]; [apply (B n H)|].
    unfold ahas in H. simpl in H. destruct (String.eqb name n) eqn:E; [|discriminate]. apply String.eqb_eq in E. subst n. unfold seq_defined in *. auto. Qed.

Lemma step_NI c ctr s c' ctr' : INV c ctr -> NI c -> stmt_nostar s -> step (c, ctr) s = OK (c', ctr') -> NI c'.
Proof. intros I N NS H. destruct s as [name items len|dummy name items len|opt name names domain sn|low high ins outs]; cbn [step stmt_nostar] in *.
  - assert (G : add_super_sequence c ctr name items len = OK (c', ctr') -> NI c') by apply (add_super_sequence_NI _ _ _ _ _ _ _ I N NS).
    destruct items as [|[ps|n r|n r] [|it2 items]]; try (exact (G H)).
    destruct (add_sequence c name ps len) as [c1|] eqn:A; [|discriminate]. cbn [bind] in H. injection H as H1 H2. subst c1 ctr'.
    apply (add_sequence_NI c name ps len c' N NS A).
  - apply (add_strand_NI _ _ _ _ _ _ _ _ I N H).
  - destruct (compile_snot sn) as [s0|]; [|discriminate]. cbn [bind] in H. destruct (add_structure c opt name names domain s0) as [c1|] eqn:A; [|discriminate].
    cbn [bind] in H. injection H as H1 H2. subst c1 ctr'. apply (add_structure_NI _ _ _ _ _ _ _ N NS A).
  - destruct (add_kinetic c low high ins outs) as [c1|] eqn:A; [|discriminate]. cbn [bind] in H. injection H as H1 H2. subst c1 ctr'.
    unfold add_kinetic in A. destruct (_ && _); [|discriminate]. injection A as A. subst c'. destruct N as [A1 B1]. constructor; [exact A1 | exact B1]. Qed.

Lemma steps_NI body : forall c ctr c' ctr', INV c ctr -> NI c -> (forall s, In s body -> stmt_nostar s) ->
  steps (c, ctr) body = OK (c', ctr') -> NI c'.
Proof. induction body as [|s body IH]; intros c ctr c' ctr' I N NS H; cbn [steps] in H.
  - injection H as H1 H2. subst. exact N.
  - destruct (step (c, ctr) s) as [[c1 ctr1]|] eqn:S; [|discriminate]. cbn [bind] in H.
    apply (IH c1 ctr1 c' ctr' (step_inv _ _ _ _ _ I S) (step_NI _ _ _ _ _ I N (NS s (or_introl eq_refl)) S) (fun s0 H0 => NS s0 (or_intror H0)) H). Qed.

Theorem compile_comp_NI ctr prefix d body c ctr' : compile_comp ctr prefix d body = OK (c, ctr') ->
  (forall s, In s body -> stmt_nostar s) -> NI c.
Proof. intros H NS. unfold compile_comp in H.
  destruct (steps (empty_comp prefix, ctr) body) as [[c1 ctr1]|] eqn:ST; [|discriminate]. cbn [bind fst snd] in H.
  destruct (add_IO c1 d) as [c2|] eqn:IO; [|discriminate]. cbn [bind] in H. injection H as H1 H2. subst c2 ctr1.
  pose proof (steps_NI body _ _ _ _ (INV_empty prefix ctr) (NI_empty prefix) NS ST) as [A B].
  unfold add_IO in IO. destruct (resolve_ports c1 (d_ins d)); [|discriminate]. cbn [bind] in IO. destruct (resolve_ports c1 (d_outs d)); [|discriminate]. cbn [bind] in IO.
  injection IO as IO. subst c. constructor; [exact A | exact B]. Qed.

(* boolean form, evaluated on every generated program *)
Definition nostarb (s : string) : bool := negb (existsb (Ascii.eqb "*"%char) (chars s)).
Lemma nostarb_sound s : nostarb s = true -> nostar s.
Proof. unfold nostarb, nostar. intros H C. apply negb_true_iff in H. assert (X : existsb (Ascii.eqb "*"%char) (chars s) = true) by (apply existsb_exists; exists "*"%char; split; [exact C | apply Ascii.eqb_refl]). congruence. Qed.
Definition body_nostarb (body : list stmt) : bool :=
  forallb (fun s => match s with SSeq name _ _ => nostarb name | SStruct _ name _ _ _ => nostarb name | _ => true end) body.
Lemma body_nostarb_sound body : body_nostarb body = true -> forall s, In s body -> stmt_nostar s.
Proof. unfold body_nostarb. rewrite forallb_forall. intros H s Hs. specialize (H s Hs). destruct s; simpl; try exact I; apply nostarb_sound, H. Qed.
