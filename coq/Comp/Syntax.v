(* Abstract syntax of .comp programs (after parameter substitution) and of emitted PIL
   documents, plus the result type shared by the models.  The regex / pyparsing layer that
   maps text to this syntax is NOT modelled; the correspondence harness prints these ASTs with
   randomised spelling and feeds the text to the real parser. *)
From Coq Require Import List String Ascii.
Import ListNotations.

Inductive res (A : Type) := OK (a : A) | Err (k : string).
Arguments OK {A} a.
Arguments Err {A} k.
Definition bind {A B} (x : res A) (f : A -> res B) : res B :=
  match x with OK a => f a | Err k => Err k end.
Notation "'do' x <- e ; f" := (bind e (fun x => f)) (at level 200, x pattern, e at level 100, f at level 200).

(* --- constraints --- *)
Inductive mult := MNum (n : nat) | MWild.
Definition part := (mult * ascii)%type.
Inductive item :=
  | INuc (ps : list part)                   (* "5N 3S ?N" *)
  | IRef (n : string) (star : bool)         (* name  /  name*  *)
  | IDom (n : string) (star : bool).        (* domains(name) / domains(name* ) *)

(* --- secondary structure --- *)
Inductive sym := Dot | Open | Close | Plus.
Inductive huterm := HPlus | HU (n : nat) | HH (n : nat) (body : list huterm).
Inductive snot :=
  | NHU (t : list huterm)                   (* Zadeh HU notation *)
  | NExt (l : list (nat * sym)).            (* run-length dot-paren; plain dot-paren = all counts 1 *)

Inductive stmt :=
  | SSeq (name : string) (items : list item) (len : option nat)
  | SStrand (dummy : bool) (name : string) (items : list item) (len : option nat)
  | SStruct (opt : nat) (name : string) (strands : list string) (domain : bool) (s : snot)
  | SKin (low high : option string) (ins outs : list string).

(* declare component name(params): inputs -> outputs ; a port = ((sequence, star), optional structure) *)
Definition port := ((string * bool) * option string)%type.
Record declare := { d_name : string; d_ins : list port; d_outs : list port }.

(* --- emitted PIL lines (also the input syntax of the designer front-end) --- *)
Inductive pline :=
  | PSeq (name : string) (const : list ascii) (len : nat)
  | PSup (name : string) (items : list (string * bool)) (len : nat)
  | PStrand (dummy : bool) (name : string) (items : list (string * bool)) (len : nat)
  | PStruct (opt : nat) (name : string) (strands : list string) (s : list sym)
  | PKin (low high : option string) (ins outs : list string)
  | PEqual (items : list (string * bool)).

Definition sym_eqb (a b : sym) : bool :=
  match a, b with Dot, Dot | Open, Open | Close, Close | Plus, Plus => true | _, _ => false end.
