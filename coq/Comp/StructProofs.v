(* C08 proofs: HU expansion is balanced, the run-length form is accepted exactly when its
   flattening balances, dot-paren -> HU -> dot-paren is the identity on parse trees, and an
   accepted domain-level structure is balanced with the right per-strand lengths. *)
From Coq Require Import List String Ascii Arith Bool Lia.
From PC Require Import Comp.Syntax Comp.Struct.
Import ListNotations.
Local Open Scope list_scope.

(* ---- induction principles for the nested types ---- *)
Section HuInd.
Variable P : huterm -> Prop.
Hypothesis Pp : P HPlus.
Hypothesis Pu : forall n, P (HU n).
Hypothesis Ph : forall n b, Forall P b -> P (HH n b).
Fixpoint huterm_ind' (t : huterm) : P t :=
  match t with
  | HPlus => Pp
  | HU n => Pu n
  | HH n b => Ph n b ((fix go (l : list huterm) : Forall P l :=
                         match l with [] => Forall_nil P | x :: r => Forall_cons x (huterm_ind' x) (go r) end) b)
  end.
End HuInd.
Section DnInd.
Variable P : dnode -> Prop.
Hypothesis Pp : P DPlus.
Hypothesis Pd : P DDot.
Hypothesis Pr : forall b, Forall P b -> P (DPar b).
Fixpoint dnode_ind' (t : dnode) : P t :=
  match t with
  | DPlus => Pp
  | DDot => Pd
  | DPar b => Pr b ((fix go (l : list dnode) : Forall P l :=
                       match l with [] => Forall_nil P | x :: r => Forall_cons x (dnode_ind' x) (go r) end) b)
  end.
End DnInd.

(* the inner fixpoints are the outer list functions *)
Lemma expand_t_HH n b : expand_t (HH n b) = repeat Open n ++ expand b ++ repeat Close n.
Proof. simpl. assert (E : forall l, (fix ex (l : list huterm) : list sym :=
      match l with [] => [] | x :: r => expand_t x ++ ex r end) l = expand l).
  { induction l as [|x r IH]; simpl; [reflexivity | rewrite IH; reflexivity]. }
  rewrite E. reflexivity. Qed.
Lemma unparse_n_DPar b : unparse_n (DPar b) = Open :: unparse b ++ [Close].
Proof. simpl. assert (E : forall l, (fix up (l : list dnode) : list sym :=
      match l with [] => [] | x :: r => unparse_n x ++ up r end) l = unparse l).
  { induction l as [|x r IH]; simpl; [reflexivity | rewrite IH; reflexivity]. }
  rewrite E. reflexivity. Qed.

(* ---- balance ---- *)
Lemma bal_opens n : forall d l, bal d (repeat Open n ++ l) = bal (d + n) l.
Proof. induction n as [|n IH]; intros d l; simpl; [rewrite Nat.add_0_r; reflexivity|].
  rewrite IH. f_equal. lia. Qed.
Lemma bal_closes n : forall d l, bal (d + n) (repeat Close n ++ l) = bal d l.
Proof. induction n as [|n IH]; intros d l; simpl; [rewrite Nat.add_0_r; reflexivity|].
  replace (d + S n) with (S (d + n)) by lia. apply IH. Qed.
Lemma bal_dots n : forall d l, bal d (repeat Dot n ++ l) = bal d l.
Proof. induction n as [|n IH]; intros d l; simpl; auto. Qed.

Lemma bal_expand_t t : forall d l, bal d (expand_t t ++ l) = bal d l.
Proof. induction t as [| n | n b IH] using huterm_ind'; intros d l.
  - reflexivity.
  - apply bal_dots.
  - rewrite expand_t_HH, <- !app_assoc, bal_opens.
    assert (E : forall d l, bal d (expand b ++ l) = bal d l).
    { clear d l. induction IH as [|x r Hx _ IHr]; intros d l; simpl; [reflexivity|].
      rewrite <- app_assoc, Hx. apply IHr. }
    rewrite E. apply bal_closes. Qed.
Lemma bal_expand ts : forall d l, bal d (expand ts ++ l) = bal d l.
Proof. induction ts as [|t ts IH]; intros d l; simpl; [reflexivity|].
  rewrite <- app_assoc, bal_expand_t. apply IH. Qed.

(* every HU description expands to a balanced string *)
Theorem expand_balanced ts : balanced (expand ts) = true.
Proof. unfold balanced. rewrite <- (app_nil_r (expand ts)), bal_expand. reflexivity. Qed.

(* run-length / plain dot-paren: accepted iff the flattening balances, result = flattening *)
Theorem ext2dp_spec l s : ext2dp l = OK s <-> (s = flatten_ext l /\ balanced (flatten_ext l) = true).
Proof. unfold ext2dp. destruct (balanced (flatten_ext l)); split.
  - intros H. inversion H. auto.
  - intros [-> _]. reflexivity.
  - discriminate.
  - intros [_ H]. discriminate. Qed.
Theorem ext2dp_rejects l : balanced (flatten_ext l) = false -> exists k, ext2dp l = Err k.
Proof. unfold ext2dp. intros ->. eauto. Qed.

(* all notations agree: any HU tree and any run-length list that spell the same balanced
   string compile to that very string *)
Theorem notations_agree t l s : expand t = s -> flatten_ext l = s ->
  compile_snot (NHU t) = OK s /\ (balanced s = true -> compile_snot (NExt l) = OK s).
Proof. intros H1 H2. split; simpl; [rewrite H1; reflexivity|].
  intros B. unfold ext2dp. rewrite H2, B. reflexivity. Qed.
Theorem compile_snot_balanced n s : compile_snot n = OK s -> balanced s = true.
Proof. destruct n as [t|l]; simpl.
  - intros H. inversion H. apply expand_balanced.
  - unfold ext2dp. destruct (balanced (flatten_ext l)) eqn:B; intros H; inversion H; subst; exact B. Qed.

(* ---- dot-paren -> HU -> dot-paren ---- *)
Lemma expand_flush p rest : expand (flush p rest) = repeat Dot p ++ expand rest.
Proof. destruct p; reflexivity. Qed.
Lemma repeat_snoc {A} (x : A) n : repeat x n ++ [x] = x :: repeat x n.
Proof. induction n; simpl; [reflexivity | rewrite IHn; reflexivity]. Qed.

(* the inner [go] of res_node is resolve_go *)
Lemma res_node_DPar k b :
  res_node k (DPar b) = match b with
                        | [DPar b'] => res_node (S k) (DPar b')
                        | _ => HH (S k) (resolve_go 0 b)
                        end.
Proof. assert (G : forall l p,
    (fix go (pend : nat) (l : list dnode) : list huterm :=
       match l with
       | [] => flush pend []
       | DDot :: r => go (S pend) r
       | DPlus :: r => flush pend (HPlus :: go 0 r)
       | (DPar _ as x) :: r => flush pend (res_node 0 x :: go 0 r)
       end) p l = resolve_go p l).
  { induction l as [|x r IH]; intros p; simpl; [reflexivity|]. destruct x; rewrite ?IH; reflexivity. }
  destruct b as [|x r]; simpl; [reflexivity|].
  destruct x; destruct r; simpl; rewrite ?G; reflexivity. Qed.

Lemma repeat_S_app {A} (x : A) n l : repeat x (S n) ++ l = repeat x n ++ x :: l.
Proof. induction n as [|n IH]; simpl; [reflexivity|]. f_equal. exact IH. Qed.

Lemma wrap k X : repeat Open (S k) ++ X ++ repeat Close (S k) = repeat Open k ++ (Open :: X ++ [Close]) ++ repeat Close k.
Proof. rewrite repeat_S_app. f_equal. simpl. f_equal. rewrite <- app_assoc. reflexivity. Qed.

Lemma expand_go_step (F : dnode -> Prop) b :
  Forall (fun n => match n with DPar _ => forall k, expand_t (res_node k n) = repeat Open k ++ unparse_n n ++ repeat Close k | _ => True end) b ->
  forall p, expand (resolve_go p b) = repeat Dot p ++ unparse b.
Proof. intros IH. induction IH as [|x r Hx _ IHr]; intros p; cbn [resolve_go unparse].
  - rewrite expand_flush. simpl. reflexivity.
  - destruct x.
    + rewrite expand_flush. cbn [expand]. rewrite IHr. reflexivity.
    + rewrite IHr. rewrite repeat_S_app. reflexivity.
    + rewrite expand_flush. cbn [expand]. rewrite IHr, (Hx 0). cbn [repeat app]. rewrite app_nil_r. reflexivity. Qed.

Lemma expand_res_node n : match n with DPar b =>
    forall k, expand_t (res_node k n) = repeat Open k ++ unparse_n n ++ repeat Close k | _ => True end.
Proof. induction n as [| | b IH] using dnode_ind'; try exact I. intros k.
  pose proof (expand_go_step (fun _ => True) b IH) as GO.
  rewrite res_node_DPar. destruct b as [|x r].
  - rewrite expand_t_HH, unparse_n_DPar. simpl (resolve_go 0 []). simpl (expand []). apply (wrap k []).
  - destruct x; destruct r; try (rewrite expand_t_HH, GO, unparse_n_DPar; apply wrap).
    inversion IH as [|? ? Hx _]; subst. rewrite (Hx (S k)).
    rewrite (unparse_n_DPar [DPar body]). simpl (unparse [DPar body]). rewrite app_nil_r. apply wrap. Qed.

Lemma expand_resolve_go b : forall p, expand (resolve_go p b) = repeat Dot p ++ unparse b.
Proof. apply (expand_go_step (fun _ => True)). apply Forall_forall. intros n _. apply expand_res_node. Qed.

(* converting any dot-paren parse tree to HU notation and expanding it returns the original *)
Theorem hu_roundtrip t : expand (dp2hu t) = unparse t.
Proof. unfold dp2hu. rewrite expand_resolve_go. reflexivity. Qed.

(* ---- domain-level structures ---- *)
Theorem domain_expand_balanced s doms r : domain_expand s doms = OK r -> balanced r = true.
Proof. unfold domain_expand. destruct (Nat.eqb _ _); [|discriminate].
  destruct (expand_strands _ _) as [segs|]; [|discriminate].
  destruct (balanced (join_plus segs)) eqn:B; [|discriminate]. intros H. inversion H; subst. exact B. Qed.

Lemma expand_doms_length sub : forall lens, List.length sub = List.length lens ->
  List.length (expand_doms sub lens) = list_sum lens.
Proof. induction sub as [|x sub IH]; intros [|n lens] H; simpl in *; try discriminate; [reflexivity|].
  rewrite app_length, repeat_length, IH; [reflexivity | lia]. Qed.

(* each expanded segment has the total length of its strand's domains *)
Theorem expand_strands_lengths subs : forall doms segs, expand_strands subs doms = OK segs ->
  map (@List.length sym) segs = map list_sum doms.
Proof. induction subs as [|sub sr IH]; intros [|lens dr] segs; simpl; try discriminate.
  - intros H. inversion H. reflexivity.
  - destruct (Nat.eqb (List.length sub) (List.length lens)) eqn:E; [|discriminate].
    destruct (expand_strands sr dr) as [rest|] eqn:R; [|discriminate]. intros H. inversion H; subst. simpl.
    rewrite (IH dr rest R). f_equal. apply expand_doms_length. apply Nat.eqb_eq, E. Qed.

(* structure_ok: one segment per strand, each of that strand's length *)
Theorem structure_ok_spec s lens : structure_ok s lens = true -> map (@List.length sym) (split_plus s) = lens.
Proof. unfold structure_ok. generalize (split_plus s) as segs. intros segs. revert lens.
  induction segs as [|x segs IH]; intros [|n lens]; simpl; try discriminate; [reflexivity|].
  intros H. apply andb_prop in H. destruct H as [H1 H2]. apply Nat.eqb_eq in H1. rewrite H1, (IH lens H2). reflexivity. Qed.

(* non-vacuity *)
Example hu_example : expand [HU 2; HH 3 [HU 4; HPlus]; HU 1] = [Dot;Dot;Open;Open;Open;Dot;Dot;Dot;Dot;Plus;Close;Close;Close;Dot].
Proof. reflexivity. Qed.
Example roundtrip_example : dp2hu [DDot; DDot; DPar [DPar [DDot; DPlus]]; DDot] = [HU 2; HH 2 [HU 1; HPlus]; HU 1].
Proof. reflexivity. Qed.
Example domain_example : domain_expand [Open; Close] [[3; 2]] = Err "parens-after-expansion"%string.
Proof. reflexivity. Qed.
