(* C01 / C10 / C13: the item list of a composite (super-sequence or strand) is exactly the written
   item list, in written order, every quoted region replaced in place by a fresh anonymous
   sequence: plain regions take consecutive counters in written order, the one deferred '?' region
   takes the last counter but stays at its written position. *)
From Coq Require Import List String Ascii Arith Bool Lia.
From PC Require Import Comp.Syntax Comp.Wild Comp.WildProofs Comp.Compile.
Import ListNotations.
Local Open Scope list_scope.

Fixpoint spec_seqs (wn : string) (items : list citem) (k : nat) : list ref :=
  match items with
  | [] => []
  | CRef x :: r => x :: spec_seqs wn r k
  | CNuc ps :: r => match count_wild ps with
                    | O => RB (anon_name k) false :: spec_seqs wn r (S k)
                    | _ => RB wn false :: spec_seqs wn r k
                    end
  end.
Fixpoint count_plain (items : list citem) : nat :=
  match items with
  | [] => 0
  | CRef _ :: r => count_plain r
  | CNuc ps :: r => match count_wild ps with O => S (count_plain r) | _ => count_plain r end
  end.
(* the anonymous sequences of the plain regions, in written order *)
Fixpoint spec_anons (items : list citem) (k : nat) : list (string * bseq) :=
  match items with
  | [] => []
  | CRef _ :: r => spec_anons r k
  | CNuc ps :: r => match count_wild ps with
                    | O => (anon_name k, {| b_len := sum_nums ps; b_const := build_const 0 ps; b_anon := true |}) :: spec_anons r (S k)
                    | _ => spec_anons r k
                    end
  end.

Definition ins (wn : string) (q : bstate) (l : list ref) : list ref :=
  match q_wild q with None => l | Some (i, _, _) => insert_at i (RB wn false) l end.
Definition wild_le (q : bstate) : Prop :=
  match q_wild q with None => True | Some (i, _, _) => i <= List.length (q_seqs q) end.

Lemma insert_at_app_le {A} (x : A) : forall i l X, i <= List.length l -> insert_at i x (l ++ X) = insert_at i x l ++ X.
Proof. induction i as [|i IH]; intros l X H; [reflexivity|]. destruct l as [|y l]; simpl in *; [lia|].
  rewrite IH; [reflexivity | lia]. Qed.
Lemma insert_at_end {A} (x : A) l : insert_at (List.length l) x l = l ++ [x].
Proof. induction l as [|y l IH]; simpl; [reflexivity | rewrite IH; reflexivity]. Qed.

Lemma glc_none ps : get_length_const None ps =
  match count_wild ps with O => WOk (sum_nums ps) (build_const 0 ps) | S O => WWild | _ => WErr "too-many-wildcards" end.
Proof. unfold get_length_const. destruct (count_wild ps) as [|[|n]]; reflexivity. Qed.

Lemma bs_loop_seqs c wn : forall items q q', wild_le q -> bs_loop c items q = OK q' ->
  ins wn q' (q_seqs q') = ins wn q (q_seqs q) ++ spec_seqs wn items (q_ctr q) /\
  q_ctr q' = q_ctr q + count_plain items /\
  q_anons q' = q_anons q ++ spec_anons items (q_ctr q) /\ wild_le q'.
Proof. induction items as [|it items IH]; intros q q' WL H; simpl in H.
  - inversion H; subst. simpl. rewrite !app_nil_r. repeat split; [lia | exact WL].
  - destruct it as [x|ps].
    + match type of H with bs_loop c items ?q1 = _ => destruct (IH q1 q') as [A [B [C D]]]; [|exact H|] end.
      * unfold wild_le in *. cbn [q_wild q_seqs]. destruct (q_wild q) as [[[i j] p]|]; [rewrite app_length; lia | exact I].
      * cbn [q_ctr q_anons] in B, C. simpl. split; [|split; [exact B | split; [exact C | exact D]]].
        rewrite A. unfold ins, wild_le in *. cbn [q_wild q_seqs q_ctr].
        destruct (q_wild q) as [[[i j] p]|]; [rewrite (insert_at_app_le _ i _ _ WL)|]; rewrite <- app_assoc; reflexivity.
    + rewrite glc_none in H. simpl. destruct (count_wild ps) as [|[|n]] eqn:CW.
      * match type of H with bs_loop c items ?q1 = _ => destruct (IH q1 q') as [A [B [C D]]]; [|exact H|] end.
        -- unfold wild_le in *. cbn [q_wild q_seqs]. destruct (q_wild q) as [[[i j] p]|]; [rewrite app_length; lia | exact I].
        -- cbn [q_ctr q_anons] in A, B, C. split; [|split; [lia | split; [rewrite C, <- app_assoc; reflexivity | exact D]]].
           rewrite A. unfold ins, wild_le in *. cbn [q_wild q_seqs q_ctr].
           destruct (q_wild q) as [[[i j] p]|]; [rewrite (insert_at_app_le _ i _ _ WL)|]; rewrite <- app_assoc; reflexivity.
      * destruct (q_wild q) as [w|] eqn:QW; [discriminate|].
        match type of H with bs_loop c items ?q1 = _ => destruct (IH q1 q') as [A [B [C D]]]; [|exact H|] end.
        -- unfold wild_le. cbn [q_wild q_seqs]. lia.
        -- cbn [q_ctr q_anons] in A, B, C. split; [|split; [exact B | split; [exact C | exact D]]].
           rewrite A. unfold ins at 1. cbn [q_wild q_seqs]. rewrite insert_at_end. unfold ins. rewrite QW.
           rewrite <- app_assoc. reflexivity.
      * discriminate. Qed.

(* what SuperSequence.__init__ returns, item for item *)
Theorem build_super_seqs c ctr items len s anons ctr' : build_super c ctr items len = OK (s, anons, ctr') ->
  s_seqs s = spec_seqs (anon_name (ctr + count_plain items)) items ctr /\
  exists tail, anons = spec_anons items ctr ++ tail /\ ctr' = ctr + count_plain items + List.length tail /\
               (tail = [] \/ exists b, tail = [(anon_name (ctr + count_plain items), b)]).
Proof. intros H. unfold build_super in H.
  destruct (bs_loop c items _) as [q|k] eqn:B; [|discriminate]. cbn [bind] in H.
  pose proof (fun WL => bs_loop_seqs c (anon_name (ctr + count_plain items)) items _ q WL B) as P.
  destruct (P I) as [A1 [A2 [A3 _]]]. clear P.
  cbn [q_ctr q_anons q_seqs] in A1, A2, A3. unfold ins at 2 in A1. cbn [q_wild app] in A1, A3.
  destruct (q_wild q) as [[[i j] ps]|] eqn:W.
  - destruct len as [L|]; [|discriminate]. destruct (Nat.ltb L (q_len q)); [discriminate|].
    destruct (get_length_const (Some (L - q_len q)) ps) as [l k| |k]; try discriminate.
    inversion H; subst s anons ctr'. cbn [s_seqs]. unfold ins in A1. rewrite W, <- A2 in A1. split; [rewrite A2 at 1; rewrite <- A2; exact A1|].
    eexists. split; [rewrite A3; reflexivity|]. split; [simpl; lia|]. right. rewrite A2. eauto.
  - unfold ins in A1. rewrite W in A1.
    assert (R : s = {| s_seqs := q_seqs q; s_base := q_base q; s_len := q_len q |} /\ anons = q_anons q /\ ctr' = q_ctr q).
    { destruct len as [L|]; [destruct (Nat.eqb L (q_len q)); [|discriminate]|]; inversion H; auto. }
    destruct R as [-> [-> ->]]. cbn [s_seqs]. split; [exact A1|]. exists []. rewrite app_nil_r. split; [exact A3 | split; [simpl; lia | left; reflexivity]]. Qed.

(* the cleaned item list is the written one: a reference stays one item (with its star), domains(X)
   is replaced by the items of X (reversed and flipped when starred), a quoted region stays in place *)
Fixpoint clean_spec (c : comp) (src : list item) : list citem :=
  match src with
  | [] => []
  | INuc ps :: r => CNuc ps :: clean_spec c r
  | IRef n star :: r => CRef (if ahas (c_bases c) n then RB n star else RS n star) :: clean_spec c r
  | IDom n star :: r =>
      map CRef (match afind (c_sups c) n with
                | Some s => if star then rc_refs (s_seqs s) else s_seqs s
                | None => [] end) ++ clean_spec c r
  end.
Theorem clean_const_is_spec c : forall src items, clean_const c src = OK items -> items = clean_spec c src.
Proof. induction src as [|it src IH]; intros items H; simpl in H.
  - inversion H. reflexivity.
  - destruct it as [ps|n star|n star]; simpl.
    + destruct (clean_const c src) as [r|]; [|discriminate]. inversion H. rewrite (IH r eq_refl). reflexivity.
    + destruct (is_anon n); [discriminate|]. destruct (ahas (c_bases c) n).
      * destruct (clean_const c src) as [r|]; [|discriminate]. inversion H. rewrite (IH r eq_refl). reflexivity.
      * destruct (ahas (c_sups c) n); [|discriminate].
        destruct (clean_const c src) as [r|]; [|discriminate]. inversion H. rewrite (IH r eq_refl). reflexivity.
    + destruct (is_anon n); [discriminate|]. unfold ref_seqs in H. destruct (afind (c_sups c) n) as [s|]; [|discriminate].
      destruct (clean_const c src) as [r|]; [|discriminate]. inversion H. rewrite (IH r eq_refl). reflexivity. Qed.

(* ---- definitions are never dropped or changed by later statements ---- *)
From PC Require Import Comp.Struct Comp.EmitProofs Comp.CompileProofs.

Record keeps (c c' : comp) : Prop := {
  k_bases : forall n v, afind (c_bases c) n = Some v -> afind (c_bases c') n = Some v;
  k_sups : forall n v, afind (c_sups c) n = Some v -> afind (c_sups c') n = Some v;
  k_strands : forall n v, afind (c_strands c) n = Some v -> afind (c_strands c') n = Some v;
  k_structs : forall n v, afind (c_structs c) n = Some v -> afind (c_structs c') n = Some v;
  k_kins : exists K, c_kins c' = c_kins c ++ K }.

Lemma keeps_refl c : keeps c c.
Proof. constructor; auto. exists []. rewrite app_nil_r. reflexivity. Qed.
Lemma keeps_trans a b c : keeps a b -> keeps b c -> keeps a c.
Proof. intros [A1 A2 A3 A4 [K1 A5]] [B1 B2 B3 B4 [K2 B5]]. constructor; auto.
  exists (K1 ++ K2). rewrite B5, A5, app_assoc. reflexivity. Qed.
Lemma afind_app_keep {V} (l x : list (string * V)) n v : afind l n = Some v -> afind (l ++ x) n = Some v.
Proof. intros H. rewrite afind_app, H. reflexivity. Qed.

Lemma step_keeps c ctr s c' ctr' : step (c, ctr) s = OK (c', ctr') -> keeps c c'.
Proof. intros H. destruct s as [name items len|dummy name items len|opt name names domain sn|low high ins0 outs]; cbn [step] in H.
  - assert (G : add_super_sequence c ctr name items len = OK (c', ctr') -> keeps c c').
    { clear H. intros H. unfold add_super_sequence in H. destruct (is_anon name); [discriminate|]. destruct (seq_defined c name); [discriminate|]. destruct (ahas (c_structs c) name); [discriminate|].
      destruct (clean_const c items) as [const|]; [|discriminate]. cbn [bind] in H.
      destruct (build_super c ctr const len) as [[[s anons] ctr1]|]; [|discriminate]. cbn [bind] in H.
      injection H as H1 H2. subst c' ctr'.
      destruct (register_spec (c_sups c ++ [(name, s)]) anons (s_seqs s) (c_bases c)) as [X [E _]].
      constructor; cbn [c_bases c_sups c_strands c_structs c_kins]; auto.
      - rewrite E. intros n v. apply afind_app_keep.
      - intros n v. apply afind_app_keep.
      - exists []. rewrite app_nil_r. reflexivity. }
    destruct items as [|[ps|n r|n r] [|it2 items]]; try (exact (G H)).
    destruct (add_sequence c name ps len) as [c1|] eqn:A; [|discriminate]. cbn [bind] in H. injection H as H1 H2. subst c1 ctr'.
    unfold add_sequence in A. destruct (is_anon name); [discriminate|]. destruct (seq_defined c name); [discriminate|]. destruct (ahas (c_structs c) name); [discriminate|].
    destruct (get_length_const len ps); try discriminate. injection A as A. subst c'.
    constructor; cbn [set_bases c_bases c_sups c_strands c_structs c_kins]; auto.
    + intros n v. apply afind_app_keep.
    + exists []. rewrite app_nil_r. reflexivity.
  - unfold add_strand in H. destruct (ahas (c_strands c) name); [discriminate|].
    destruct (clean_const c items) as [const|]; [|discriminate]. cbn [bind] in H.
    destruct (build_super c ctr const len) as [[[s anons] ctr1]|]; [|discriminate]. cbn [bind] in H.
    destruct (Nat.eqb (s_len s) 0); [discriminate|]. injection H as H1 H2. subst c' ctr'.
    destruct (register_spec (c_sups c) anons (s_seqs s) (c_bases c)) as [X [E _]].
    constructor; cbn [c_bases c_sups c_strands c_structs c_kins]; auto.
    + rewrite E. intros n v. apply afind_app_keep.
    + intros n v. apply afind_app_keep.
    + exists []. rewrite app_nil_r. reflexivity.
  - destruct (compile_snot sn) as [s0|]; [|discriminate]. cbn [bind] in H.
    destruct (add_structure c opt name names domain s0) as [c1|] eqn:A; [|discriminate]. cbn [bind] in H. injection H as H1 H2. subst c1 ctr'.
    unfold add_structure in A. destruct (ahas (c_structs c) name); [discriminate|]. destruct (is_anon name); [discriminate|]. destruct (seq_defined c name); [discriminate|].
    destruct (find_strands c names) as [ts|]; [|discriminate]. cbn [bind] in A.
    match type of A with (do s <- ?e; _) = _ => destruct e as [s|]; [|discriminate] end. cbn [bind] in A.
    destruct (structure_ok s _); [|discriminate]. injection A as A. subst c'.
    constructor; cbn [c_bases c_sups c_strands c_structs c_kins]; auto.
    + intros n v. apply afind_app_keep.
    + exists []. rewrite app_nil_r. reflexivity.
  - destruct (add_kinetic c low high ins0 outs) as [c1|] eqn:A; [|discriminate]. cbn [bind] in H. injection H as H1 H2. subst c1 ctr'.
    unfold add_kinetic in A. destruct (_ && _); [|discriminate]. injection A as A. subst c'.
    constructor; cbn [c_bases c_sups c_strands c_structs c_kins]; auto. eauto. Qed.

Lemma steps_keeps body : forall c ctr c' ctr', steps (c, ctr) body = OK (c', ctr') -> keeps c c'.
Proof. induction body as [|s body IH]; intros c ctr c' ctr' H; cbn [steps] in H.
  - injection H as H1 H2. subst. apply keeps_refl.
  - destruct (step (c, ctr) s) as [[c1 ctr1]|] eqn:ST; [|discriminate]. cbn [bind] in H.
    apply (keeps_trans c c1 c' (step_keeps _ _ _ _ _ ST) (IH _ _ _ _ H)). Qed.

Lemma steps_app a : forall b cs, steps cs (a ++ b) = (do cs1 <- steps cs a; steps cs1 b).
Proof. induction a as [|s a IH]; intros b cs; simpl; [reflexivity|]. destruct (step cs s) as [cs1|]; simpl; [apply IH | reflexivity]. Qed.

Lemma add_IO_keeps c d c' : add_IO c d = OK c' -> keeps c c'.
Proof. intros H. unfold add_IO in H. destruct (resolve_ports c (d_ins d)); [|discriminate]. cbn [bind] in H.
  destruct (resolve_ports c (d_outs d)); [|discriminate]. cbn [bind] in H. injection H as H. subst c'.
  constructor; cbn [c_bases c_sups c_strands c_structs c_kins]; auto. exists []. rewrite app_nil_r. reflexivity. Qed.

(* Every strand statement of an accepted program is present in the final object under its name,
   with its dummy flag, and its item list is the written item list in written order. *)
Theorem compile_strand_written ctr prefix d pre dummy name items len post c ctr' :
  compile_comp ctr prefix d (pre ++ SStrand dummy name items len :: post) = OK (c, ctr') ->
  exists c1 ctr1 t, steps (empty_comp prefix, ctr) pre = OK (c1, ctr1) /\
    afind (c_strands c) name = Some t /\ t_dummy t = dummy /\
    s_seqs (t_sup t) = spec_seqs (anon_name (ctr1 + count_plain (clean_spec c1 items))) (clean_spec c1 items) ctr1 /\
    (forall L, len = Some L -> s_len (t_sup t) = L).
Proof. intros H. unfold compile_comp in H. rewrite steps_app in H.
  destruct (steps (empty_comp prefix, ctr) pre) as [[c1 ctr1]|] eqn:S1; [|discriminate]. cbn [bind steps] in H.
  destruct (step (c1, ctr1) (SStrand dummy name items len)) as [[c2 ctr2]|] eqn:ST; [|discriminate]. cbn [bind] in H.
  destruct (steps (c2, ctr2) post) as [[c3 ctr3]|] eqn:S3; [|discriminate]. cbn [bind fst snd] in H.
  destruct (add_IO c3 d) as [c4|] eqn:IO; [|discriminate]. cbn [bind] in H. injection H as H1 H2. subst c4 ctr3.
  pose proof (keeps_trans _ _ _ (steps_keeps _ _ _ _ _ S3) (add_IO_keeps _ _ _ IO)) as K.
  cbn [step] in ST. unfold add_strand in ST. destruct (ahas (c_strands c1) name) eqn:D; [discriminate|].
  destruct (clean_const c1 items) as [const|] eqn:CC; [|discriminate]. cbn [bind] in ST.
  destruct (build_super c1 ctr1 const len) as [[[s anons] ctr1']|] eqn:BS; [|discriminate]. cbn [bind] in ST.
  destruct (Nat.eqb (s_len s) 0); [discriminate|]. injection ST as E1 E2. subst c2 ctr2.
  exists c1, ctr1, {| t_sup := s; t_dummy := dummy |}. split; [reflexivity|]. split.
  - apply (k_strands _ _ K). cbn [c_strands]. rewrite afind_app.
    unfold ahas in D. destruct (afind (c_strands c1) name); [discriminate|]. simpl. rewrite String.eqb_refl. reflexivity.
  - split; [reflexivity|]. cbn [t_sup]. rewrite <- (clean_const_is_spec c1 items const CC).
    split; [apply (build_super_seqs c1 ctr1 const len s anons ctr1' BS)|].
    intros L ->. unfold build_super in BS. destruct (bs_loop c1 const _) as [q|]; [|discriminate]. cbn [bind] in BS.
    destruct (q_wild q) as [[[i j] ps]|].
    + destruct (Nat.ltb L (q_len q)) eqn:LT; [discriminate|]. apply Nat.ltb_ge in LT.
      destruct (get_length_const (Some (L - q_len q)) ps) as [l k| |k] eqn:G; try discriminate.
      inversion BS; subst. cbn [s_len]. unfold get_length_const in G.
      destruct (count_wild ps) as [|[|n]]; try discriminate.
      * destruct (Nat.eqb (L - q_len q) (sum_nums ps)); inversion G; subst; lia.
      * destruct (Nat.ltb (L - q_len q) (sum_nums ps)); inversion G; subst; lia.
    + destruct (Nat.eqb L (q_len q)) eqn:Q; [|discriminate]. inversion BS; subst. cbn [s_len]. apply Nat.eqb_eq in Q. lia. Qed.

(* the same for a super-sequence statement (more than one item, or one item that is not a quoted region) *)
Definition composite_items (items : list item) : bool :=
  match items with [INuc _] => false | _ => true end.

Theorem compile_sup_written ctr prefix d pre name items len post c ctr' : composite_items items = true ->
  compile_comp ctr prefix d (pre ++ SSeq name items len :: post) = OK (c, ctr') ->
  exists c1 ctr1 s, steps (empty_comp prefix, ctr) pre = OK (c1, ctr1) /\
    afind (c_sups c) name = Some s /\
    s_seqs s = spec_seqs (anon_name (ctr1 + count_plain (clean_spec c1 items))) (clean_spec c1 items) ctr1.
Proof. intros CI H. unfold compile_comp in H. rewrite steps_app in H.
  destruct (steps (empty_comp prefix, ctr) pre) as [[c1 ctr1]|] eqn:S1; [|discriminate]. cbn [bind steps] in H.
  destruct (step (c1, ctr1) (SSeq name items len)) as [[c2 ctr2]|] eqn:ST; [|discriminate]. cbn [bind] in H.
  destruct (steps (c2, ctr2) post) as [[c3 ctr3]|] eqn:S3; [|discriminate]. cbn [bind fst snd] in H.
  destruct (add_IO c3 d) as [c4|] eqn:IO; [|discriminate]. cbn [bind] in H. injection H as H1 H2. subst c4 ctr3.
  pose proof (keeps_trans _ _ _ (steps_keeps _ _ _ _ _ S3) (add_IO_keeps _ _ _ IO)) as K.
  assert (ST' : add_super_sequence c1 ctr1 name items len = OK (c2, ctr2)).
  { cbn [step] in ST. destruct items as [|[ps|n r|n r] [|it2 items]]; try exact ST. discriminate. }
  clear ST. unfold add_super_sequence in ST'. destruct (is_anon name); [discriminate|]. destruct (seq_defined c1 name) eqn:D; [discriminate|]. destruct (ahas (c_structs c1) name); [discriminate|].
  destruct (clean_const c1 items) as [const|] eqn:CC; [|discriminate]. cbn [bind] in ST'.
  destruct (build_super c1 ctr1 const len) as [[[s anons] ctr1']|] eqn:BS; [|discriminate]. cbn [bind] in ST'.
  injection ST' as E1 E2. subst c2 ctr2.
  exists c1, ctr1, s. split; [reflexivity|]. split.
  - apply (k_sups _ _ K). cbn [c_sups]. rewrite afind_app.
    unfold seq_defined in D. apply orb_false_iff in D. destruct D as [_ D]. unfold ahas in D.
    destruct (afind (c_sups c1) name); [discriminate|]. simpl. rewrite String.eqb_refl. reflexivity.
  - rewrite <- (clean_const_is_spec c1 items const CC). apply (build_super_seqs c1 ctr1 const len s anons ctr1' BS). Qed.

(* a plain sequence statement: its length and constraint string are what the quoted region says *)
Theorem compile_seq_written ctr prefix d pre name ps len post c ctr' :
  compile_comp ctr prefix d (pre ++ SSeq name [INuc ps] len :: post) = OK (c, ctr') ->
  exists l k, get_length_const len ps = WOk l k /\
    afind (c_bases c) name = Some {| b_len := l; b_const := k; b_anon := false |}.
Proof. intros H. unfold compile_comp in H. rewrite steps_app in H.
  destruct (steps (empty_comp prefix, ctr) pre) as [[c1 ctr1]|] eqn:S1; [|discriminate]. cbn [bind steps] in H.
  destruct (step (c1, ctr1) (SSeq name [INuc ps] len)) as [[c2 ctr2]|] eqn:ST; [|discriminate]. cbn [bind] in H.
  destruct (steps (c2, ctr2) post) as [[c3 ctr3]|] eqn:S3; [|discriminate]. cbn [bind fst snd] in H.
  destruct (add_IO c3 d) as [c4|] eqn:IO; [|discriminate]. cbn [bind] in H. injection H as H1 H2. subst c4 ctr3.
  pose proof (keeps_trans _ _ _ (steps_keeps _ _ _ _ _ S3) (add_IO_keeps _ _ _ IO)) as K.
  cbn [step] in ST. destruct (add_sequence c1 name ps len) as [c1'|] eqn:A; [|discriminate]. cbn [bind] in ST.
  injection ST as E1 E2. subst c1' ctr2. unfold add_sequence in A. destruct (is_anon name); [discriminate|]. destruct (seq_defined c1 name) eqn:D; [discriminate|]. destruct (ahas (c_structs c1) name); [discriminate|].
  destruct (get_length_const len ps) as [l k| |k]; try discriminate. injection A as A. subst c2.
  exists l, k. split; [reflexivity|]. apply (k_bases _ _ K). cbn [set_bases c_bases]. rewrite afind_app.
  unfold seq_defined in D. apply orb_false_iff in D. destruct D as [D _]. unfold ahas in D.
  destruct (afind (c_bases c1) name); [discriminate|]. simpl. rewrite String.eqb_refl. reflexivity. Qed.

(* a structure statement: strand order, optimisation flag and nucleotide-level target *)
Theorem compile_struct_written ctr prefix d pre opt name names domain sn post c ctr' :
  compile_comp ctr prefix d (pre ++ SStruct opt name names domain sn :: post) = OK (c, ctr') ->
  exists c1 ctr1 s0 ts u, steps (empty_comp prefix, ctr) pre = OK (c1, ctr1) /\ compile_snot sn = OK s0 /\
    find_strands c1 names = OK ts /\ afind (c_structs c) name = Some u /\
    u_opt u = opt /\ u_strands u = names /\
    (if domain then domain_expand s0 (map (fun t => map (ref_len c1) (s_seqs (t_sup t))) ts) else OK s0) = OK (u_struct u).
Proof. intros H. unfold compile_comp in H. rewrite steps_app in H.
  destruct (steps (empty_comp prefix, ctr) pre) as [[c1 ctr1]|] eqn:S1; [|discriminate]. cbn [bind steps] in H.
  destruct (step (c1, ctr1) (SStruct opt name names domain sn)) as [[c2 ctr2]|] eqn:ST; [|discriminate]. cbn [bind] in H.
  destruct (steps (c2, ctr2) post) as [[c3 ctr3]|] eqn:S3; [|discriminate]. cbn [bind fst snd] in H.
  destruct (add_IO c3 d) as [c4|] eqn:IO; [|discriminate]. cbn [bind] in H. injection H as H1 H2. subst c4 ctr3.
  pose proof (keeps_trans _ _ _ (steps_keeps _ _ _ _ _ S3) (add_IO_keeps _ _ _ IO)) as K.
  cbn [step] in ST. destruct (compile_snot sn) as [s0|] eqn:CS; [|discriminate]. cbn [bind] in ST.
  destruct (add_structure c1 opt name names domain s0) as [c1'|] eqn:A; [|discriminate]. cbn [bind] in ST.
  injection ST as E1 E2. subst c1' ctr2. unfold add_structure in A. destruct (ahas (c_structs c1) name) eqn:D; [discriminate|]. destruct (is_anon name); [discriminate|]. destruct (seq_defined c1 name); [discriminate|].
  destruct (find_strands c1 names) as [ts|] eqn:FS; [|discriminate]. cbn [bind] in A.
  match type of A with (do s <- ?e; _) = _ => destruct e as [s|] eqn:DE; [|discriminate] end. cbn [bind] in A.
  destruct (structure_ok s _); [|discriminate]. injection A as A. subst c2.
  exists c1, ctr1, s0, ts, {| u_opt := opt; u_strands := names; u_struct := s |}.
  split; [reflexivity|]. split; [reflexivity|]. split; [exact FS|]. split.
  - apply (k_structs _ _ K). cbn [c_structs]. rewrite afind_app. unfold ahas in D.
    destruct (afind (c_structs c1) name); [discriminate|]. simpl. rewrite String.eqb_refl. reflexivity.
  - cbn [u_opt u_strands u_struct]. split; [reflexivity|]. split; [reflexivity|]. exact DE. Qed.

(* kinetic statements are kept in written order *)
Theorem compile_kin_written ctr prefix d pre low high ins0 outs post c ctr' :
  compile_comp ctr prefix d (pre ++ SKin low high ins0 outs :: post) = OK (c, ctr') ->
  exists K1 K2, c_kins c = K1 ++ {| k_low := low; k_high := high; k_ins := ins0; k_outs := outs |} :: K2.
Proof. intros H. unfold compile_comp in H. rewrite steps_app in H.
  destruct (steps (empty_comp prefix, ctr) pre) as [[c1 ctr1]|] eqn:S1; [|discriminate]. cbn [bind steps] in H.
  destruct (step (c1, ctr1) (SKin low high ins0 outs)) as [[c2 ctr2]|] eqn:ST; [|discriminate]. cbn [bind] in H.
  destruct (steps (c2, ctr2) post) as [[c3 ctr3]|] eqn:S3; [|discriminate]. cbn [bind fst snd] in H.
  destruct (add_IO c3 d) as [c4|] eqn:IO; [|discriminate]. cbn [bind] in H. injection H as H1 H2. subst c4 ctr3.
  destruct (k_kins _ _ (keeps_trans _ _ _ (steps_keeps _ _ _ _ _ S3) (add_IO_keeps _ _ _ IO))) as [K2 E].
  cbn [step] in ST. destruct (add_kinetic c1 low high ins0 outs) as [c1'|] eqn:A; [|discriminate]. cbn [bind] in ST.
  injection ST as E1 E2. subst c1' ctr2. unfold add_kinetic in A. destruct (_ && _); [|discriminate]. injection A as A. subst c2.
  cbn [c_kins] in E. exists (c_kins c1), K2. rewrite E, <- app_assoc. reflexivity. Qed.

(* ---- C10, composite case: the '?' region takes exactly what the other items leave ---- *)
Definition all_plain (items : list citem) : Prop := forall ps, In (CNuc ps) items -> count_wild ps = 0.
Definition setw (q : bstate) (w : option (nat * nat * list part)) : bstate :=
  {| q_seqs := q_seqs q; q_base := q_base q; q_len := q_len q; q_wild := w; q_anons := q_anons q; q_ctr := q_ctr q |}.

Lemma bs_loop_setw c w : forall items q, all_plain items ->
  bs_loop c items (setw q w) = match bs_loop c items q with OK q' => OK (setw q' w) | Err k => Err k end.
Proof. induction items as [|it items IH]; intros q AP; [reflexivity|].
  assert (AP' : all_plain items) by (intros ps H; apply AP; right; exact H).
  destruct it as [x|ps]; cbn [bs_loop].
  - exact (IH {| q_seqs := q_seqs q ++ [x]; q_base := q_base q ++ ref_base c x; q_len := q_len q + ref_len c x;
                 q_wild := q_wild q; q_anons := q_anons q; q_ctr := q_ctr q |} AP').
  - rewrite glc_none, (AP ps (or_introl eq_refl)).
    exact (IH {| q_seqs := q_seqs q ++ [RB (anon_name (q_ctr q)) false]; q_base := q_base q ++ [(anon_name (q_ctr q), false)];
                 q_len := q_len q + sum_nums ps; q_wild := q_wild q;
                 q_anons := q_anons q ++ [(anon_name (q_ctr q), {| b_len := sum_nums ps; b_const := build_const 0 ps; b_anon := true |})];
                 q_ctr := S (q_ctr q) |} AP'). Qed.

Lemma bs_loop_plain_wild c : forall items q q', all_plain items -> bs_loop c items q = OK q' -> q_wild q' = q_wild q.
Proof. induction items as [|it items IH]; intros q q' AP H; cbn [bs_loop] in H; [inversion H; reflexivity|].
  assert (AP' : all_plain items) by (intros ps Hp; apply AP; right; exact Hp).
  destruct it as [x|ps].
  - apply (IH _ _ AP' H).
  - rewrite glc_none, (AP ps (or_introl eq_refl)) in H. apply (IH _ _ AP' H). Qed.

Lemma bs_loop_plain_of_some c : forall items q q' w, q_wild q = Some w -> bs_loop c items q = OK q' -> all_plain items.
Proof. induction items as [|it items IH]; intros q q' w W H; [intros ps []|]. cbn [bs_loop] in H. destruct it as [x|ps].
  - intros ps [Q|Hp]; [discriminate|]. refine (IH _ q' w _ H ps Hp). exact W.
  - rewrite glc_none in H. destruct (count_wild ps) as [|[|n]] eqn:CW.
    + intros ps' [Q|Hp]; [inversion Q; subst; exact CW|]. refine (IH _ q' w _ H ps' Hp). exact W.
    + rewrite W in H. discriminate.
    + discriminate. Qed.

Lemma bs_loop_plain_of_none c : forall items q q', bs_loop c items q = OK q' -> q_wild q' = None -> all_plain items.
Proof. induction items as [|it items IH]; intros q q' H N; [intros ps []|]. cbn [bs_loop] in H. destruct it as [x|ps].
  - intros ps [Q|Hp]; [discriminate|]. apply (IH _ q' H N ps Hp).
  - rewrite glc_none in H. destruct (count_wild ps) as [|[|n]] eqn:CW.
    + intros ps' [Q|Hp]; [inversion Q; subst; exact CW|]. apply (IH _ q' H N ps' Hp).
    + destruct (q_wild q); [discriminate|]. destruct (bs_loop_extends _ _ _ _ H) as [_ [_ [_ [_ C]]]].
      cbn [q_wild] in C. rewrite (C _ eq_refl) in N. discriminate.
    + discriminate. Qed.

Theorem composite_wild_exact c ctr pre ps post L s anons ctr' : count_wild ps = 1 ->
  build_super c ctr (pre ++ CNuc ps :: post) (Some L) = OK (s, anons, ctr') ->
  exists s0 anons0 ctr0 l, build_super c ctr (pre ++ post) None = OK (s0, anons0, ctr0) /\
    s_len s0 + l = L /\ sum_nums ps <= l /\ s_len s = L /\ ctr' = S ctr0 /\
    anons = anons0 ++ [(anon_name ctr0, {| b_len := l; b_const := build_const (l - sum_nums ps) ps; b_anon := true |})].
Proof. intros CW H. unfold build_super in *. rewrite bs_loop_app in H. rewrite bs_loop_app.
  destruct (bs_loop c pre _) as [q1|k] eqn:B1; [|discriminate]. cbn [bind bs_loop] in H. cbn [bind].
  rewrite glc_none, CW in H. destruct (q_wild q1) as [w|] eqn:W1; [discriminate|].
  match type of H with context [bs_loop c post ?q] => change q with (setw q1 (Some (List.length (q_seqs q1), List.length (q_base q1), ps))) in H end.
  destruct (bs_loop c post (setw q1 _)) as [q2|k] eqn:B2; [|discriminate]. cbn [bind] in H.
  pose proof (fun W => bs_loop_plain_of_some c post _ q2 (List.length (q_seqs q1), List.length (q_base q1), ps) W B2) as AP.
  specialize (AP eq_refl).
  rewrite (bs_loop_setw c _ post q1 AP) in B2. destruct (bs_loop c post q1) as [q2'|k] eqn:B2'; [|discriminate].
  inversion B2; subst q2. clear B2. cbn [setw q_wild q_len q_seqs q_base q_anons q_ctr] in H.
  cbn [bind]. rewrite (bs_loop_plain_wild c post q1 q2' AP B2'), W1.
  destruct (Nat.ltb L (q_len q2')) eqn:LT; [discriminate|]. apply Nat.ltb_ge in LT.
  unfold get_length_const in H. rewrite CW in H.
  destruct (Nat.ltb (L - q_len q2') (sum_nums ps)) eqn:LT2; [discriminate|]. apply Nat.ltb_ge in LT2.
  inversion H; subst s anons ctr'. eexists _, _, _, (L - q_len q2'). split; [reflexivity|]. cbn [s_len].
  repeat split; lia. Qed.
