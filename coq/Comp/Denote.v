(* Denotations (the specification side of C01/C14): nucleotides, flattening of base-reference
   lists, and the meaning of an emitted PIL document obtained by resolving names through its
   own earlier definitions (as the PIL reader does). *)
From Coq Require Import List String Ascii Arith Bool.
From PC Require Import Comp.Syntax Comp.Compile.
Import ListNotations.
Local Open Scope list_scope.

(* a nucleotide: (domain name, offset, reversed) *)
Definition nt := (string * nat * bool)%type.
Definition flipnt (x : nt) : nt := (fst (fst x), snd (fst x), negb (snd x)).
Definition rc (l : list nt) : list nt := map flipnt (rev l).
Definition dom_nts (n : string) (len : nat) : list nt := map (fun i => (n, i, false)) (seq 0 len).

(* the nucleotides of a list of base references of a component *)
Definition flat_bref (c : comp) (x : bref) : list nt :=
  let d := dom_nts (c_prefix c +++ fst x) (base_len (c_bases c) (fst x)) in
  if snd x then rc d else d.
Definition flatB (c : comp) (l : list bref) : list nt := flat_map (flat_bref c) l.

(* meaning of PIL definitions: name -> nucleotides, built line by line *)
Definition penv := list (string * list nt).
Fixpoint resolve_items (env : penv) (items : list (string * bool)) : option (list nt) :=
  match items with
  | [] => Some []
  | (n, star) :: r =>
      match afind env n, resolve_items env r with
      | Some v, Some rest => Some ((if star then rc v else v) ++ rest)
      | _, _ => None
      end
  end.
(* sequences and sup-sequences extend the environment; None = unresolved or duplicate name *)
Fixpoint pil_defs (lines : list pline) (env : penv) : option penv :=
  match lines with
  | [] => Some env
  | PSeq n k _ :: r => if ahas env n then None else pil_defs r (env ++ [(n, dom_nts n (List.length k))])
  | PSup n items _ :: r =>
      if ahas env n then None else
      match resolve_items env items with
      | Some v => pil_defs r (env ++ [(n, v)])
      | None => None
      end
  | _ :: r => pil_defs r env
  end.
(* strands of a document, resolved in the final environment *)
Fixpoint pil_strands (lines : list pline) (env : penv) : list (string * bool * option (list nt) * nat) :=
  match lines with
  | [] => []
  | PStrand d n items len :: r => (n, d, resolve_items env items, len) :: pil_strands r env
  | _ :: r => pil_strands r env
  end.
