(* Model of the secondary-structure notations (C08):
   HU2dotParen.HU2dotParen / extended2dotParen / dotParen2HU, the acceptance test of
   DotParen_grammar (balanced parentheses, strand breaks anywhere), and the domain-level
   expansion + balance re-check + per-strand checks of Component.add_structure /
   Structure.__init__.  Token/tree level: pyparsing's lexing is covered by correspondence. *)
From Coq Require Import List String Ascii Arith Bool.
From PC Require Import Comp.Syntax.
Import ListNotations.
Local Open Scope string_scope.
Local Open Scope list_scope.

(* --- HU expansion (HU2dotParen.expand) --- *)
Fixpoint expand_t (t : huterm) : list sym :=
  match t with
  | HPlus => [Plus]
  | HU n => repeat Dot n
  | HH n body =>
      repeat Open n ++
      (fix ex (l : list huterm) : list sym := match l with [] => [] | x :: r => expand_t x ++ ex r end) body
      ++ repeat Close n
  end.
Fixpoint expand (l : list huterm) : list sym :=
  match l with [] => [] | x :: r => expand_t x ++ expand r end.

(* --- DotParen_grammar acceptance: parentheses balance; '+' and '.' are free --- *)
Fixpoint bal (d : nat) (l : list sym) : bool :=
  match l with
  | [] => Nat.eqb d 0
  | Open :: r => bal (S d) r
  | Close :: r => match d with O => false | S d' => bal d' r end
  | _ :: r => bal d r
  end.
Definition balanced (l : list sym) : bool := bal 0 l.

(* --- extended (run-length) dot-paren --- *)
Fixpoint flatten_ext (l : list (nat * sym)) : list sym :=
  match l with [] => [] | (n, s) :: r => repeat s n ++ flatten_ext r end.
Definition ext2dp (l : list (nat * sym)) : res (list sym) :=
  let s := flatten_ext l in if balanced s then OK s else Err "parens".

Definition compile_snot (n : snot) : res (list sym) :=
  match n with NHU t => OK (expand t) | NExt l => ext2dp l end.

(* --- split at strand breaks (str.split("+")) --- *)
Fixpoint split_plus_aux (cur : list sym) (l : list sym) : list (list sym) :=
  match l with
  | [] => [rev cur]
  | Plus :: r => rev cur :: split_plus_aux [] r
  | x :: r => split_plus_aux (x :: cur) r
  end.
Definition split_plus (l : list sym) : list (list sym) := split_plus_aux [] l.

Fixpoint join_plus (ls : list (list sym)) : list sym :=
  match ls with [] => [] | [x] => x | x :: r => x ++ Plus :: join_plus r end.

(* --- domain-level expansion (Component.add_structure, domain branch) ---
   [doms] gives, per strand, the lengths of its top-level items (strand.seqs). *)
Fixpoint expand_doms (sub : list sym) (lens : list nat) : list sym :=
  match sub, lens with
  | s :: sr, n :: nr => repeat s n ++ expand_doms sr nr
  | _, _ => []
  end.
Fixpoint expand_strands (subs : list (list sym)) (doms : list (list nat)) : res (list (list sym)) :=
  match subs, doms with
  | [], [] => OK []
  | sub :: sr, lens :: dr =>
      if Nat.eqb (List.length sub) (List.length lens) then
        match expand_strands sr dr with OK rest => OK (expand_doms sub lens :: rest) | Err k => Err k end
      else Err "domain-count"
  | _, _ => Err "strand-count"
  end.
Definition domain_expand (s : list sym) (doms : list (list nat)) : res (list sym) :=
  let subs := split_plus s in
  if Nat.eqb (List.length subs) (List.length doms) then
    match expand_strands subs doms with
    | OK segs => let full := join_plus segs in
                 if balanced full then OK full else Err "parens-after-expansion"
    | Err k => Err k
    end
  else Err "strand-count".

(* --- Structure.__init__: one segment per strand, each of the strand's length --- *)
Fixpoint seg_lengths_ok (segs : list (list sym)) (lens : list nat) : bool :=
  match segs, lens with
  | [], [] => true
  | s :: sr, n :: nr => Nat.eqb (List.length s) n && seg_lengths_ok sr nr
  | _, _ => false
  end.
Definition structure_ok (s : list sym) (strand_lens : list nat) : bool :=
  seg_lengths_ok (split_plus s) strand_lens.

(* --- dotParen2HU on the parse tree of DotParen_grammar --- *)
Inductive dnode := DPlus | DDot | DPar (body : list dnode).

Fixpoint unparse_n (n : dnode) : list sym :=
  match n with
  | DPlus => [Plus]
  | DDot => [Dot]
  | DPar b => Open :: (fix up (l : list dnode) : list sym :=
                         match l with [] => [] | x :: r => unparse_n x ++ up r end) b ++ [Close]
  end.
Fixpoint unparse (l : list dnode) : list sym :=
  match l with [] => [] | x :: r => unparse_n x ++ unparse r end.

Definition flush (pend : nat) (rest : list huterm) : list huterm :=
  match pend with O => rest | _ => HU pend :: rest end.

(* res_node k n : n is a paren group of which k enclosing single-child parens were already
   counted (count_parens); consecutive dots are counted by [pend] (count_dots). *)
Fixpoint res_node (k : nat) (n : dnode) : huterm :=
  match n with
  | DPar [DPar _ as inner] => res_node (S k) inner
  | DPar b =>
      HH (S k) ((fix go (pend : nat) (l : list dnode) : list huterm :=
                   match l with
                   | [] => flush pend []
                   | DDot :: r => go (S pend) r
                   | DPlus :: r => flush pend (HPlus :: go 0 r)
                   | (DPar _ as x) :: r => flush pend (res_node 0 x :: go 0 r)
                   end) 0 b)
  | DPlus => HPlus
  | DDot => HU 1
  end.
Fixpoint resolve_go (pend : nat) (l : list dnode) : list huterm :=
  match l with
  | [] => flush pend []
  | DDot :: r => resolve_go (S pend) r
  | DPlus :: r => flush pend (HPlus :: resolve_go 0 r)
  | (DPar _ as x) :: r => flush pend (res_node 0 x :: resolve_go 0 r)
  end.
Definition dp2hu (l : list dnode) : list huterm := resolve_go 0 l.

(* parser of DotParen_grammar into the tree (fuelled by the input length) *)
Fixpoint parse_dp (fuel : nat) (l : list sym) : option (list dnode * list sym) :=
  match fuel with
  | O => None
  | S f =>
      match l with
      | [] => Some ([], [])
      | Close :: _ => Some ([], l)
      | Dot :: r => match parse_dp f r with Some (t, rest) => Some (DDot :: t, rest) | None => None end
      | Plus :: r => match parse_dp f r with Some (t, rest) => Some (DPlus :: t, rest) | None => None end
      | Open :: r =>
          match parse_dp f r with
          | Some (body, Close :: rest) =>
              match parse_dp f rest with Some (t, rest') => Some (DPar body :: t, rest') | None => None end
          | _ => None
          end
      end
  end.
Definition parse_tree (l : list sym) : option (list dnode) :=
  match parse_dp (S (List.length l)) l with Some (t, []) => Some t | _ => None end.
