(* C01 / C09 / C14: every component object the compile model produces satisfies the invariants
   WF and WF2 (hypothesis: user identifiers are not of the reserved form _Anon<digits>). *)
From Coq Require Import List String Ascii Arith Bool Lia DecimalString DecimalNat Decimal.
From PC Require Import Comp.Syntax Comp.Struct Comp.StructProofs Comp.Wild Comp.WildProofs Comp.Compile Comp.Denote
  Comp.EmitProofs Comp.WfCheck Comp.WfPil Hist.Purity.
Import ListNotations.
Local Open Scope list_scope.

Lemma glc_length len ps l k : get_length_const len ps = WOk l k -> List.length k = l.
Proof. unfold get_length_const. destruct (count_wild ps) as [|[|n]] eqn:C.
  - destruct len as [L|].
    + destruct (Nat.eqb L (sum_nums ps)) eqn:E; intros H; inversion H; subst.
      rewrite build_const_length, C. apply Nat.eqb_eq in E. lia.
    + intros H. inversion H; subst. rewrite build_const_length, C. lia.
  - destruct len as [L|]; [|discriminate].
    destruct (Nat.ltb L (sum_nums ps)) eqn:E; intros H; inversion H; subst.
    apply Nat.ltb_ge in E. rewrite build_const_length, C. lia.
  - discriminate. Qed.

Lemma ahas_app {V} (t1 t2 : list (string * V)) k : ahas (t1 ++ t2) k = ahas t1 k || ahas t2 k.
Proof. unfold ahas. rewrite afind_app. destruct (afind t1 k); reflexivity. Qed.
Lemma ahas_true_In {V} (t : list (string * V)) k : ahas t k = true <-> In k (map fst t).
Proof. split; [apply ahas_In|]. intros H. unfold ahas. destruct (afind t k) eqn:E; [reflexivity|].
  exfalso. induction t as [|[k' v] t IH]; simpl in *; [exact H|].
  destruct (String.eqb k' k) eqn:Q; [discriminate|]. destruct H as [H|H]; [subst; rewrite String.eqb_refl in Q; discriminate | auto]. Qed.

(* ---- c' extends c: same prefix, old bases and old super-sequences keep their entries ---- *)
Record ext (c c' : comp) : Prop := {
  ext_prefix : c_prefix c' = c_prefix c;
  ext_bases : forall m, ahas (c_bases c) m = true -> afind (c_bases c') m = afind (c_bases c) m;
  ext_sups : forall m, ahas (c_sups c) m = true -> afind (c_sups c') m = afind (c_sups c) m }.

Lemma ext_refl c : ext c c. Proof. constructor; auto. Qed.

Lemma ext_ahas_bases c c' m : ext c c' -> ahas (c_bases c) m = true -> ahas (c_bases c') m = true.
Proof. intros E H. unfold ahas in *. rewrite (ext_bases c c' E m H). exact H. Qed.
Lemma ext_ahas_sups c c' m : ext c c' -> ahas (c_sups c) m = true -> ahas (c_sups c') m = true.
Proof. intros E H. unfold ahas in *. rewrite (ext_sups c c' E m); [exact H | exact H]. Qed.

Lemma flat_bref_ext c c' x : ext c c' -> ahas (c_bases c) (fst x) = true -> flat_bref c' x = flat_bref c x.
Proof. intros E H. unfold flat_bref, base_len. rewrite (ext_prefix c c' E), (ext_bases c c' E _ H). reflexivity. Qed.
Lemma flatB_ext c c' l : ext c c' -> (forall x, In x l -> ahas (c_bases c) (fst x) = true) -> flatB c' l = flatB c l.
Proof. intros E H. unfold flatB. induction l as [|x l IH]; simpl; [reflexivity|].
  rewrite (flat_bref_ext c c' x E (H x (or_introl eq_refl))), IH; [reflexivity | intros y Hy; apply H; right; exact Hy]. Qed.

Lemma ref_base_ext c c' before x : ext c c' -> (forall m, ahas before m = true -> ahas (c_sups c) m = true) ->
  ref_ok c before x -> ref_base c' x = ref_base c x.
Proof. intros E HB H. destruct x as [n r|n r]; simpl in *; [reflexivity|].
  rewrite (ext_sups c c' E n (HB n H)). reflexivity. Qed.

(* the invariant of one object survives an extension of the component (and a longer [before]) *)
Lemma sup_ok_ext c c' before before' s : ext c c' ->
  (forall m, ahas before m = true -> ahas (c_sups c) m = true) ->
  (forall m, ahas before m = true -> ahas before' m = true) ->
  sup_ok c before s -> sup_ok c' before' s.
Proof. intros E HB HB' [R B L D]. constructor.
  - intros x Hx. specialize (R x Hx). destruct x as [n r|n r]; simpl in *; [apply (ext_ahas_bases c c' n E R) | apply HB', R].
  - rewrite B. clear -E HB R. induction (s_seqs s) as [|x l IH]; simpl; [reflexivity|].
    rewrite (ref_base_ext c c' before x E HB (R x (or_introl eq_refl))), IH; [reflexivity | intros y Hy; apply R; right; exact Hy].
  - rewrite (flatB_ext c c' _ E D). exact L.
  - intros x Hx. apply (ext_ahas_bases c c' _ E), D, Hx. Qed.

(* ---- references produced by clean_const are defined ---- *)
Definition ref_defined (c : comp) (x : ref) : Prop :=
  match x with RB m _ => ahas (c_bases c) m = true | RS m _ => ahas (c_sups c) m = true end.
Lemma ref_defined_flip c x : ref_defined c x -> ref_defined c (rflip x).
Proof. destruct x; simpl; auto. Qed.

Lemma sup_refs_defined c : WF c -> forall n s, afind (c_sups c) n = Some s -> forall x, In x (s_seqs s) -> ref_defined c x.
Proof. intros W n s H x Hx. apply afind_Some_In in H. destruct (in_split _ _ H) as [pre [post E]].
  pose proof (so_refs _ _ _ (wf_sups c W pre n s post E) x Hx) as R.
  destruct x as [m r|m r]; simpl in *; [exact R|].
  apply ahas_true_In. rewrite E, map_app. apply in_or_app. left. apply ahas_true_In, R. Qed.

Lemma clean_const_spec c : WF c -> forall src items, clean_const c src = OK items ->
  forall x, In (CRef x) items -> ref_defined c x.
Proof. intros W. induction src as [|it src IH]; intros items H x Hx; simpl in H.
  - inversion H; subst. destruct Hx.
  - destruct it as [ps|n star|n star].
    + destruct (clean_const c src) as [r|]; [|discriminate]. simpl in H. inversion H; subst.
      destruct Hx as [Hx|Hx]; [discriminate | apply (IH r eq_refl x Hx)].
    + destruct (is_anon n); [discriminate|]. destruct (ahas (c_bases c) n) eqn:A.
      * destruct (clean_const c src) as [r|]; [|discriminate]. simpl in H. inversion H; subst.
        destruct Hx as [Hx|Hx]; [inversion Hx; subst; exact A | apply (IH r eq_refl x Hx)].
      * destruct (ahas (c_sups c) n) eqn:B; [|discriminate].
        destruct (clean_const c src) as [r|]; [|discriminate]. simpl in H. inversion H; subst.
        destruct Hx as [Hx|Hx]; [inversion Hx; subst; exact B | apply (IH r eq_refl x Hx)].
    + destruct (is_anon n); [discriminate|]. unfold ref_seqs in H. destruct (afind (c_sups c) n) as [s|] eqn:F; [|discriminate].
      destruct (clean_const c src) as [r|]; [|discriminate]. simpl in H. inversion H; subst.
      apply in_app_or in Hx. destruct Hx as [Hx|Hx]; [|apply (IH r eq_refl x Hx)].
      apply in_map_iff in Hx. destruct Hx as [y [E Hy]]. inversion E; subst.
      destruct star.
      * unfold rc_refs in Hy. apply in_map_iff in Hy. destruct Hy as [z [<- Hz]]. apply in_rev in Hz.
        apply ref_defined_flip. apply (sup_refs_defined c W n s F z Hz).
      * apply (sup_refs_defined c W n s F x Hy). Qed.

(* ---- length of a reference, looking at the old bases first and then at the new anonymous ones ---- *)
Definition rlen (c : comp) (anons : list (string * bseq)) (x : ref) : nat :=
  match x with
  | RB m _ => match afind (c_bases c) m with
              | Some b => b_len b
              | None => match afind anons m with Some b => b_len b | None => 0 end
              end
  | RS m _ => match afind (c_sups c) m with Some s => s_len s | None => 0 end
  end.
Fixpoint sum_list (l : list nat) : nat := match l with [] => 0 | x :: r => x + sum_list r end.
Lemma sum_list_app a b : sum_list (a ++ b) = sum_list a + sum_list b.
Proof. induction a as [|x a IH]; simpl; [reflexivity | rewrite IH; lia]. Qed.

Definition anon_names (ctr n : nat) : list string := map anon_name (seq ctr n).

Record qinv (c : comp) (ctr : nat) (q : bstate) : Prop := {
  q1 : ctr <= q_ctr q;
  q2 : map fst (q_anons q) = anon_names ctr (q_ctr q - ctr);
  q3 : forall n b, In (n, b) (q_anons q) -> List.length (b_const b) = b_len b;
  q4 : forall x, In x (q_seqs q) -> ref_defined c x \/ (exists m, x = RB m false /\ In m (map fst (q_anons q)));
  q5 : forall n, In n (map fst (q_anons q)) -> In (RB n false) (q_seqs q);
  q6 : q_base q = flat_map (ref_base c) (q_seqs q);
  q7 : q_len q = sum_list (map (rlen c (q_anons q)) (q_seqs q));
  q8 : forall i j ps, q_wild q = Some (i, j, ps) -> count_wild ps = 1 /\
         exists s1 s2, q_seqs q = s1 ++ s2 /\ i = List.length s1 /\ j = List.length (flat_map (ref_base c) s1) }.

Definition fresh_from (c : comp) (ctr : nat) : Prop :=
  forall k, ctr <= k -> ahas (c_bases c) (anon_name k) = false /\ ahas (c_sups c) (anon_name k) = false.

Lemma anon_names_snoc ctr n : anon_names ctr (S n) = anon_names ctr n ++ [anon_name (ctr + n)].
Proof. unfold anon_names. rewrite seq_S, map_app. reflexivity. Qed.
Lemma anon_names_In ctr n m : In m (anon_names ctr n) <-> exists k, ctr <= k < ctr + n /\ m = anon_name k.
Proof. unfold anon_names. rewrite in_map_iff. split.
  - intros [k [E H]]. apply in_seq in H. exists k. split; [lia | auto].
  - intros [k [H E]]. exists k. split; [auto | apply in_seq; lia]. Qed.

Lemma In_fst_afind {V} (t : list (string * V)) k : In k (map fst t) -> exists v, afind t k = Some v.
Proof. intros H. apply ahas_true_In in H. unfold ahas in H. destruct (afind t k) as [v|]; [eauto | discriminate]. Qed.

Definition qref_ok (c : comp) (anons : list (string * bseq)) (x : ref) : Prop :=
  ref_defined c x \/ (exists m, x = RB m false /\ In m (map fst anons)).

Lemma rlen_app c a1 a2 x : qref_ok c a1 x -> rlen c (a1 ++ a2) x = rlen c a1 x.
Proof. intros H. destruct x as [m r|m r]; simpl; [|reflexivity].
  destruct (afind (c_bases c) m) eqn:F; [reflexivity|]. rewrite afind_app.
  destruct H as [H|[m' [E H]]].
  - simpl in H. unfold ahas in H. rewrite F in H. discriminate.
  - inversion E; subst. destruct (In_fst_afind _ _ H) as [v ->]. reflexivity. Qed.

Lemma rlen_defined c a x : ref_defined c x -> rlen c a x = ref_len c x.
Proof. destruct x as [m r|m r]; simpl; intros H; [|reflexivity].
  unfold base_len, ahas in *. destruct (afind (c_bases c) m); [reflexivity | discriminate]. Qed.

Lemma map_rlen_app c a1 a2 l : (forall x, In x l -> qref_ok c a1 x) -> map (rlen c (a1 ++ a2)) l = map (rlen c a1) l.
Proof. intros H. apply map_ext_in. intros x Hx. apply rlen_app, H, Hx. Qed.

Lemma qinv_step_ref c ctr q x : qinv c ctr q -> ref_defined c x ->
  qinv c ctr {| q_seqs := q_seqs q ++ [x]; q_base := q_base q ++ ref_base c x; q_len := q_len q + ref_len c x;
                q_wild := q_wild q; q_anons := q_anons q; q_ctr := q_ctr q |}.
Proof. intros [Q1 Q2 Q3 Q4 Q5 Q6 Q7 Q8] D. constructor; cbn [q_seqs q_base q_len q_wild q_anons q_ctr].
  - exact Q1.
  - exact Q2.
  - exact Q3.
  - intros y Hy. apply in_app_or in Hy. destruct Hy as [Hy|[<-|[]]]; [apply Q4, Hy | left; exact D].
  - intros n Hn. apply in_or_app. left. apply Q5, Hn.
  - rewrite flat_map_app, Q6. simpl. rewrite app_nil_r. reflexivity.
  - rewrite map_app, sum_list_app, Q7. simpl. rewrite (rlen_defined c _ x D). lia.
  - intros i j ps H. destruct (Q8 i j ps H) as [C [s1 [s2 [E [A B]]]]]. split; [exact C|].
    exists s1, (s2 ++ [x]). rewrite E, <- app_assoc. auto. Qed.

Lemma qinv_step_nuc c ctr q l k : qinv c ctr q -> fresh_from c ctr -> List.length k = l ->
  qinv c ctr {| q_seqs := q_seqs q ++ [RB (anon_name (q_ctr q)) false];
                q_base := q_base q ++ [(anon_name (q_ctr q), false)]; q_len := q_len q + l; q_wild := q_wild q;
                q_anons := q_anons q ++ [(anon_name (q_ctr q), {| b_len := l; b_const := k; b_anon := true |})];
                q_ctr := S (q_ctr q) |}.
Proof. intros [Q1 Q2 Q3 Q4 Q5 Q6 Q7 Q8] F L. constructor; cbn [q_seqs q_base q_len q_wild q_anons q_ctr].
  - lia.
  - rewrite map_app, Q2. cbn [map fst]. replace (S (q_ctr q) - ctr) with (S (q_ctr q - ctr)) by lia.
    rewrite anon_names_snoc. replace (ctr + (q_ctr q - ctr)) with (q_ctr q) by lia. reflexivity.
  - intros n b Hn. apply in_app_or in Hn. destruct Hn as [Hn|[E|[]]]; [apply (Q3 n b Hn) | inversion E; subst n b; exact L].
  - intros y Hy. apply in_app_or in Hy. destruct Hy as [Hy|[<-|[]]].
    + destruct (Q4 y Hy) as [H|[m [E H]]]; [left; exact H | right; exists m; split; [exact E|]].
      rewrite map_app. apply in_or_app. left. exact H.
    + right. exists (anon_name (q_ctr q)). split; [reflexivity|]. rewrite map_app. apply in_or_app. right. left. reflexivity.
  - intros n Hn. rewrite map_app in Hn. apply in_or_app. apply in_app_or in Hn. destruct Hn as [Hn|[<-|[]]].
    + left. apply Q5, Hn.
    + right. left. reflexivity.
  - rewrite flat_map_app, Q6. reflexivity.
  - rewrite map_app, sum_list_app. rewrite (map_rlen_app c _ _ _ Q4), <- Q7. simpl.
    destruct (F (q_ctr q) Q1) as [FB _]. unfold ahas in FB.
    destruct (afind (c_bases c) (anon_name (q_ctr q))); [discriminate|].
    rewrite afind_app. rewrite (afind_None (q_anons q)).
    + simpl. rewrite String.eqb_refl. simpl. lia.
    + rewrite Q2. intros H. apply anon_names_In in H. destruct H as [j [Hj E]].
      apply anon_name_injective in E. lia.
  - intros i j ps H. destruct (Q8 i j ps H) as [C [s1 [s2 [E [A B]]]]]. split; [exact C|].
    exists s1, (s2 ++ [RB (anon_name (q_ctr q)) false]). rewrite E, <- app_assoc. auto. Qed.

Lemma bs_loop_inv c ctr : fresh_from c ctr -> forall items q q', (forall x, In (CRef x) items -> ref_defined c x) ->
  qinv c ctr q -> bs_loop c items q = OK q' -> qinv c ctr q'.
Proof. intros F. induction items as [|it items IH]; intros q q' HD Q H; simpl in H.
  - inversion H; subst. exact Q.
  - assert (HD' : forall x, In (CRef x) items -> ref_defined c x) by (intros x Hx; apply HD; right; exact Hx).
    destruct it as [x|ps].
    + apply (IH _ _ HD' (qinv_step_ref c ctr q x Q (HD x (or_introl eq_refl))) H).
    + destruct (get_length_const None ps) as [l k| |k] eqn:G.
      * apply (IH _ _ HD' (qinv_step_nuc c ctr q l k Q F (glc_length _ _ _ _ G)) H).
      * destruct (q_wild q) eqn:W; [discriminate|].
        refine (IH _ _ HD' _ H). destruct Q as [Q1 Q2 Q3 Q4 Q5 Q6 Q7 Q8].
        constructor; cbn [q_seqs q_base q_len q_wild q_anons q_ctr]; auto.
        intros i j ps' E. inversion E; subst. split.
        -- unfold get_length_const in G. destruct (count_wild ps') as [|[|n]]; [discriminate | reflexivity | discriminate].
        -- exists (q_seqs q), []. rewrite app_nil_r, <- Q6. auto.
      * discriminate. Qed.

(* ---- what SuperSequence.__init__ returns ---- *)
Record built (c : comp) (ctr : nat) (s : sup) (anons : list (string * bseq)) (ctr' : nat) : Prop := {
  bt_ctr : ctr <= ctr';
  bt_names : map fst anons = anon_names ctr (ctr' - ctr);
  bt_const : forall n b, In (n, b) anons -> List.length (b_const b) = b_len b;
  bt_refs : forall x, In x (s_seqs s) -> qref_ok c anons x;
  bt_used : forall n, In n (map fst anons) -> In (RB n false) (s_seqs s);
  bt_base : s_base s = flat_map (ref_base c) (s_seqs s);
  bt_len : s_len s = sum_list (map (rlen c anons) (s_seqs s)) }.

Lemma qinv_init c ctr : qinv c ctr {| q_seqs := []; q_base := []; q_len := 0; q_wild := None; q_anons := []; q_ctr := ctr |}.
Proof. constructor; cbn [q_seqs q_base q_len q_wild q_anons q_ctr].
  - lia.
  - rewrite Nat.sub_diag. reflexivity.
  - intros n b [].
  - intros x [].
  - intros n [].
  - reflexivity.
  - reflexivity.
  - intros i j ps H. discriminate. Qed.

Lemma qinv_built c ctr q : qinv c ctr q ->
  built c ctr {| s_seqs := q_seqs q; s_base := q_base q; s_len := q_len q |} (q_anons q) (q_ctr q).
Proof. intros [Q1 Q2 Q3 Q4 Q5 Q6 Q7 Q8]. constructor; cbn [s_seqs s_base s_len]; auto. Qed.

Lemma build_super_spec c ctr items len s anons ctr' : fresh_from c ctr ->
  (forall x, In (CRef x) items -> ref_defined c x) ->
  build_super c ctr items len = OK (s, anons, ctr') -> built c ctr s anons ctr'.
Proof. intros F HD H. unfold build_super in H.
  destruct (bs_loop c items _) as [q|k] eqn:B; [|discriminate]. cbn [bind] in H.
  pose proof (bs_loop_inv c ctr F items _ q HD (qinv_init c ctr) B) as Q.
  destruct (q_wild q) as [[[i j] ps]|] eqn:W.
  - destruct len as [L|]; [|discriminate]. destruct (Nat.ltb L (q_len q)); [discriminate|].
    destruct (get_length_const (Some (L - q_len q)) ps) as [l k| |k] eqn:G; try discriminate.
    inversion H; subst s anons ctr'. clear H.
    pose proof (qinv_step_nuc c ctr q l k Q F (glc_length _ _ _ _ G)) as Q'.
    destruct Q as [Q1 Q2 Q3 Q4 Q5 Q6 Q7 Q8]. destruct (Q8 i j ps W) as [_ [s1 [s2 [E [A1 A2]]]]].
    destruct Q' as [P1 P2 P3 P4 P5 P6 P7 P8]. cbn [q_seqs q_base q_len q_wild q_anons q_ctr] in *.
    assert (EB : q_base q = flat_map (ref_base c) s1 ++ flat_map (ref_base c) s2) by (rewrite Q6, E, flat_map_app; reflexivity).
    subst i j. rewrite E, EB, !insert_at_app.
    constructor; cbn [s_seqs s_base s_len].
    + exact P1.
    + exact P2.
    + exact P3.
    + intros x Hx. apply P4. rewrite E, <- app_assoc. apply in_or_app. apply in_app_or in Hx.
      destruct Hx as [Hx|[Hx|Hx]]; [left; exact Hx | right; apply in_or_app; right; left; exact Hx | right; apply in_or_app; left; exact Hx].
    + intros n Hn. specialize (P5 n Hn). rewrite E, <- app_assoc in P5. apply in_or_app. apply in_app_or in P5.
      destruct P5 as [P5|P5]; [left; exact P5|]. right. apply in_app_or in P5.
      destruct P5 as [P5|[P5|[]]]; [right; exact P5 | left; exact P5].
    + rewrite flat_map_app. reflexivity.
    + rewrite E, !map_app, !sum_list_app in P7. cbn [map sum_list] in P7.
      rewrite map_app, sum_list_app. cbn [map sum_list]. lia.
  - destruct len as [L|].
    + destruct (Nat.eqb L (q_len q)); [|discriminate]. inversion H; subst. apply qinv_built, Q.
    + inversion H; subst. apply qinv_built, Q. Qed.

(* ---- register adds exactly the anonymous sequences that are referenced and not yet defined ---- *)
Lemma register_spec sups anons : forall seqs bases, exists X,
  register bases sups anons seqs = bases ++ X /\
  NoDup (map fst X) /\
  (forall n b, In (n, b) X -> afind anons n = Some b /\ ahas bases n = false /\ ahas sups n = false) /\
  (forall n r, In (RB n r) seqs -> ahas bases n = false -> ahas sups n = false -> In n (map fst anons) -> In n (map fst X)).
Proof. induction seqs as [|x seqs IH]; intros bases.
  - exists []. rewrite app_nil_r. simpl. split; [reflexivity | split; [constructor | split; intros; contradiction]].
  - destruct x as [n r|n r].
    + simpl. destruct (ahas bases n || ahas sups n) eqn:D.
      * destruct (IH bases) as [X [E [ND [A B]]]]. exists X. split; [exact E | split; [exact ND | split; [exact A|]]].
        intros n' r' [H|H] H1 H2 H3; [|apply (B n' r' H H1 H2 H3)].
        inversion H; subst. rewrite H1, H2 in D. discriminate.
      * apply orb_false_iff in D. destruct D as [D1 D2].
        destruct (afind anons n) as [b|] eqn:FA.
        -- destruct (IH (bases ++ [(n, b)])) as [X [E [ND [A B]]]]. exists ((n, b) :: X).
           rewrite E, <- app_assoc. split; [reflexivity|]. split; [|split].
           ++ simpl. constructor; [|exact ND]. intros Hn. apply in_map_iff in Hn. destruct Hn as [[n' b'] [E' Hn]]. simpl in E'. subst n'.
              destruct (A n b' Hn) as [_ [A2 _]]. rewrite ahas_app in A2. apply orb_false_iff in A2. destruct A2 as [_ A2].
              unfold ahas in A2. simpl in A2. rewrite String.eqb_refl in A2. discriminate.
           ++ intros n' b' [H|H]; [inversion H; subst; auto|].
              destruct (A n' b' H) as [A1 [A2 A3]]. rewrite ahas_app in A2. apply orb_false_iff in A2. tauto.
           ++ intros n' r' H H1 H2 H3. simpl. destruct (String.eqb n n') eqn:Q; [left; apply String.eqb_eq, Q | right].
              destruct H as [H|H]; [inversion H; subst; rewrite String.eqb_refl in Q; discriminate|].
              apply (B n' r' H); auto. rewrite ahas_app, H1. unfold ahas. simpl. rewrite Q. reflexivity.
        -- destruct (IH bases) as [X [E [ND [A B]]]]. exists X. split; [exact E | split; [exact ND | split; [exact A|]]].
           intros n' r' [H|H] H1 H2 H3; [|apply (B n' r' H H1 H2 H3)].
           inversion H; subst. destruct (In_fst_afind _ _ H3) as [v Hv]. rewrite Hv in FA. discriminate.
    + simpl. destruct (IH bases) as [X [E [ND [A B]]]]. exists X. split; [exact E | split; [exact ND | split; [exact A|]]].
      intros n' r' [H|H] H1 H2 H3; [discriminate | apply (B n' r' H H1 H2 H3)]. Qed.

Lemma flat_bref_length c x : List.length (flat_bref c x) = base_len (c_bases c) (fst x).
Proof. unfold flat_bref, dom_nts. destruct (snd x); [rewrite rc_length|]; rewrite map_length, seq_length; reflexivity. Qed.
Lemma flatB_length c l : List.length (flatB c l) = sum_list (map (fun x => base_len (c_bases c) (fst x)) l).
Proof. unfold flatB. induction l as [|x l IH]; simpl; [reflexivity|]. rewrite app_length, flat_bref_length, IH. reflexivity. Qed.
Lemma length_flat_map_sum {A B} (f : A -> list B) l : List.length (flat_map f l) = sum_list (map (fun x => List.length (f x)) l).
Proof. induction l as [|x l IH]; simpl; [reflexivity|]. rewrite app_length, IH. reflexivity. Qed.

Lemma flatB_flat_map_length {A} c (g : A -> list bref) l :
  List.length (flatB c (flat_map g l)) = sum_list (map (fun x => List.length (flatB c (g x))) l).
Proof. induction l as [|x l IH]; simpl; [reflexivity|]. rewrite flatB_app, app_length, IH. reflexivity. Qed.

Lemma anon_names_NoDup ctr n : NoDup (anon_names ctr n).
Proof. unfold anon_names. induction (seq_NoDup n ctr) as [|k l H ND IH]; simpl; constructor; [|exact IH].
  intros Hin. apply in_map_iff in Hin. destruct Hin as [j [E Hj]]. apply anon_name_injective in E. subst. contradiction. Qed.

(* the object just built is well formed in any extension that holds its anonymous sequences *)
Lemma built_sup_ok c c' ctr s anons ctr' : WF c -> ext c c' -> fresh_from c ctr -> built c ctr s anons ctr' ->
  (forall n b, In (n, b) anons -> afind (c_bases c') n = Some b) ->
  sup_ok c' (c_sups c) s.
Proof. intros W E F [B1 B2 B3 B4 B5 B6 B7] HA.
  assert (NDA : NoDup (map fst anons)) by (rewrite B2; apply anon_names_NoDup).
  assert (R : forall x, In x (s_seqs s) -> ref_base c' x = ref_base c x).
  { intros x Hx. destruct x as [m r|m r]; [reflexivity|]. destruct (B4 _ Hx) as [D|[m' [Q _]]]; [|discriminate].
    simpl in D. simpl. rewrite (ext_sups c c' E m D). reflexivity. }
  assert (BD : forall x y, In x (s_seqs s) -> In y (ref_base c x) -> ahas (c_bases c') (fst y) = true).
  { intros x y Hx Hy. destruct (B4 _ Hx) as [D|[m [Q D]]].
    - destruct x as [m r|m r]; simpl in D, Hy.
      + destruct Hy as [<-|[]]. apply (ext_ahas_bases c c' m E D).
      + destruct (afind (c_sups c) m) as [s'|] eqn:FS; [|destruct Hy].
        apply afind_Some_In in FS. destruct (in_split _ _ FS) as [pre [post EQ]].
        pose proof (so_bdef _ _ _ (wf_sups c W pre m s' post EQ)) as D'.
        apply (ext_ahas_bases c c' _ E). destruct r; [|apply D', Hy].
        unfold rc_brefs in Hy. apply in_map_iff in Hy. destruct Hy as [z [<- Hz]]. apply in_rev in Hz. simpl. apply D', Hz.
    - subst x. destruct Hy as [<-|[]]. simpl. destruct (In_fst_afind _ _ D) as [b Hb].
      apply afind_Some_In in Hb. unfold ahas. rewrite (HA m b Hb). reflexivity. }
  constructor.
  - intros x Hx. destruct (B4 _ Hx) as [D|[m [Q D]]].
    + destruct x as [m r|m r]; simpl in *; [apply (ext_ahas_bases c c' m E D) | exact D].
    + subst x. simpl. destruct (In_fst_afind _ _ D) as [b Hb]. apply afind_Some_In in Hb. unfold ahas. rewrite (HA m b Hb). reflexivity.
  - rewrite B6. clear -R. induction (s_seqs s) as [|x l IH]; simpl; [reflexivity|].
    rewrite (R x (or_introl eq_refl)), IH; [reflexivity | intros y Hy; apply R; right; exact Hy].
  - rewrite B7, B6, flatB_flat_map_length. f_equal. apply map_ext_in. intros x Hx.
    destruct (B4 _ Hx) as [D|[m [Q D]]].
    + destruct x as [m r|m r]; simpl in D.
      * simpl. unfold flatB. simpl. rewrite app_nil_r, flat_bref_length. simpl. unfold base_len.
        rewrite (ext_bases c c' E m D). unfold ahas in D. destruct (afind (c_bases c) m); [reflexivity | discriminate].
      * simpl. destruct (afind (c_sups c) m) as [s'|] eqn:FS; [|unfold ahas in D; rewrite FS in D; discriminate].
        apply afind_Some_In in FS. destruct (in_split _ _ FS) as [pre [post EQ]].
        pose proof (wf_sups c W pre m s' post EQ) as [_ _ L' D'].
        destruct r.
        -- rewrite flatB_rc, rc_length, (flatB_ext c c' _ E D'). exact L'.
        -- rewrite (flatB_ext c c' _ E D'). exact L'.
    + subst x. simpl. destruct (In_fst_afind _ _ D) as [b Hb].
      assert (FB : afind (c_bases c) m = None).
      { rewrite B2 in D. apply anon_names_In in D. destruct D as [k [Hk ->]]. destruct (F k (proj1 Hk)) as [FB _].
        unfold ahas in FB. destruct (afind (c_bases c) (anon_name k)); [discriminate | reflexivity]. }
      rewrite FB, Hb. unfold flatB. simpl. rewrite app_nil_r, flat_bref_length. simpl. unfold base_len.
      apply afind_Some_In in Hb. rewrite (HA m b Hb). reflexivity.
  - intros y Hy. rewrite B6 in Hy. apply in_flat_map in Hy. destruct Hy as [x [Hx Hy]]. apply (BD x y Hx Hy). Qed.

(* ---- list helpers ---- *)
Lemma NoDup_app_iff {A} (l1 l2 : list A) : NoDup (l1 ++ l2) <-> NoDup l1 /\ NoDup l2 /\ (forall x, In x l1 -> ~ In x l2).
Proof. induction l1 as [|a l1 IH]; simpl.
  - split; [intros H; split; [constructor | split; [exact H | intros x []]] | intros [_ [H _]]; exact H].
  - split.
    + intros H. inversion H as [|? ? N ND]; subst. apply IH in ND. destruct ND as [N1 [N2 N3]].
      split; [constructor; [intros Hin; apply N; apply in_or_app; left; exact Hin | exact N1]|].
      split; [exact N2|]. intros x [<-|Hx]; [intros Hin; apply N; apply in_or_app; right; exact Hin | apply N3, Hx].
    + intros [N1 [N2 N3]]. inversion N1 as [|? ? N ND]; subst. constructor.
      * intros Hin. apply in_app_or in Hin. destruct Hin as [Hin|Hin]; [exact (N Hin) | exact (N3 a (or_introl eq_refl) Hin)].
      * apply IH. split; [exact ND | split; [exact N2 | intros x Hx; apply N3; right; exact Hx]]. Qed.

Lemma split_last {A} (pre post l : list A) x y : pre ++ x :: post = l ++ [y] ->
  (post = [] /\ pre = l /\ x = y) \/ (exists post', post = post' ++ [y] /\ l = pre ++ x :: post').
Proof. destruct post as [|z post] using rev_ind.
  - intros H. apply (app_inj_tail pre l x y) in H. left. tauto.
  - intros H. right. exists post. rewrite app_comm_cons, app_assoc in H. apply app_inj_tail in H. destruct H as [H ->].
    split; [reflexivity | symmetry; exact H]. Qed.

Lemma anon_is_anon k : is_anon (anon_name k) = true.
Proof. unfold is_anon, anon_name. simpl. generalize (NilEmpty.string_of_uint (Nat.to_uint k)). intros [|a t]; reflexivity. Qed.

Definition grow (c : comp) (X : list (string * bseq)) (Y : list (string * sup)) (T : list (string * strand)) : comp :=
  {| c_prefix := c_prefix c; c_bases := c_bases c ++ X; c_sups := c_sups c ++ Y; c_strands := c_strands c ++ T;
     c_structs := c_structs c; c_kins := c_kins c; c_ins := c_ins c; c_outs := c_outs c |}.

Lemma grow_ext c X Y T : ext c (grow c X Y T).
Proof. constructor; cbn [grow c_prefix c_bases c_sups]; [reflexivity | |];
  intros m H; rewrite afind_app; unfold ahas in H; destruct (afind _ m); [reflexivity | discriminate | reflexivity | discriminate]. Qed.

Definition new_sup_ok (c : comp) (s : sup) (Y : list (string * sup)) : Prop :=
  Y = [] \/ exists name, Y = [(name, s)] /\ seq_defined c name = false /\ is_anon name = false.

Lemma register_built c ctr s anons ctr' sups' : fresh_from c ctr -> built c ctr s anons ctr' ->
  (forall k, ctr <= k -> ahas sups' (anon_name k) = false) ->
  exists X, register (c_bases c) sups' anons (s_seqs s) = c_bases c ++ X /\ NoDup (map fst X) /\
            (forall n b, In (n, b) X <-> In (n, b) anons).
Proof. intros F [B1 B2 B3 B4 B5 B6 B7] HS.
  assert (NDA : NoDup (map fst anons)) by (rewrite B2; apply anon_names_NoDup).
  destruct (register_spec sups' anons (s_seqs s) (c_bases c)) as [X [E [ND [A B]]]].
  exists X. split; [exact E | split; [exact ND|]]. intros n b. split.
  - intros H. destruct (A n b H) as [H1 _]. apply afind_Some_In, H1.
  - intros H. assert (Hn : In n (map fst anons)) by (apply in_map_iff; exists (n, b); auto).
    assert (HX : In n (map fst X)).
    { pose proof Hn as Hk. rewrite B2 in Hk. apply anon_names_In in Hk. destruct Hk as [k [Hk ->]].
      apply (B _ false (B5 _ Hn)); [apply (F k), Hk | apply HS, Hk | exact Hn]. }
    apply in_map_iff in HX. destruct HX as [[n' b'] [Q HX]]. simpl in Q. subst n'.
    destruct (A n b' HX) as [H1 _]. rewrite (afind_In anons n b NDA H) in H1. inversion H1; subst. exact HX. Qed.

Lemma grow_WF c ctr s anons ctr' X Y T : WF c -> fresh_from c ctr -> built c ctr s anons ctr' ->
  NoDup (map fst X) -> (forall n b, In (n, b) X <-> In (n, b) anons) ->
  new_sup_ok c s Y -> (forall n t, In (n, t) T -> t_sup t = s) -> WF (grow c X Y T).
Proof. intros W F B NDX HX HY HT.
  pose proof (grow_ext c X Y T) as E.
  assert (XN : forall n, In n (map fst X) -> exists k, ctr <= k /\ n = anon_name k).
  { intros n Hn. apply in_map_iff in Hn. destruct Hn as [[n' b] [Q Hn]]. simpl in Q. subst n'. apply HX in Hn.
    apply (in_map fst) in Hn. simpl in Hn. rewrite (bt_names _ _ _ _ _ B) in Hn. apply anon_names_In in Hn.
    destruct Hn as [k [Hk ->]]. exists k. split; [lia | reflexivity]. }
  assert (HA : forall n b, In (n, b) anons -> afind (c_bases (grow c X Y T)) n = Some b).
  { intros n b H. cbn [grow c_bases]. rewrite afind_app. apply HX in H.
    assert (Hn : In n (map fst X)) by (apply in_map_iff; exists (n, b); auto).
    destruct (XN n Hn) as [k [Hk ->]]. destruct (F k Hk) as [FB _]. unfold ahas in FB.
    destruct (afind (c_bases c) (anon_name k)); [discriminate|]. apply (afind_In X _ b NDX H). }
  pose proof (built_sup_ok c (grow c X Y T) ctr s anons ctr' W E F B HA) as SOK.
  assert (SUB : forall m, ahas (c_sups c) m = true -> ahas (c_sups c ++ Y) m = true) by (intros m H; rewrite ahas_app, H; reflexivity).
  constructor.
  - cbn [grow c_bases c_sups]. rewrite !map_app.
    pose proof (wf_nodup c W) as ND. apply NoDup_app_iff in ND. destruct ND as [N1 [N2 N3]].
    assert (NY : NoDup (map fst Y)) by (destruct HY as [->|[name [-> _]]]; simpl; repeat constructor; intros []).
    assert (YN : forall n, In n (map fst Y) -> seq_defined c n = false /\ is_anon n = false).
    { destruct HY as [->|[name [-> H]]]; simpl; [intros n [] | intros n [<-|[]]; exact H]. }
    apply NoDup_app_iff. split; [|split].
    + apply NoDup_app_iff. split; [exact N1 | split; [exact NDX|]]. intros x Hx Hx'.
      destruct (XN x Hx') as [k [Hk ->]]. destruct (F k Hk) as [FB _]. apply ahas_true_In in Hx. rewrite Hx in FB. discriminate.
    + apply NoDup_app_iff. split; [exact N2 | split; [exact NY|]]. intros x Hx Hx'.
      destruct (YN x Hx') as [D _]. unfold seq_defined in D. apply orb_false_iff in D. destruct D as [_ D].
      apply ahas_true_In in Hx. rewrite Hx in D. discriminate.
    + intros x Hx Hx'. apply in_app_or in Hx. apply in_app_or in Hx'. destruct Hx as [Hx|Hx]; destruct Hx' as [Hx'|Hx'].
      * exact (N3 x Hx Hx').
      * destruct (YN x Hx') as [D _]. unfold seq_defined in D. apply orb_false_iff in D. destruct D as [D _].
        apply ahas_true_In in Hx. rewrite Hx in D. discriminate.
      * destruct (XN x Hx) as [k [Hk ->]]. destruct (F k Hk) as [_ FS]. apply ahas_true_In in Hx'. rewrite Hx' in FS. discriminate.
      * destruct (XN x Hx) as [k [Hk ->]]. destruct (YN _ Hx') as [_ D]. rewrite anon_is_anon in D. discriminate.
  - cbn [grow c_bases]. intros n b H. apply in_app_or in H. destruct H as [H|H]; [apply (wf_const c W n b H)|].
    apply HX in H. apply (bt_const _ _ _ _ _ B n b H).
  - cbn [grow c_sups]. intros pre n s0 post EQ.
    assert (OLD : forall post', c_sups c = pre ++ (n, s0) :: post' -> sup_ok (grow c X Y T) pre s0).
    { intros post' EQ'. apply (sup_ok_ext c _ pre pre s0 E); [|auto|apply (wf_sups c W pre n s0 post' EQ')].
      intros m H. rewrite EQ', ahas_app, H. reflexivity. }
    destruct HY as [->|[name [-> _]]].
    + rewrite app_nil_r in EQ. apply (OLD post), EQ.
    + symmetry in EQ. apply split_last in EQ. destruct EQ as [[_ [-> Q]]|[post' [_ EQ]]]; [|apply (OLD post'), EQ].
      inversion Q; subst. exact SOK.
  - cbn [grow c_strands]. intros n t H. apply in_app_or in H. destruct H as [H|H].
    + apply (sup_ok_ext c _ (c_sups c) _ _ E); [auto | exact SUB | apply (wf_strands c W n t H)].
    + rewrite (HT n t H). apply (sup_ok_ext _ _ (c_sups c) _ _ (ext_refl _)); [exact SUB | exact SUB | exact SOK]. Qed.

Lemma grow_fresh c ctr s anons ctr' X Y T : fresh_from c ctr -> built c ctr s anons ctr' ->
  (forall n b, In (n, b) X <-> In (n, b) anons) -> new_sup_ok c s Y -> fresh_from (grow c X Y T) ctr'.
Proof. intros F B HX HY k Hk. pose proof (bt_ctr _ _ _ _ _ B) as LE. destruct (F k ltac:(lia)) as [FB FS].
  cbn [grow c_bases c_sups]. rewrite !ahas_app, FB, FS. simpl. split.
  - destruct (ahas X (anon_name k)) eqn:A; [|reflexivity]. exfalso. apply ahas_true_In in A.
    apply in_map_iff in A. destruct A as [[n b] [Q A]]. simpl in Q. subst n. apply HX in A.
    apply (in_map fst) in A. simpl in A. rewrite (bt_names _ _ _ _ _ B) in A. apply anon_names_In in A.
    destruct A as [j [Hj Q]]. apply anon_name_injective in Q. lia.
  - destruct HY as [->|[name [-> [_ D]]]]; [reflexivity|]. unfold ahas. simpl.
    destruct (String.eqb name (anon_name k)) eqn:Q; [|reflexivity]. apply String.eqb_eq in Q. subst name.
    rewrite anon_is_anon in D. discriminate. Qed.

(* ---- WF2 only looks at strands, structures and kinetics ---- *)
Lemma find_strands_same c c' names : c_strands c' = c_strands c -> find_strands c' names = find_strands c names.
Proof. intros E. induction names as [|n r IH]; simpl; [reflexivity|]. rewrite E, IH. reflexivity. Qed.

Lemma find_strands_grow c X Y T names ts : NoDup (map fst (c_strands c ++ T)) ->
  find_strands c names = OK ts -> find_strands (grow c X Y T) names = OK ts.
Proof. intros ND. revert ts. induction names as [|n r IH]; intros ts H; simpl in *; [exact H|].
  cbn [grow c_strands]. rewrite afind_app. destruct (afind (c_strands c) n) as [t|]; [|discriminate].
  destruct (find_strands c r) as [rest|]; [|discriminate]. rewrite (IH rest eq_refl). exact H. Qed.

Lemma grow_WF2 c X Y T : WF2 c -> NoDup (map fst (c_strands c ++ T)) -> WF2 (grow c X Y T).
Proof. intros [S1 S2 S3] ND. constructor; cbn [grow c_strands c_structs c_kins].
  - exact ND.
  - intros pre n u post EQ. destruct (S2 pre n u post EQ) as [A [B [ts [C D]]]].
    split; [exact A | split; [exact B|]]. exists ts. split; [apply (find_strands_grow c X Y T _ _ ND C) | exact D].
  - exact S3. Qed.

Record INV (c : comp) (ctr : nat) : Prop := { inv_wf : WF c; inv_wf2 : WF2 c; inv_fresh : fresh_from c ctr }.

Lemma grow_nil_eq c : grow c [] [] [] = c.
Proof. destruct c. unfold grow. simpl. rewrite !app_nil_r. reflexivity. Qed.

Lemma add_super_sequence_inv c ctr name items len c' ctr' : INV c ctr ->
  add_super_sequence c ctr name items len = OK (c', ctr') -> INV c' ctr'.
Proof. intros [W W2 F] H. unfold add_super_sequence in H. destruct (is_anon name) eqn:HN; [discriminate|].
  destruct (seq_defined c name) eqn:D; [discriminate|]. destruct (ahas (c_structs c) name); [discriminate|].
  destruct (clean_const c items) as [const|] eqn:CC; [|discriminate]. cbn [bind] in H.
  destruct (build_super c ctr const len) as [[[s anons] ctr1]|] eqn:BS; [|discriminate]. cbn [bind] in H.
  injection H as H1 H2. subst c' ctr'.
  pose proof (build_super_spec c ctr const len s anons ctr1 F (clean_const_spec c W items const CC) BS) as B.
  assert (HS : forall k, ctr <= k -> ahas (c_sups c ++ [(name, s)]) (anon_name k) = false).
  { intros k Hk. rewrite ahas_app. destruct (F k Hk) as [_ ->]. unfold ahas. simpl.
    destruct (String.eqb name (anon_name k)) eqn:Q; [|reflexivity]. apply String.eqb_eq in Q. subst name.
    rewrite anon_is_anon in HN. discriminate. }
  destruct (register_built c ctr s anons ctr1 _ F B HS) as [X [E [ND HX]]].
  assert (HY : new_sup_ok c s [(name, s)]) by (right; exists name; auto).
  match goal with |- INV ?c0 _ => assert (EQ : c0 = grow c X [(name, s)] []) end.
  { unfold grow. rewrite E, app_nil_r. reflexivity. }
  rewrite EQ. constructor.
  - apply (grow_WF c ctr s anons ctr1 X _ [] W F B ND HX HY). intros n t [].
  - apply grow_WF2; [exact W2 | rewrite app_nil_r; apply (wf2_strands c W2)].
  - apply (grow_fresh c ctr s anons ctr1 X _ [] F B HX HY). Qed.

Lemma add_strand_inv c ctr dummy name items len c' ctr' : INV c ctr ->
  add_strand c ctr dummy name items len = OK (c', ctr') -> INV c' ctr'.
Proof. intros [W W2 F] H. unfold add_strand in H.
  destruct (ahas (c_strands c) name) eqn:D; [discriminate|].
  destruct (clean_const c items) as [const|] eqn:CC; [|discriminate]. cbn [bind] in H.
  destruct (build_super c ctr const len) as [[[s anons] ctr1]|] eqn:BS; [|discriminate]. cbn [bind] in H.
  destruct (Nat.eqb (s_len s) 0); [discriminate|].
  injection H as H1 H2. subst c' ctr'.
  pose proof (build_super_spec c ctr const len s anons ctr1 F (clean_const_spec c W items const CC) BS) as B.
  assert (HS : forall k, ctr <= k -> ahas (c_sups c) (anon_name k) = false) by (intros k Hk; apply (F k Hk)).
  destruct (register_built c ctr s anons ctr1 _ F B HS) as [X [E [ND HX]]].
  assert (HY : new_sup_ok c s []) by (left; reflexivity).
  match goal with |- INV ?c0 _ => assert (EQ : c0 = grow c X [] [(name, {| t_sup := s; t_dummy := dummy |})]) end.
  { unfold grow. rewrite E, app_nil_r. reflexivity. }
  rewrite EQ. constructor.
  - apply (grow_WF c ctr s anons ctr1 X _ _ W F B ND HX HY). intros n t [Q|[]]. inversion Q; subst. reflexivity.
  - apply grow_WF2; [exact W2|]. rewrite map_app. apply NoDup_app_iff. split; [apply (wf2_strands c W2)|].
    split; [simpl; repeat constructor; intros [] |]. intros x Hx [<-|[]]. apply ahas_true_In in Hx. simpl in Hx. rewrite Hx in D. discriminate.
  - apply (grow_fresh c ctr s anons ctr1 X _ _ F B HX HY). Qed.

(* a component that differs only in structures / kinetics / ports keeps WF *)
Lemma WF_same c c' : c_prefix c' = c_prefix c -> c_bases c' = c_bases c -> c_sups c' = c_sups c -> c_strands c' = c_strands c ->
  WF c -> WF c'.
Proof. intros E1 E2 E3 E4 W.
  assert (E : ext c c') by (constructor; [exact E1 | intros m _; rewrite E2; reflexivity | intros m _; rewrite E3; reflexivity]).
  constructor.
  - rewrite E2, E3. apply (wf_nodup c W).
  - rewrite E2. apply (wf_const c W).
  - rewrite E3. intros pre n s post EQ. apply (sup_ok_ext c c' pre pre s E); [|auto|apply (wf_sups c W pre n s post EQ)].
    intros m H. rewrite EQ, ahas_app, H. reflexivity.
  - rewrite E3, E4. intros n t H. apply (sup_ok_ext c c' (c_sups c) (c_sups c) _ E); [auto | auto | apply (wf_strands c W n t H)]. Qed.

Lemma fresh_same c c' ctr : c_bases c' = c_bases c -> c_sups c' = c_sups c -> fresh_from c ctr -> fresh_from c' ctr.
Proof. intros E2 E3 F k Hk. rewrite E2, E3. apply (F k Hk). Qed.

Lemma add_sequence_inv c ctr name ps len c' : INV c ctr ->
  add_sequence c name ps len = OK c' -> INV c' ctr.
Proof. intros [W W2 F] H. unfold add_sequence in H. destruct (is_anon name) eqn:HN; [discriminate|]. destruct (seq_defined c name) eqn:D; [discriminate|]. destruct (ahas (c_structs c) name); [discriminate|].
  destruct (get_length_const len ps) as [l k| |k] eqn:G; try discriminate. injection H as H. subst c'.
  set (b := {| b_len := l; b_const := k; b_anon := false |}).
  assert (EQ : set_bases c (c_bases c ++ [(name, b)]) = grow c [(name, b)] [] []).
  { unfold set_bases, grow. rewrite !app_nil_r. reflexivity. }
  rewrite EQ. pose proof (grow_ext c [(name, b)] [] []) as E.
  unfold seq_defined in D. apply orb_false_iff in D. destruct D as [D1 D2].
  constructor.
  - constructor; cbn [grow c_bases c_sups c_strands]; rewrite ?app_nil_r.
    + rewrite map_app. pose proof (wf_nodup c W) as ND. apply NoDup_app_iff in ND. destruct ND as [N1 [N2 N3]].
      apply NoDup_app_iff. split; [|split; [exact N2|]].
      * apply NoDup_app_iff. split; [exact N1 | split; [simpl; repeat constructor; intros []|]].
        intros x Hx [<-|[]]. simpl in Hx. apply ahas_true_In in Hx. rewrite Hx in D1. discriminate.
      * intros x Hx Hx'. apply in_app_or in Hx. destruct Hx as [Hx|[<-|[]]]; [exact (N3 x Hx Hx')|].
        simpl in Hx'. apply ahas_true_In in Hx'. rewrite Hx' in D2. discriminate.
    + intros n b0 Hn. apply in_app_or in Hn. destruct Hn as [Hn|[Q|[]]]; [apply (wf_const c W n b0 Hn)|].
      inversion Q; subst. apply (glc_length _ _ _ _ G).
    + intros pre n s post Q. apply (sup_ok_ext c _ pre pre s E); [|auto|apply (wf_sups c W pre n s post Q)].
      intros m H. rewrite Q, ahas_app, H. reflexivity.
    + intros n t H. pose proof (sup_ok_ext c _ (c_sups c) (c_sups c) (t_sup t) E) as S. cbn [grow c_sups] in S.
      apply S; [auto | auto | apply (wf_strands c W n t H)].
  - apply grow_WF2; [exact W2 | rewrite app_nil_r; apply (wf2_strands c W2)].
  - intros j Hj. destruct (F j Hj) as [FB FS]. cbn [grow c_bases c_sups]. rewrite app_nil_r, ahas_app, FB. split; [|exact FS].
    unfold ahas. simpl. destruct (String.eqb name (anon_name j)) eqn:Q; [|reflexivity]. apply String.eqb_eq in Q. subst name.
    rewrite anon_is_anon in HN. discriminate. Qed.

Lemma forallb_ahas_app {V} (t t2 : list (string * V)) l : forallb (ahas t) l = true -> forallb (ahas (t ++ t2)) l = true.
Proof. intros H. rewrite forallb_forall in *. intros x Hx. rewrite ahas_app, (H x Hx). reflexivity. Qed.

Lemma add_structure_inv c ctr opt name names domain s0 c' : INV c ctr -> balanced s0 = true ->
  add_structure c opt name names domain s0 = OK c' -> INV c' ctr.
Proof. intros [W W2 F] HB H. unfold add_structure in H. destruct (ahas (c_structs c) name) eqn:D; [discriminate|]. destruct (is_anon name); [discriminate|]. destruct (seq_defined c name); [discriminate|].
  destruct (find_strands c names) as [ts|] eqn:FS; [|discriminate]. cbn [bind] in H.
  match type of H with (do s <- ?e; _) = _ => destruct e as [s|] eqn:DE; [|discriminate] end. cbn [bind] in H.
  destruct (structure_ok s _) eqn:SO; [|discriminate]. injection H as H. subst c'.
  assert (BS : balanced s = true).
  { destruct domain; [apply (domain_expand_balanced _ _ _ DE) | inversion DE; subst; exact HB]. }
  constructor.
  - apply (WF_same c); auto.
  - destruct W2 as [S1 S2 S3]. constructor; cbn [c_strands c_structs c_kins].
    + exact S1.
    + intros pre n u post EQ. symmetry in EQ. apply split_last in EQ.
      destruct EQ as [[_ [-> Q]]|[post' [_ EQ]]].
      * inversion Q; subst. cbn [u_struct u_strands]. split; [apply ahas_false_notin, D | split; [exact BS|]].
        exists ts. split; [rewrite <- FS; apply find_strands_same; reflexivity | exact SO].
      * destruct (S2 pre n u post' EQ) as [A [B [ts' [C E]]]]. split; [exact A | split; [exact B|]].
        exists ts'. split; [rewrite <- C; apply find_strands_same; reflexivity | exact E].
    + intros k Hk. destruct (S3 k Hk) as [A B]. split; apply forallb_ahas_app; assumption.
  - apply (fresh_same c); auto. Qed.

Lemma add_kinetic_inv c ctr low high ins outs c' : INV c ctr -> add_kinetic c low high ins outs = OK c' -> INV c' ctr.
Proof. intros [W W2 F] H. unfold add_kinetic in H.
  destruct (forallb (ahas (c_structs c)) ins && forallb (ahas (c_structs c)) outs) eqn:D; [|discriminate].
  injection H as H. subst c'. apply andb_prop in D. constructor.
  - apply (WF_same c); auto.
  - destruct W2 as [S1 S2 S3]. constructor; cbn [c_strands c_structs c_kins].
    + exact S1.
    + intros pre n u post EQ. destruct (S2 pre n u post EQ) as [A [B [ts' [C E]]]]. split; [exact A | split; [exact B|]].
      exists ts'. split; [rewrite <- C; apply find_strands_same; reflexivity | exact E].
    + intros k Hk. apply in_app_or in Hk. destruct Hk as [Hk|[<-|[]]]; [apply (S3 k Hk) | exact D].
  - apply (fresh_same c); auto. Qed.

Lemma add_IO_inv c ctr d c' : INV c ctr -> add_IO c d = OK c' -> INV c' ctr.
Proof. intros [W W2 F] H. unfold add_IO in H.
  destruct (resolve_ports c (d_ins d)) as [i|]; [|discriminate]. cbn [bind] in H.
  destruct (resolve_ports c (d_outs d)) as [o|]; [|discriminate]. cbn [bind] in H.
  injection H as H. subst c'. constructor.
  - apply (WF_same c); auto.
  - destruct W2 as [S1 S2 S3]. constructor; cbn [c_strands c_structs c_kins].
    + exact S1.
    + intros pre n u post EQ. destruct (S2 pre n u post EQ) as [A [B [ts' [C E]]]]. split; [exact A | split; [exact B|]].
      exists ts'. split; [rewrite <- C; apply find_strands_same; reflexivity | exact E].
    + exact S3.
  - apply (fresh_same c); auto. Qed.

(* ---- the whole body ---- *)
Definition stmt_ok (s : stmt) : bool := match s with SSeq name _ _ => negb (is_anon name) | _ => true end.

Lemma step_inv c ctr s c' ctr' : INV c ctr -> step (c, ctr) s = OK (c', ctr') -> INV c' ctr'.
Proof. intros I H. destruct s as [name items len|dummy name items len|opt name names domain sn|low high ins outs]; cbn [step] in H.
  - assert (G : add_super_sequence c ctr name items len = OK (c', ctr') -> INV c' ctr') by apply (add_super_sequence_inv _ _ _ _ _ _ _ I).
    destruct items as [|[ps|n r|n r] [|it2 items]]; try (exact (G H)).
    destruct (add_sequence c name ps len) as [c1|] eqn:A; [|discriminate]. cbn [bind] in H. injection H as H1 H2. subst c1 ctr'.
    apply (add_sequence_inv _ _ _ _ _ _ I A).
  - apply (add_strand_inv _ _ _ _ _ _ _ _ I H).
  - destruct (compile_snot sn) as [s0|] eqn:CS; [|discriminate]. cbn [bind] in H.
    destruct (add_structure c opt name names domain s0) as [c1|] eqn:A; [|discriminate]. cbn [bind] in H. injection H as H1 H2. subst c1 ctr'.
    apply (add_structure_inv _ _ _ _ _ _ _ _ I (compile_snot_balanced _ _ CS) A).
  - destruct (add_kinetic c low high ins outs) as [c1|] eqn:A; [|discriminate]. cbn [bind] in H. injection H as H1 H2. subst c1 ctr'.
    apply (add_kinetic_inv _ _ _ _ _ _ _ I A). Qed.

Lemma steps_inv body : forall c ctr c' ctr', INV c ctr ->
  steps (c, ctr) body = OK (c', ctr') -> INV c' ctr'.
Proof. induction body as [|s body IH]; intros c ctr c' ctr' I H; cbn [steps] in H.
  - injection H as H1 H2. subst. exact I.
  - destruct (step (c, ctr) s) as [[c1 ctr1]|] eqn:ST; [|discriminate]. cbn [bind] in H.
    apply (IH c1 ctr1 c' ctr' (step_inv _ _ _ _ _ I ST) H). Qed.

Lemma INV_empty prefix ctr : INV (empty_comp prefix) ctr.
Proof. constructor.
  - constructor; simpl.
    + constructor.
    + intros n b [].
    + intros pre n s post H. destruct pre; discriminate.
    + intros n t [].
  - constructor; simpl.
    + constructor.
    + intros pre n u post H. destruct pre; discriminate.
    + intros k [].
  - intros k _. split; reflexivity. Qed.

(* Every object the compile model returns satisfies both halves of the object invariant, and the
   counter it returns is beyond every anonymous name it used. *)
Theorem compile_comp_inv ctr prefix d body c ctr' :
  compile_comp ctr prefix d body = OK (c, ctr') -> WF c /\ WF2 c /\ fresh_from c ctr'.
Proof. intros H. unfold compile_comp in H.
  destruct (steps (empty_comp prefix, ctr) body) as [[c1 ctr1]|] eqn:ST; [|discriminate]. cbn [bind fst snd] in H.
  destruct (add_IO c1 d) as [c2|] eqn:IO; [|discriminate]. cbn [bind] in H. injection H as H1 H2. subst c2 ctr1.
  pose proof (steps_inv body _ _ _ _ (INV_empty prefix ctr) ST) as I.
  destruct (add_IO_inv _ _ _ _ I IO) as [A B C]. auto. Qed.

(* ---- end to end: what is emitted for any accepted program ---- *)
Theorem compile_emit_defs ctr prefix d body c ctr' :
  compile_comp ctr prefix d body = OK (c, ctr') ->
  pil_defs (emit_comp c) [] = Some (final_env c) /\
  pil_strands (emit_comp c) (final_env c) =
    map (fun '(n, t) => (c_prefix c +++ n, t_dummy t, Some (flatB c (s_base (t_sup t))), s_len (t_sup t))) (c_strands c).
Proof. intros H. destruct (compile_comp_inv _ _ _ _ _ _ H) as [W _]. split; [apply emit_defs, W | apply emit_strands, W]. Qed.

Theorem compile_emit_wf_pil ctr prefix d body c ctr' :
  compile_comp ctr prefix d body = OK (c, ctr') -> wf_pil (emit_comp c) = true.
Proof. intros H. destruct (compile_comp_inv _ _ _ _ _ _ H) as [W [W2 _]]. apply emit_wf_pil; assumption. Qed.

(* the hypothesis is decidable and true of every identifier not starting with the reserved prefix *)
Lemma prefix_spec p : forall n, prefix p n = true <-> exists t, n = (p +++ t)%string.
Proof. induction p as [|ch p IH]; intros n.
  - simpl. split; [intros _; exists n; reflexivity | intros _; destruct n; reflexivity].
  - destruct n as [|ch' n]; simpl.
    + split; [discriminate | intros [t Q]; discriminate].
    + destruct (Ascii.ascii_dec ch ch') as [->|NE].
      * rewrite IH. split; intros [t Q]; exists t; [rewrite Q; reflexivity | inversion Q; reflexivity].
      * split; [discriminate | intros [t Q]; inversion Q; subst; exfalso; apply NE; reflexivity]. Qed.
Lemma is_anon_spec n : is_anon n = true <-> exists t, n = ("_Anon" +++ t)%string.
Proof. apply prefix_spec. Qed.

(* non-vacuity: a program with a deferred wildcard inside a composite, a complemented reference,
   a zero-length domain and a structure is accepted, and meets the hypothesis *)
Local Open Scope string_scope.
Local Open Scope list_scope.
Definition demo_body : list stmt :=
  [ SSeq "a" [INuc [(MNum 3, "N"%char)]] None;
    SSeq "z" [INuc [(MNum 0, "N"%char)]] None;
    SSeq "b" [IRef "a" false; INuc [(MNum 1, "S"%char); (MWild, "N"%char)]; IRef "z" false; IRef "a" true] (Some 10);
    SStrand false "t" [IRef "b" false; INuc [(MNum 2, "W"%char)]] None;
    SStruct 1 "st" ["t"] false (NExt [(12, Dot)]) ].
Example demo_accepted : forallb stmt_ok demo_body = true /\
  exists c, compile_comp 7 "p-" {| d_name := "p"; d_ins := []; d_outs := [] |} demo_body = OK (c, 9) /\
            List.length (c_bases c) = 4 /\ wf_pil (emit_comp c) = true.
Proof. split; [reflexivity|]. eexists. split; [vm_compute; reflexivity | split; vm_compute; reflexivity]. Qed.
