(* C04 / C15 proofs about the designer model, at the level of the seeded link graph:
   the eq / wc arrays are the least-position representatives of the exact parity closure, two
   positions share a representative iff they are connected with even parity, the strand layout
   follows its formula, and a position connected to itself with odd parity is always reported. *)
From Coq Require Import List String Ascii Arith Bool Lia.
From PC Require Import Base.Codes Comp.Syntax Comp.Compile Design.Propagate Design.PropagateProofs Design.Designer.
Import ListNotations.
Local Open Scope list_scope.

(* ---- adjacency built from appended pairs is symmetric ---- *)
Lemma adj_In links y z : In z (adj links y) <-> In (y, z) links \/ In (z, y) links.
Proof. unfold adj. rewrite in_flat_map. split.
  - intros [[a b] [Hin H]]. apply in_app_or in H. destruct H as [H|H].
    + destruct (Nat.eqb a y) eqn:E; [|destruct H]. apply Nat.eqb_eq in E. destruct H as [<-|[]]. subst. auto.
    + destruct (Nat.eqb b y) eqn:E; [|destruct H]. apply Nat.eqb_eq in E. destruct H as [<-|[]]. subst. auto.
  - intros [H|H].
    + exists (y, z). split; [exact H|]. apply in_or_app. left. rewrite Nat.eqb_refl. left. reflexivity.
    + exists (z, y). split; [exact H|]. apply in_or_app. right. rewrite Nat.eqb_refl. left. reflexivity. Qed.
Lemma adj_sym links y z : In z (adj links y) -> In y (adj links z).
Proof. rewrite !adj_In. tauto. Qed.

(* every link endpoint is an initialised node *)
Definition graph_closed (g : cgraph) : bool :=
  forallb (fun '(a, b) => mem a (g_keys g) && mem b (g_keys g)) (g_eq g) &&
  forallb (fun '(a, b) => mem a (g_keys g) && mem b (g_keys g)) (g_wc g).
Lemma graph_closed_spec g : graph_closed g = true ->
  forall y, In y (g_keys g) -> (forall z, In z (adj (g_eq g) y) -> In z (g_keys g)) /\ (forall z, In z (adj (g_wc g) y) -> In z (g_keys g)).
Proof. unfold graph_closed. intros H y _. apply andb_prop in H. destruct H as [H1 H2].
  rewrite forallb_forall in H1, H2. split; intros z Hz; apply adj_In in Hz; destruct Hz as [Hz|Hz].
  - specialize (H1 _ Hz). simpl in H1. apply andb_prop in H1. apply mem_In, H1.
  - specialize (H1 _ Hz). simpl in H1. apply andb_prop in H1. apply mem_In, H1.
  - specialize (H2 _ Hz). simpl in H2. apply andb_prop in H2. apply mem_In, H2.
  - specialize (H2 _ Hz). simpl in H2. apply andb_prop in H2. apply mem_In, H2. Qed.

Definition gconn (g : cgraph) := conn (adj (g_eq g)) (adj (g_wc g)).

(* the closure step of get_constraints never asserts and is exact *)
Theorem closure_exact g : graph_closed g = true ->
  exists m, propagate (adj (g_eq g)) (adj (g_wc g)) (g_keys g) = OOk m /\
  forall x, In x (g_keys g) -> exists E W, get m x = Some (E, W) /\
    (forall z, In z E <-> gconn g x false z) /\ (forall z, In z W <-> gconn g x true z).
Proof. intros H. apply propagate_exact.
  - apply graph_closed_spec, H.
  - intros y z. apply adj_sym.
  - intros y z. apply adj_sym. Qed.

(* ---- least representative ---- *)
Lemma min_below_spec n l r : min_below n l = Some r <->
  (In r l /\ r < n /\ forall z, In z l -> z < n -> r <= z).
Proof. revert r. induction l as [|x l IH]; intros r; simpl.
  - split; [discriminate | intros [[] _]].
  - destruct (Nat.ltb x n) eqn:L.
    + apply Nat.ltb_lt in L. destruct (min_below n l) as [y|] eqn:M.
      * destruct (IH y) as [IH1 _]. destruct (IH1 eq_refl) as [A [B C]]. split.
        -- intros H. inversion H; subst. destruct (Nat.min_dec x y) as [E|E]; rewrite E.
           ++ split; [left; reflexivity | split; [exact L|]]. intros z [<-|Hz] Hl; [lia|]. specialize (C z Hz Hl). lia.
           ++ split; [right; exact A | split; [exact B|]]. intros z [<-|Hz] Hl; [lia|]. apply C; assumption.
        -- intros [Hin [Hl Hmin]]. f_equal.
           assert (r <= x) by (apply Hmin; [left; reflexivity | exact L]).
           assert (r <= y) by (apply Hmin; [right; exact A | exact B]).
           destruct Hin as [<-|Hin]; [lia|]. specialize (C r Hin Hl). lia.
      * split.
        -- intros H. inversion H; subst. split; [left; reflexivity | split; [exact L|]].
           intros z [<-|Hz] Hl; [lia|]. exfalso.
           assert (exists y, min_below n l = Some y) as [y Hy].
           { clear -Hz Hl. induction l as [|a l IHl]; [destruct Hz|]. simpl. destruct Hz as [<-|Hz].
             - apply Nat.ltb_lt in Hl. rewrite Hl. destruct (min_below n l); eauto.
             - destruct (IHl Hz) as [y Hy]. rewrite Hy. destruct (Nat.ltb a n); eauto. }
           congruence.
        -- intros [Hin [Hl Hmin]]. f_equal. destruct Hin as [<-|Hin]; [reflexivity|].
           exfalso. assert (exists y, min_below n l = Some y) as [y Hy].
           { clear -Hin Hl. induction l as [|a l IHl]; [destruct Hin|]. simpl. destruct Hin as [<-|Hin].
             - apply Nat.ltb_lt in Hl. rewrite Hl. destruct (min_below n l); eauto.
             - destruct (IHl Hin) as [y Hy]. rewrite Hy. destruct (Nat.ltb a n); eauto. }
           congruence.
    + apply Nat.ltb_ge in L. rewrite IH. split.
      * intros [A [B C]]. split; [right; exact A | split; [exact B|]]. intros z [<-|Hz] Hl; [lia | apply C; assumption].
      * intros [[<-|A] [B C]]; [lia|]. split; [exact A | split; [exact B|]]. intros z Hz Hl. apply C; [right; exact Hz | exact Hl]. Qed.

Lemma min_below_ext n l1 l2 : (forall z, In z l1 <-> In z l2) -> min_below n l1 = min_below n l2.
Proof. intros H. destruct (min_below n l1) as [r|] eqn:E1.
  - symmetry. apply min_below_spec. apply min_below_spec in E1. destruct E1 as [A [B C]].
    split; [apply H, A | split; [exact B|]]. intros z Hz. apply C, H, Hz.
  - destruct (min_below n l2) as [r|] eqn:E2; [|reflexivity].
    apply min_below_spec in E2. destruct E2 as [A [B C]].
    assert (X : min_below n l1 = Some r).
    { apply min_below_spec. split; [apply H, A | split; [exact B|]]. intros z Hz. apply C, H, Hz. }
    congruence. Qed.

Section Reps.
Variable g : cgraph.
Variable npos : nat.
Hypothesis GC : graph_closed g = true.
Variable m : tbl.
Hypothesis Hm : forall x, In x (g_keys g) -> exists E W, get m x = Some (E, W) /\
    (forall z, In z E <-> gconn g x false z) /\ (forall z, In z W <-> gconn g x true z).

Definition eq_rep (i : nat) : option nat := match get m i with Some (E, _) => min_below npos E | None => None end.
Definition wc_rep (i : nat) : option nat := match get m i with Some (_, W) => min_below npos W | None => None end.

Lemma gsym_eq : forall y z, In z (adj (g_eq g) y) -> In y (adj (g_eq g) z). Proof. intros y z. apply adj_sym. Qed.
Lemma gsym_wc : forall y z, In z (adj (g_wc g) y) -> In y (adj (g_wc g) z). Proof. intros y z. apply adj_sym. Qed.

(* each representative is the lowest position of the class *)
Theorem eq_rep_least i r : In i (g_keys g) ->
  (eq_rep i = Some r <-> (gconn g i false r /\ r < npos /\ forall z, gconn g i false z -> z < npos -> r <= z)).
Proof. intros Hi. unfold eq_rep. destruct (Hm i Hi) as [E [W [G [HE HW]]]]. rewrite G, min_below_spec.
  split; intros [A [B C]]; (split; [apply HE, A | split; [exact B|]]); intros z Hz; apply C, HE, Hz. Qed.
Theorem wc_rep_least i r : In i (g_keys g) ->
  (wc_rep i = Some r <-> (gconn g i true r /\ r < npos /\ forall z, gconn g i true z -> z < npos -> r <= z)).
Proof. intros Hi. unfold wc_rep. destruct (Hm i Hi) as [E [W [G [HE HW]]]]. rewrite G, min_below_spec.
  split; intros [A [B C]]; (split; [apply HW, A | split; [exact B|]]); intros z Hz; apply C, HW, Hz. Qed.
(* no complement representative iff nothing is forced complementary *)
Theorem wc_rep_none i : In i (g_keys g) -> (wc_rep i = None <-> forall z, gconn g i true z -> npos <= z).
Proof. intros Hi. split.
  - intros H z Hz. destruct (Nat.lt_ge_cases z npos) as [L|L]; [|exact L]. exfalso.
    unfold wc_rep in H. destruct (Hm i Hi) as [E [W [G [HE HW]]]]. rewrite G in H.
    assert (exists y, min_below npos W = Some y) as [y Hy].
    { apply HW in Hz. clear -Hz L. induction W as [|a l IHl]; [destruct Hz|]. simpl. destruct Hz as [<-|Hz].
      - apply Nat.ltb_lt in L. rewrite L. destruct (min_below npos l); eauto.
      - destruct (IHl Hz) as [y Hy]. rewrite Hy. destruct (Nat.ltb a npos); eauto. }
    congruence.
  - intros H. destruct (wc_rep i) as [r|] eqn:E; [|reflexivity].
    apply (wc_rep_least i r Hi) in E. destruct E as [A [B _]]. specialize (H r A). lia. Qed.

(* two positions receive the same equality representative exactly when they are forced equal *)
Theorem same_rep_iff_connected p q : In p (g_keys g) -> In q (g_keys g) -> p < npos -> q < npos ->
  (eq_rep p = eq_rep q <-> gconn g p false q).
Proof. intros Hp Hq Lp Lq.
  destruct (Hm p Hp) as [Ep [Wp [Gp [HEp HWp]]]]. destruct (Hm q Hq) as [Eq [Wq [Gq [HEq HWq]]]].
  unfold eq_rep. rewrite Gp, Gq. split.
  - intros H.
    assert (exists r, min_below npos Ep = Some r) as [r Hr].
    { assert (In p Ep) by (apply HEp; constructor). clear -H0 Lp. induction Ep as [|a l IHl]; [destruct H0|]. simpl. destruct H0 as [<-|Hz].
      - apply Nat.ltb_lt in Lp. rewrite Lp. destruct (min_below npos l); eauto.
      - destruct (IHl Hz) as [y Hy]. rewrite Hy. destruct (Nat.ltb a npos); eauto. }
    rewrite Hr in H. symmetry in H. apply min_below_spec in Hr, H.
    destruct Hr as [A _]. destruct H as [B _]. apply HEp in A. apply HEq in B.
    unfold gconn in *. apply (conn_sym _ _ gsym_eq gsym_wc) in B.
    pose proof (conn_trans _ _ _ _ _ A _ _ B) as T. exact T.
  - intros C. apply min_below_ext. intros z. rewrite HEp, HEq. unfold gconn in *.
    rewrite (conn_shift _ _ gsym_eq gsym_wc p false q C false z). simpl. tauto. Qed.

(* the complement representative of p is the equality representative of anything forced complementary to p *)
Theorem wc_rep_is_eq_rep_of_partner p q : In p (g_keys g) -> In q (g_keys g) -> gconn g p true q -> wc_rep p = eq_rep q.
Proof. intros Hp Hq C. destruct (Hm p Hp) as [Ep [Wp [Gp [HEp HWp]]]]. destruct (Hm q Hq) as [Eq [Wq [Gq [HEq HWq]]]].
  unfold wc_rep, eq_rep. rewrite Gp, Gq. apply min_below_ext. intros z. rewrite HWp, HEq. unfold gconn in *.
  rewrite (conn_shift _ _ gsym_eq gsym_wc p true q C false z). simpl. tauto. Qed.

(* ---- consequences used by the file contract (C05) ---- *)
Theorem eq_rep_idempotent i r : In i (g_keys g) -> In r (g_keys g) -> i < npos -> eq_rep i = Some r -> eq_rep r = Some r.
Proof. intros Hi Hr Li H. pose proof H as H0. apply (eq_rep_least i r Hi) in H. destruct H as [A [B C]].
  rewrite <- H0. symmetry. apply same_rep_iff_connected; auto. Qed.
Theorem eq_rep_le i r : In i (g_keys g) -> i < npos -> eq_rep i = Some r -> r <= i.
Proof. intros Hi Li H. apply (eq_rep_least i r Hi) in H. destruct H as [A [B C]]. apply C; [constructor | exact Li]. Qed.
Theorem eq_rep_defined i : In i (g_keys g) -> i < npos -> exists r, eq_rep i = Some r.
Proof. intros Hi Li. unfold eq_rep. destruct (Hm i Hi) as [E [W [G [HE HW]]]]. rewrite G.
  assert (In i E) by (apply HE; constructor). clear -H Li. induction E as [|a l IHl]; [destruct H|]. simpl. destruct H as [<-|Hz].
  - apply Nat.ltb_lt in Li. rewrite Li. destruct (min_below npos l); eauto.
  - destruct (IHl Hz) as [y Hy]. rewrite Hy. destruct (Nat.ltb a npos); eauto. Qed.
Theorem wc_of_wc_is_eq i w : In i (g_keys g) -> In w (g_keys g) -> wc_rep i = Some w -> wc_rep w = eq_rep i.
Proof. intros Hi Hw H. apply (wc_rep_least i w Hi) in H. destruct H as [A _].
  apply wc_rep_is_eq_rep_of_partner; auto. unfold gconn in *. apply (conn_sym _ _ gsym_eq gsym_wc). exact A. Qed.
Theorem wc_rep_is_rep i w : In i (g_keys g) -> In w (g_keys g) -> wc_rep i = Some w -> eq_rep w = Some w.
Proof. intros Hi Hw H. pose proof H as H0. apply (wc_rep_least i w Hi) in H. destruct H as [A [B C]].
  apply (eq_rep_least w w Hw). split; [constructor | split; [exact B|]]. intros z Hz Lz. apply C; [|exact Lz].
  unfold gconn in *. pose proof (conn_trans _ _ _ _ _ A _ _ Hz) as T. simpl in T. exact T. Qed.
End Reps.

(* ---- strand layout formula ---- *)
Lemma strand_starts_spec ss : forall acc pre n its l d post, ss = pre ++ (n, (its, l, d)) :: post ->
  ~ In n (map fst pre) ->
  afind (strand_starts ss acc) n = Some (acc + fold_left (fun a '(_, (_, l', _)) => a + l' + 2) pre 0).
Proof. induction ss as [|[n0 [[its0 l0] d0]] ss IH]; intros acc pre n its l d post E Hn.
  - destruct pre; discriminate.
  - destruct pre as [|[n1 [[its1 l1] d1]] pre]; simpl in E; inversion E; subst; simpl.
    + rewrite String.eqb_refl. f_equal. lia.
    + destruct (String.eqb n1 n) eqn:Q; [apply String.eqb_eq in Q; subst; simpl in Hn; tauto|].
      rewrite (IH (acc + l1 + 2) pre n its l d post eq_refl); [|simpl in Hn; tauto].
      f_equal.
      assert (G : forall (xs : list (string * (list sref * nat * bool))) a b,
                 fold_left (fun a '(_, (_, l', _)) => a + l' + 2) xs (a + b) = a + fold_left (fun a '(_, (_, l', _)) => a + l' + 2) xs b).
      { induction xs as [|[xn [[xi xl] xd]] xs IHx]; intros a0 b0; simpl; [reflexivity|].
        replace (a0 + b0 + xl + 2) with (a0 + (b0 + xl + 2)) by lia. apply IHx. }
      pose proof (G pre (l1 + 2) 0) as G'. rewrite Nat.add_0_r in G'. rewrite G'. lia. Qed.

(* ---- a node forced complementary to itself is always reported (C15, odd cycles) ---- *)
Section OddCycle.
Variable g : cgraph.
Variable m : tbl.
Hypothesis Hm : forall x, In x (g_keys g) -> exists E W, get m x = Some (E, W) /\
    (forall z, In z E <-> gconn g x false z) /\ (forall z, In z W <-> gconn g x true z).

Lemma templates_no_self : forall keys st done r,
  (forall x, In x keys -> In x (g_keys g)) ->
  (forall d, In d done -> ~ gconn g d true d) ->
  templates m keys st done = (Some r, true) \/ (exists b st', templates m keys st done = (Some st', b)) ->
  forall x, In x keys -> ~ gconn g x true x.
Proof. induction keys as [|x ks IH]; intros st done r HK HD HS y Hy; [destruct Hy|].
  assert (HS' : exists b st', templates m (x :: ks) st done = (Some st', b)) by (destruct HS as [H|H]; eauto).
  clear HS. destruct HS' as [b [st' HS]]. simpl in HS.
  destruct (mem x done) eqn:Md.
  - destruct Hy as [<-|Hy]; [apply HD, mem_In, Md|].
    apply (IH st done st' (fun z Hz => HK z (or_intror Hz)) HD); [right; eauto | exact Hy].
  - destruct (Hm x (HK x (or_introl eq_refl))) as [E [W [G [HE HW]]]]. rewrite G in HS.
    destruct (mem x W) eqn:MW; [discriminate|].
    assert (NX : ~ gconn g x true x).
    { intros C. apply HW in C. apply mem_In in C. congruence. }
    match type of HS with context [fold_left ?f W ?a] => destruct (fold_left f W a) as [[a2|] b2] eqn:F end; [|discriminate].
    destruct (compl_code a2) as [ca|]; [|discriminate].
    destruct Hy as [<-|Hy]; [exact NX|].
    apply (IH (st_set (st_set st E a2) W ca) (union (union done E) W) st' (fun z Hz => HK z (or_intror Hz))); [|right; eauto | exact Hy].
    intros d Hd. apply union_In in Hd. destruct Hd as [Hd|Hd]; [apply union_In in Hd; destruct Hd as [Hd|Hd]|].
    + apply HD, Hd.
    + apply HE in Hd. intros C. apply NX. unfold gconn in *.
      apply (conn_shift _ _ (fun y z => adj_sym _ y z) (fun y z => adj_sym _ y z) x false d Hd true d) in C.
      simpl in C. pose proof (conn_trans _ _ _ _ _ C _ _ (conn_sym _ _ (fun y z => adj_sym _ y z) (fun y z => adj_sym _ y z) _ _ _ Hd)) as T.
      simpl in T. exact T.
    + apply HW in Hd. intros C. apply NX. unfold gconn in *.
      apply (conn_shift _ _ (fun y z => adj_sym _ y z) (fun y z => adj_sym _ y z) x true d Hd true d) in C.
      simpl in C. pose proof (conn_trans _ _ _ _ _ C _ _ (conn_sym _ _ (fun y z => adj_sym _ y z) (fun y z => adj_sym _ y z) _ _ _ Hd)) as T.
      simpl in T. exact T. Qed.

(* if template propagation succeeds, no initialised node is forced complementary to itself;
   contrapositive: a hairpin pairing a domain with itself is never passed on *)
Theorem odd_cycle_reported st st' b : templates m (g_keys g) st [] = (Some st', b) ->
  forall x, In x (g_keys g) -> ~ gconn g x true x.
Proof. intros H. apply (templates_no_self (g_keys g) st [] st'); [auto | intros d [] | right; eauto]. Qed.
End OddCycle.
