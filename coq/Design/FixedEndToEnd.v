(* The component-level chain restated for any component satisfying the compile invariants, and hence for compiled
   components to which any sequence of fixed-file entries has been applied (Comp/FixShape.v): the document still
   passes the well-formedness predicate, loads, lays out, and finishing succeeds for every fitting designed string. *)
From Coq Require Import List String Ascii Arith Bool ZArith.
From PC Require Import Base.Sexp Base.Codes Comp.Syntax Comp.Compile Comp.Denote Comp.EmitProofs Comp.WfPil Comp.CompileProofs Comp.NameProofs Comp.Fix Comp.FixShape Sys.SystemProofs
  Design.Designer Design.Results Design.ResultsProofs Design.SeedTotal Design.StructTotal Design.StructSeed Design.Loaded Design.LoadedStruct Design.CrossProofs Design.EndToEnd Design.RecNames
  Finish.Apply Finish.ApplyProofs.
Import ListNotations.
Local Open Scope list_scope.

Section Inv.
Variable c : comp.
Hypothesis W : WF c.
Hypothesis W2 : WF2 c.

Theorem inv_wf_pil : wf_pil (emit_comp c) = true.
Proof. apply emit_wf_pil; assumption. Qed.

Lemma inv_templates : (forall n b, In (n, b) (c_bases c) -> valid_template (b_const b) = true) ->
  forall n k len, In (PSeq n k len) (emit_comp c) -> valid_template k = true.
Proof. intros VT n k len Hin. rewrite emit_split in Hin. apply in_app_or in Hin. destruct Hin as [Hin|Hin].
  - unfold base_lines in Hin. apply in_flat_map in Hin. destruct Hin as [[n0 b] [Hb Hin]]. destruct (Nat.eqb (b_len b) 0); [destruct Hin|].
    destruct Hin as [E|[]]. inversion E; subst. apply (VT n0 b Hb).
  - exfalso. apply in_app_or in Hin. destruct Hin as [Hin|Hin].
    + unfold sup_lines in Hin. apply in_flat_map in Hin. destruct Hin as [[n0 s0] [_ Hin]]. destruct (Nat.eqb (s_len s0) 0); [destruct Hin|]. destruct Hin as [E|[]]. discriminate.
    + rewrite !in_app_iff in Hin. destruct Hin as [Hin|[Hin|Hin]]; apply in_map_iff in Hin; destruct Hin as [x [E _]]; destruct x; try discriminate;
        match type of E with (let '(_, _) := ?y in _) = _ => destruct y; discriminate | _ => idtac end. Qed.

Theorem inv_designs : (forall n b, In (n, b) (c_bases c) -> valid_template (b_const b) = true) ->
  (exists p, load_spec (emit_comp c) pspec0 = OK p) /\
  (design_arrays (emit_comp c) false = DOver \/ exists e w s, design_arrays (emit_comp c) false = DOk e w s).
Proof. intros VT. pose proof (inv_templates VT) as V. split; [apply (wf_pil_loads _ inv_wf_pil V) | apply (wf_pil_designs _ inv_wf_pil V)]. Qed.

Theorem inv_design_finishes p lay g e w s nts (so : bool) :
  load_spec (emit_comp c) pspec0 = OK p -> seed p so = OK (lay, g) -> get_constraints p so = DOk e w s -> fits nts e w ->
  exists a recs, process_results p lay nts = OK a /\ output_records p a = OK recs /\
    (NoDup (map fst recs) -> exists f, apply_comp (table_of recs) c = OK f).
Proof. intros LOAD SEED ARR FITS.
  destruct so; [destruct (sloaded_design_results_ok (emit_comp c) p lay g nts LOAD SEED e w s ARR FITS) as [a [recs [PR [OR [RA [RB RC]]]]]]
              | destruct (loaded_design_results_ok (emit_comp c) p lay g nts LOAD SEED e w s ARR FITS) as [a [recs [PR [OR [RA [RB RC]]]]]]];
  (exists a, recs; split; [exact PR | split; [exact OR|]]; intros ND; apply apply_comp_complete;
   [ intros n b Hin NZ; apply (finish_H1 c W p (emit_comp c) LOAD (incl_refl _) recs ND RA n b Hin NZ)
   | intros vals VALS n u Hin; apply (finish_H2 c W W2 p (emit_comp c) LOAD (incl_refl _) lay nts a recs ND RB RC vals VALS n u Hin)]). Qed.

Hypothesis N : NI c.
Hypothesis NP : nostar (c_prefix c).

Theorem inv_records_distinct p a recs : load_spec (emit_comp c) pspec0 = OK p -> output_records p a = OK recs -> NoDup (map fst recs).
Proof. intros LOAD OR. rewrite (output_records_names p a recs OR). apply (rec_names_nodup c p W N NP LOAD). Qed.

Theorem inv_end_to_end : (forall n b, In (n, b) (c_bases c) -> valid_template (b_const b) = true) ->
  exists p lay g, load_spec (emit_comp c) pspec0 = OK p /\ seed p false = OK (lay, g) /\
    (get_constraints p false = DOver \/
     exists e w s, get_constraints p false = DOk e w s /\
       forall nts, fits nts e w ->
         exists a recs, process_results p lay nts = OK a /\ output_records p a = OK recs /\ exists f, apply_comp (table_of recs) c = OK f).
Proof. intros VT. destruct (inv_designs VT) as [[p LOAD] _].
  destruct (SeedTotal.seed_total (emit_comp c) p LOAD) as [g SEED]. exists p, (build_layout p false), g. split; [exact LOAD | split; [exact SEED|]].
  destruct (loaded_total (emit_comp c) p _ g LOAD SEED) as [O|[e [w [s A]]]]; [left; exact O|]. right. exists e, w, s. split; [exact A|].
  intros nts F. destruct (inv_design_finishes p _ g e w s nts false LOAD SEED A F) as [a [recs [PR [OR FIN]]]]. exists a, recs. split; [exact PR | split; [exact OR|]].
  apply FIN. apply (inv_records_distinct p a recs LOAD OR). Qed.
End Inv.

(* compiled, then any fixed-file entries applied *)
Section Fixed.
Variables (ctr : nat) (prefix : string) (d : declare) (body : list stmt) (c : comp) (ctr' : nat) (es : list (string * string * list ascii)).
Hypothesis COMP : compile_comp ctr prefix d body = OK (c, ctr').
Let cf := fix_comp_entries c es.

Lemma fixed_prefix : forall es0 c0, c_prefix (fix_comp_entries c0 es0) = c_prefix c0.
Proof. induction es0 as [|e r IH]; intros c0; [reflexivity|]. destruct e as [[k n] f]. cbn [fix_comp_entries]. rewrite IH. reflexivity. Qed.

Lemma fixed_W : WF cf /\ WF2 cf.
Proof. destruct (compile_comp_inv _ _ _ _ _ _ COMP) as [W [W2 _]]. destruct (fixed_component_invariants es c W W2) as [A [B _]]. split; assumption. Qed.

Theorem fixed_component_wf_pil : wf_pil (emit_comp cf) = true.
Proof. destruct fixed_W as [W W2]. apply inv_wf_pil; assumption. Qed.

Hypothesis VT : forall n b, In (n, b) (c_bases c) -> valid_template (b_const b) = true.
Lemma fixed_VT : forall n b, In (n, b) (c_bases cf) -> valid_template (b_const b) = true.
Proof. exact (fixed_component_vt es c VT). Qed.

Theorem fixed_component_designs :
  (exists p, load_spec (emit_comp cf) pspec0 = OK p) /\
  (design_arrays (emit_comp cf) false = DOver \/ exists e w s, design_arrays (emit_comp cf) false = DOk e w s).
Proof. destruct fixed_W as [W W2]. apply inv_designs; try assumption. exact fixed_VT. Qed.

Theorem fixed_design_finishes p lay g e w s nts (so : bool) :
  load_spec (emit_comp cf) pspec0 = OK p -> seed p so = OK (lay, g) -> get_constraints p so = DOk e w s -> fits nts e w ->
  exists a recs, process_results p lay nts = OK a /\ output_records p a = OK recs /\
    (NoDup (map fst recs) -> exists f, apply_comp (table_of recs) cf = OK f).
Proof. destruct fixed_W as [W W2]. apply inv_design_finishes; assumption. Qed.

Hypothesis NS : forall st, In st body -> stmt_nostar st.
Hypothesis NP : nostar prefix.

Theorem fixed_component_end_to_end :
  exists p lay g, load_spec (emit_comp cf) pspec0 = OK p /\ seed p false = OK (lay, g) /\
    (get_constraints p false = DOver \/
     exists e w s, get_constraints p false = DOk e w s /\
       forall nts, fits nts e w ->
         exists a recs, process_results p lay nts = OK a /\ output_records p a = OK recs /\ exists f, apply_comp (table_of recs) cf = OK f).
Proof. destruct fixed_W as [W W2]. apply inv_end_to_end; try assumption.
  - apply fixed_component_NI. apply (compile_comp_NI _ _ _ _ _ _ COMP NS).
  - unfold cf. rewrite fixed_prefix, (compile_comp_prefix _ _ _ _ _ _ COMP). exact NP.
  - exact fixed_VT. Qed.
End Fixed.
