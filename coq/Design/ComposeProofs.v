(* The designer's flattening of a loaded document agrees, nucleotide by nucleotide, with the meaning the
   PIL reader of C01 gives to its definition lines: the link between the compiler-side theorems
   (emitted lines re-read to the strands' nucleotides) and the designer-side ones. *)
From Coq Require Import List String Ascii Arith Bool Lia.
From PC Require Import Base.Codes Comp.Syntax Comp.Compile Comp.Denote Comp.EmitProofs Comp.CompileProofs Comp.OrderProofs
  Design.Designer Design.DGraph Design.DenoteGraph Design.DenoteTie Design.LoadProofs Design.ShapeProofs.
Import ListNotations.
Local Open Scope list_scope.

Section Flat.
Variable p : pspec.
Hypothesis LIp : LI p.
Let WF : spec_wf p false := LI_spec_wf p false LIp (fun H => False_ind _ (Bool.diff_false_true H)).
Local Notation CT := (ctbl p).

Definition cls (n : string) (st : bool) : sref := if ahas (p_bases p) n then SB n st else SS n st.
Definition bix (n : string) : nat := match base_index p n with Some k => k | None => 0 end.
Definition cvn (x : nt) : cnt := (DAux (2 * bix (fst (fst x))) (snd (fst x)), snd x).
Definition nflat (n : string) : list cnt := ref_c p CT (cls n false).

Lemma cvn_rc v : map cvn (rc v) = rcl (map cvn v).
Proof. unfold rc, rcl. rewrite map_map, <- map_rev, map_map. apply map_ext. intros [[n i] st]. reflexivity. Qed.
Lemma ref_c_cls_star n : ref_c p CT (cls n true) = rcl (nflat n).
Proof. unfold nflat, cls. destruct (ahas (p_bases p) n); simpl.
  - destruct (base_index p n); reflexivity.
  - destruct (sup_index p n); reflexivity. Qed.
Lemma classify_cls items : classify p items = map (fun ms => cls (fst ms) (snd ms)) items.
Proof. unfold classify, cls. apply map_ext. intros [m st]. reflexivity. Qed.

Definition Rel (env : penv) : Prop := forall n v, afind env n = Some v -> nflat n = map cvn v.

Lemma flat_classify env items : Rel env -> forall v, resolve_items env items = Some v ->
  flat_map (ref_c p CT) (classify p items) = map cvn v.
Proof. intros R. induction items as [|[m st] items IH]; intros v H; simpl in H; [inversion H; reflexivity|].
  destruct (afind env m) as [vm|] eqn:A; [|discriminate]. destruct (resolve_items env items) as [rest|]; [|discriminate]. inversion H; subst v.
  rewrite classify_cls in *. cbn [map flat_map fst snd]. rewrite (IH rest eq_refl), map_app. f_equal.
  destruct st; [rewrite ref_c_cls_star, (R m vm A), cvn_rc; reflexivity | apply (R m vm A)]. Qed.

Lemma Rel_app_other env n v : Rel env -> ahas env n = false -> nflat n = map cvn v -> Rel (env ++ [(n, v)]).
Proof. intros R NA E m vm H. rewrite afind_app in H. destruct (afind env m) as [v0|] eqn:A; [inversion H; subst; apply (R m vm A)|].
  simpl in H. destruct (String.eqb n m) eqn:Q; [|discriminate]. apply String.eqb_eq in Q. subst m. inversion H; subst. exact E. Qed.

Lemma nflat_base n k : In (n, k) (p_bases p) -> nflat n = map cvn (dom_nts n (List.length k)).
Proof. intros Hin. apply In_nth_error in Hin. destruct Hin as [i Hi]. pose proof (wf_base_idx p false WF i n k Hi) as BI.
  assert (AB : ahas (p_bases p) n = true) by (apply ahas_true_In, in_map_iff; exists (n, k); split; [reflexivity | apply (nth_error_In _ _ Hi)]).
  unfold nflat, cls. rewrite AB. simpl. rewrite BI. unfold base_c, blen. rewrite Hi. unfold dom_nts. rewrite map_map. apply map_ext. intros x.
  unfold cvn, bix. simpl. rewrite BI. reflexivity. Qed.

Lemma nflat_sup n rs l : In (n, (rs, l)) (p_sups p) -> nflat n = flat_map (ref_c p CT) rs.
Proof. intros Hin. apply In_nth_error in Hin. destruct Hin as [j Hj]. pose proof (wf_sup_idx p false WF j n rs l Hj) as SI.
  assert (NB : ahas (p_bases p) n = false).
  { destruct (ahas (p_bases p) n) eqn:Q; [|reflexivity]. exfalso. apply ahas_true_In in Q.
    apply (NoDup_app_disj _ _ (li_nd_seq p LIp) n Q). apply in_map_iff. exists (n, (rs, l)). split; [reflexivity | apply (nth_error_In _ _ Hj)]. }
  unfold nflat, cls. rewrite NB. simpl. rewrite SI. rewrite (ctbl_nth p j n rs l Hj). destruct (wf_sup p false WF j n rs l Hj) as [OK _].
  apply (flat_ref_prefix p j rs OK). rewrite ctbl_length. assert (j < List.length (p_sups p)) by (apply nth_error_Some; rewrite Hj; discriminate). lia. Qed.

(* reading the definition lines keeps the relation, given the entries the loader left for them *)
Theorem Rel_defs ls : forall env0 env, pil_defs ls env0 = Some env ->
  (forall n k len, In (PSeq n k len) ls -> In (n, k) (p_bases p)) ->
  (forall n items len, In (PSup n items len) ls -> exists l, In (n, (classify p items, l)) (p_sups p)) ->
  Rel env0 -> Rel env.
Proof. induction ls as [|l ls IH]; intros env0 env H S1 S2 R; simpl in H; [inversion H; subst; exact R|].
  destruct l as [n k len|n items len|d n items len|o n ss s|lo hi ins outs|items];
    try (apply (IH env0 env H (fun a b c Hin => S1 a b c (or_intror Hin)) (fun a b c Hin => S2 a b c (or_intror Hin)) R)).
  - destruct (ahas env0 n) eqn:A; [discriminate|]. apply (IH _ env H (fun a b c Hin => S1 a b c (or_intror Hin)) (fun a b c Hin => S2 a b c (or_intror Hin))).
    apply (Rel_app_other env0 n _ R A). apply (nflat_base n k (S1 n k len (or_introl eq_refl))).
  - destruct (ahas env0 n) eqn:A; [discriminate|]. destruct (resolve_items env0 items) as [v|] eqn:RI; [|discriminate].
    apply (IH _ env H (fun a b c Hin => S1 a b c (or_intror Hin)) (fun a b c Hin => S2 a b c (or_intror Hin))).
    apply (Rel_app_other env0 n v R A). destruct (S2 n items len (or_introl eq_refl)) as [l Hin]. rewrite (nflat_sup n _ l Hin). apply (flat_classify env0 items R v RI). Qed.
End Flat.

(* ---- a compiled component, emitted and loaded ---- *)
Section Emitted.
Variable c : comp.
Hypothesis W : WF c.
Variable p : pspec.
(* the component's lines may be part of a larger document (a system's): only their presence matters *)
Variable ls : list pline.
Hypothesis LOAD : load_spec ls pspec0 = OK p.
Hypothesis INC : incl (emit_comp c) ls.
Let P := c_prefix c.
Let LIp : LI p := load_spec_LI ls pspec0 p LI_empty LOAD.
Let SH := load_spec_shape ls pspec0 p LOAD.

Lemma classified_entry_sup n items len : In (PSup n items len) (emit_comp c) -> exists l, In (n, (classify p items, l)) (p_sups p).
Proof. intros Hin. destruct (sh_sup _ _ SH n items len (INC _ Hin)) as [p1 [rs [G [GS Hs]]]]. destruct (get_seqs_classify p1 items rs GS) as [E D].
  exists (refs_len p1 rs). rewrite (classify_grows p1 p items G LIp D), <- E. exact Hs. Qed.
Lemma classified_entry_strand d n items len : In (PStrand d n items len) (emit_comp c) -> exists l, In (n, (classify p items, l, d)) (p_strands p).
Proof. intros Hin. destruct (sh_strand _ _ SH d n items len (INC _ Hin)) as [p1 [rs [G [GS Hs]]]]. destruct (get_seqs_classify p1 items rs GS) as [E D].
  exists (refs_len p1 rs). rewrite (classify_grows p1 p items G LIp D), <- E. exact Hs. Qed.

Lemma emitted_Rel : Rel p (final_env c).
Proof. apply (Rel_defs p LIp (emit_comp c) [] (final_env c) (emit_defs c W)).
  - intros n k len Hin. apply (sh_seq _ _ SH n k len (INC _ Hin)).
  - intros n items len Hin. apply (classified_entry_sup n items len Hin).
  - intros n v H. discriminate. Qed.

(* every strand of the component is a strand of the loaded specification whose designer-side flattening is the
   component's own flattening of the strand into base nucleotides *)
Theorem strand_flattening n t : In (n, t) (c_strands c) ->
  exists l, In (P +++ n, (classify p (emit_items c (s_seqs (t_sup t))), l, t_dummy t)) (p_strands p) /\
            flat_map (ref_c p (ctbl p)) (classify p (emit_items c (s_seqs (t_sup t)))) = map (cvn p) (flatB c (s_base (t_sup t))).
Proof. intros Hin. assert (LN : In (PStrand (t_dummy t) (P +++ n) (emit_items c (s_seqs (t_sup t))) (s_len (t_sup t))) (emit_comp c)).
  { rewrite emit_split. apply in_or_app. right. apply in_or_app. right. apply in_or_app. left. apply in_map_iff. exists (n, t). auto. }
  destruct (classified_entry_strand _ _ _ _ LN) as [l Hl]. exists l. split; [exact Hl|].
  pose proof (wf_strands c W n t Hin) as OKs.
  assert (R : resolve_items (final_env c) (emit_items c (s_seqs (t_sup t))) = Some (flatB c (s_base (t_sup t)))).
  { unfold final_env. rewrite (resolve_refs c W (c_sups c) (s_seqs (t_sup t)) (so_refs _ _ _ OKs)) by (exists []; rewrite app_nil_r; reflexivity).
    rewrite (flat_refs_base c _ _ OKs). reflexivity. }
  apply (flat_classify p (final_env c) _ emitted_Rel _ R). Qed.
End Emitted.

(* the component compiled and loaded on its own *)
Definition strand_flattening_alone c (W : WF c) p (LOAD : load_spec (emit_comp c) pspec0 = OK p) :=
  strand_flattening c W p (emit_comp c) LOAD (incl_refl _).
