(* The strand-oriented layout: every strand position sits where the layout formula says, inside the
   arrays; the encoding of the declared nodes is strictly increasing (hence injective). *)
From Coq Require Import List String Ascii Arith Bool Lia.
From PC Require Import Base.Codes Comp.Syntax Comp.Compile Comp.EmitProofs Design.Designer Design.DesignerProofs Design.DGraph Design.DenoteGraph Design.DenoteTie Design.LoadProofs.
Import ListNotations.
Local Open Scope list_scope.

(* strictly increasing lists within bounds *)
Definition ib (lo hi : nat) (l : list nat) : Prop := sincr l = true /\ forall x, In x l -> lo <= x < hi.
Lemma sincr_cons a l : sincr (a :: l) = true <-> (forall b, In b l -> a < b) /\ sincr l = true.
Proof. split.
  - intros H. split; [intros b Hb; apply (sincr_lt _ H a l eq_refl b Hb)|]. cbn [sincr] in H. destruct l; [reflexivity|]. apply andb_prop in H. apply H.
  - intros [H1 H2]. cbn [sincr]. destruct l as [|b l]; [reflexivity|]. rewrite H2. rewrite (proj2 (Nat.ltb_lt a b) (H1 b (or_introl eq_refl))). reflexivity. Qed.
Lemma ib_nil lo hi : ib lo hi []. Proof. split; [reflexivity | intros ? []]. Qed.
Lemma ib_app lo mid hi a b : lo <= mid -> mid <= hi -> ib lo mid a -> ib mid hi b -> ib lo hi (a ++ b).
Proof. intros L1 L2 [A1 A2] [B1 B2]. split.
  - induction a as [|x a IH]; [exact B1|]. simpl. apply sincr_cons. apply sincr_cons in A1. destruct A1 as [A11 A12]. split.
    + intros y Hy. apply in_app_or in Hy. destruct Hy as [Hy|Hy]; [apply A11, Hy|]. pose proof (A2 x (or_introl eq_refl)). pose proof (B2 y Hy). lia.
    + apply IH; [exact A12 | intros z Hz; apply A2; right; exact Hz].
  - intros x Hx. apply in_app_or in Hx. destruct Hx as [Hx|Hx]; [pose proof (A2 x Hx) | pose proof (B2 x Hx)]; lia. Qed.
Lemma ib_run s len : ib s (s + len) (map (fun x => s + x) (seq 0 len)).
Proof. split.
  - generalize 0 as a. induction len as [|len IH]; intros a; [reflexivity|]. cbn [seq map]. apply sincr_cons. split; [|apply IH].
    intros b Hb. apply in_map_iff in Hb. destruct Hb as [x [<- Hx]]. apply in_seq in Hx. lia.
  - intros x Hx. apply in_map_iff in Hx. destruct Hx as [y [<- Hy]]. apply in_seq in Hy. lia. Qed.
Lemma ib_weaken lo hi lo' hi' l : lo' <= lo -> hi <= hi' -> ib lo hi l -> ib lo' hi' l.
Proof. intros A B [H1 H2]. split; [exact H1|]. intros x Hx. pose proof (H2 x Hx). lia. Qed.

Definition width (ss : list (string * (list sref * nat * bool))) : nat := fold_left (fun a '(_, (_, l, _)) => a + l + 2) ss 0.
Lemma width_shift (ss : list (string * (list sref * nat * bool))) : forall a b, fold_left (fun a '(_, (_, l, _)) => a + l + 2) ss (a + b) = a + fold_left (fun a '(_, (_, l, _)) => a + l + 2) ss b.
Proof. induction ss as [|[n [[its l] d]] ss IH]; intros a b; simpl; [reflexivity|]. replace (a + b + l + 2) with (a + (b + l + 2)) by lia. apply IH. Qed.
Lemma width_acc (ss : list (string * (list sref * nat * bool))) : forall a, fold_left (fun a '(_, (_, l, _)) => a + l + 2) ss a = a + width ss.
Proof. intros a. unfold width. rewrite <- width_shift. f_equal. lia. Qed.
Lemma width_app a b : width (a ++ b) = width a + width b.
Proof. unfold width at 1. rewrite fold_left_app. fold (width a). apply width_acc. Qed.
Lemma width_cons n its l d ss : width ((n, (its, l, d)) :: ss) = l + 2 + width ss.
Proof. unfold width at 1. cbn [fold_left]. rewrite width_acc. lia. Qed.

Lemma map_map_flat_map {X Y Z W} (f : Z -> W) (h : Y -> Z) (k : X -> list Y) l : map f (map h (flat_map k l)) = flat_map (fun x => map f (map h (k x))) l.
Proof. induction l as [|x l IH]; [reflexivity|]. simpl. rewrite !map_app, IH. reflexivity. Qed.

Section Layout.
Variable p : pspec.
Hypothesis LIp : LI p.
Let lay := build_layout p false.
Local Notation encn := (enc p lay).

Lemma npos_width : l_npos lay = width (p_strands p). Proof. reflexivity. Qed.

Lemma tstart_entry pre n its l d post : p_strands p = pre ++ (n, (its, l, d)) :: post ->
  afind (l_tstart lay) n = Some (width pre) /\ tstart_of lay n = width pre.
Proof. intros E. assert (NI : ~ In n (map fst pre)).
  { pose proof (li_nd_strand p LIp) as ND. rewrite E, map_app in ND. simpl in ND. intros C.
    apply (NoDup_app_disj _ _ ND n C). left. reflexivity. }
  pose proof (strand_starts_spec (p_strands p) 0 pre n its l d post E NI) as S. simpl in S. fold (width pre) in S.
  split; [exact S | unfold tstart_of; change (l_tstart lay) with (strand_starts (p_strands p) 0); rewrite S; reflexivity]. Qed.

Theorem place_ok_strand : place_okb p lay false = true.
Proof. unfold place_okb. apply forallb_forall. intros [n [[its l] d]] Hin. destruct (in_split _ _ Hin) as [pre [post E]].
  destruct (tstart_entry pre n its l d post E) as [A T]. rewrite A, orb_true_r. cbn [andb]. apply forallb_forall. intros o Ho. apply in_seq in Ho.
  apply andb_true_intro. split; [apply Nat.eqb_eq; reflexivity|]. apply Nat.ltb_lt. rewrite T, npos_width, E, width_app, width_cons. lia. Qed.

(* the positions of the strands, in order *)
Lemma pos_ib : forall post pre, p_strands p = pre ++ post ->
  ib (width pre) (width pre + width post)
     (flat_map (fun '(n, (_, len, _)) => map (fun x => tstart_of lay n + x) (seq 0 len)) post).
Proof. induction post as [|[n [[its l] d]] post IH]; intros pre E; [apply ib_nil|]. cbn [flat_map].
  destruct (tstart_entry pre n its l d post E) as [_ T]. rewrite T, width_cons.
  apply (ib_app _ (width pre + l + 2)); [lia | lia | apply (ib_weaken (width pre) (width pre + l)); [lia | lia | apply ib_run]|].
  specialize (IH (pre ++ [(n, (its, l, d))])). rewrite <- app_assoc in IH. specialize (IH E). rewrite width_app, width_cons in IH. unfold width at 3 in IH. simpl in IH.
  apply (ib_weaken (width pre + (l + 2 + 0)) (width pre + (l + 2 + 0) + width post)); [lia | lia | exact IH]. Qed.

(* the auxiliary nodes: numbered objects laid out one after the other behind the positions *)
Lemma sum_firstn_S l : forall n, sum_list (firstn (S n) l) = sum_list (firstn n l) + nth n l 0.
Proof. induction l as [|x l IH]; intros n; [destruct n; reflexivity|]. destruct n as [|n]; simpl; [lia|]. simpl in IH. rewrite IH. lia. Qed.
Lemma num_start_S num : num_start p (S num) = num_start p num + nth num (num_lens p) 0.
Proof. unfold num_start. apply sum_firstn_S. Qed.
Lemma nth_pairs {X} (f : X -> nat) (l : list X) rest : forall k x, nth_error l k = Some x ->
  nth (2 * k) (flat_map (fun y => [f y; f y]) l ++ rest) 0 = f x /\ nth (2 * k + 1) (flat_map (fun y => [f y; f y]) l ++ rest) 0 = f x.
Proof. induction l as [|y l IH]; intros k x H; [destruct k; discriminate|]. destruct k as [|k]; simpl in H.
  - inversion H; subst. simpl. auto.
  - destruct (IH k x H) as [A B]. replace (2 * S k) with (S (S (2 * k))) by lia. replace (S (S (2 * k)) + 1) with (S (S (2 * k + 1))) by lia. simpl. auto. Qed.
Lemma lens_base k n t : nth_error (p_bases p) k = Some (n, t) ->
  nth (2 * k) (num_lens p) 0 = List.length t /\ nth (2 * k + 1) (num_lens p) 0 = List.length t.
Proof. intros H. unfold num_lens.
  assert (Q : flat_map (fun '(_, t) => [List.length t; List.length t]) (p_bases p) = flat_map (fun y : string * list ascii => [List.length (snd y); List.length (snd y)]) (p_bases p)).
  { apply flat_map_ext. intros [a b]. reflexivity. }
  rewrite Q. apply (nth_pairs (fun y : string * list ascii => List.length (snd y)) (p_bases p) _ k (n, t) H). Qed.
Lemma lens_sup j n its l : nth_error (p_sups p) j = Some (n, (its, l)) ->
  nth (2 * List.length (p_bases p) + 2 * j) (num_lens p) 0 = l /\ nth (2 * List.length (p_bases p) + 2 * j + 1) (num_lens p) 0 = l.
Proof. intros H. unfold num_lens.
  assert (L : List.length (flat_map (fun '(_, t) => [List.length t; List.length t]) (p_bases p)) = 2 * List.length (p_bases p)).
  { induction (p_bases p) as [|[a b] bs IH]; [reflexivity|]. simpl. rewrite IH. lia. }
  assert (Q : flat_map (fun '(_, (_, l)) => [l; l]) (p_sups p) = flat_map (fun y : string * (list sref * nat) => [snd (snd y); snd (snd y)]) (p_sups p)).
  { apply flat_map_ext. intros [a [b c]]. reflexivity. }
  rewrite Q. rewrite !app_nth2 by lia. rewrite L.
  replace (2 * List.length (p_bases p) + 2 * j - 2 * List.length (p_bases p)) with (2 * j) by lia.
  replace (2 * List.length (p_bases p) + 2 * j + 1 - 2 * List.length (p_bases p)) with (2 * j + 1) by lia.
  pose proof (nth_pairs (fun y : string * (list sref * nat) => snd (snd y)) (p_sups p) [] j (n, (its, l)) H) as [A B]. rewrite app_nil_r in A, B. auto. Qed.

Lemma fst_combine_seq {X} (f : nat -> dnode) (t : list X) : forall s, 
  map fst (map (fun xc : nat * X => (f (fst xc), snd xc)) (combine (seq s (List.length t)) t)) = map f (seq s (List.length t)).
Proof. induction t as [|c t IH]; intros s; [reflexivity|]. simpl. rewrite IH. reflexivity. Qed.
Lemma enc_run num len : map encn (map (fun x => DAux num x) (seq 0 len)) = map (fun x => l_npos lay + num_start p num + x) (seq 0 len).
Proof. rewrite map_map. reflexivity. Qed.

Let NS (num : nat) : nat := l_npos lay + num_start p num.
Lemma base_ib bs : forall num0,
  (forall k n t, nth_error bs k = Some (n, t) -> nth (num0 + 2 * k) (num_lens p) 0 = List.length t /\ nth (num0 + 2 * k + 1) (num_lens p) 0 = List.length t) ->
  ib (NS num0) (NS (num0 + 2 * List.length bs)) (map encn (map fst (base_nodes bs num0))).
Proof. induction bs as [|[n t] bs IH]; intros num0 H.
  - simpl. rewrite Nat.add_0_r. apply ib_nil.
  - destruct (H 0 n t eq_refl) as [H0 H1]. rewrite Nat.add_0_r in H0. replace (num0 + 2 * 0 + 1) with (S num0) in H1 by lia.
    cbn [base_nodes]. rewrite !map_app, (fst_combine_seq (fun x => DAux num0 x) t 0), !map_map. cbn [fst].
    assert (E1 : NS (S num0) = NS num0 + List.length t) by (unfold NS; rewrite num_start_S, H0; lia).
    assert (E2 : NS (S (S num0)) = NS (S num0) + List.length t) by (unfold NS; rewrite (num_start_S (S num0)), H1; lia).
    assert (IHb : ib (NS (S (S num0))) (NS (num0 + 2 * List.length ((n, t) :: bs))) (map encn (map fst (base_nodes bs (S (S num0)))))).
    { replace (num0 + 2 * List.length ((n, t) :: bs)) with (S (S num0) + 2 * List.length bs) by (simpl; lia). apply IH.
      intros k n' t' Hk. replace (S (S num0) + 2 * k) with (num0 + 2 * S k) by lia. apply (H (S k) n' t' Hk). }
    assert (M : NS (S (S num0)) <= NS (num0 + 2 * List.length ((n, t) :: bs))).
    { destruct IHb as [_ B]. destruct (map encn (map fst (base_nodes bs (S (S num0))))) as [|z zs] eqn:Z.
      - clear - NS. (* empty rest: all remaining lengths are zero, bound by monotonicity of num_start *)
        assert (MON : forall a b, a <= b -> num_start p a <= num_start p b).
        { intros a b Lab. induction Lab; [lia|]. rewrite num_start_S. lia. }
        pose proof (MON (S (S num0)) (num0 + 2 * List.length ((n, t) :: bs)) ltac:(simpl; lia)). unfold NS. lia.
      - pose proof (B z (or_introl eq_refl)). lia. }
    apply (ib_app _ (NS (S num0))); [lia | lia | rewrite E1; apply (ib_run (NS num0) (List.length t))|].
    apply (ib_app _ (NS (S (S num0)))); [lia | exact M | rewrite E2; apply (ib_run (NS (S num0)) (List.length t)) | rewrite map_map in IHb; exact IHb]. Qed.

Lemma NS_mono a b : a <= b -> NS a <= NS b.
Proof. intros Lab. unfold NS. induction Lab; [lia|]. rewrite num_start_S. lia. Qed.

Lemma sup_ib ss : forall num0,
  (forall j n its l, nth_error ss j = Some (n, (its, l)) -> nth (num0 + 2 * j) (num_lens p) 0 = l /\ nth (num0 + 2 * j + 1) (num_lens p) 0 = l) ->
  ib (NS num0) (NS (num0 + 2 * List.length ss)) (map encn (map fst (sup_nodes ss num0))).
Proof. induction ss as [|[n [its l]] ss IH]; intros num0 H.
  - simpl. rewrite Nat.add_0_r. apply ib_nil.
  - destruct (H 0 n its l eq_refl) as [H0 H1]. rewrite Nat.add_0_r in H0. replace (num0 + 2 * 0 + 1) with (S num0) in H1 by lia.
    cbn [sup_nodes]. rewrite !map_app, !map_map. cbn [fst].
    assert (E1 : NS (S num0) = NS num0 + l) by (unfold NS; rewrite num_start_S, H0; lia).
    assert (E2 : NS (S (S num0)) = NS (S num0) + l) by (unfold NS; rewrite (num_start_S (S num0)), H1; lia).
    assert (IHb : ib (NS (S (S num0))) (NS (num0 + 2 * List.length ((n, (its, l)) :: ss))) (map encn (map fst (sup_nodes ss (S (S num0)))))).
    { replace (num0 + 2 * List.length ((n, (its, l)) :: ss)) with (S (S num0) + 2 * List.length ss) by (simpl; lia). apply IH.
      intros j n' its' l' Hj. replace (S (S num0) + 2 * j) with (num0 + 2 * S j) by lia. apply (H (S j) n' its' l' Hj). }
    assert (M : NS (S (S num0)) <= NS (num0 + 2 * List.length ((n, (its, l)) :: ss))) by (apply NS_mono; simpl; lia).
    apply (ib_app _ (NS (S num0))); [lia | lia | rewrite E1; apply (ib_run (NS num0) l)|].
    apply (ib_app _ (NS (S (S num0)))); [lia | exact M | rewrite E2; apply (ib_run (NS (S num0)) l) | rewrite map_map in IHb; exact IHb]. Qed.

Theorem nodes_sincr : sincr (map encn (nodes p false)) = true.
Proof. unfold nodes, d_nodes. rewrite !map_app.
  assert (P : ib 0 (l_npos lay) (map encn (map fst (pos_nodes p false)))).
  { pose proof (pos_ib (p_strands p) [] eq_refl) as Q. unfold width at 1 2 in Q. simpl in Q. rewrite <- npos_width in Q.
    unfold pos_nodes. rewrite map_map_flat_map. erewrite flat_map_ext; [exact Q|]. intros [n [[its len] d]]. rewrite !map_map. reflexivity. }
  assert (B : ib (NS 0) (NS (0 + 2 * List.length (p_bases p))) (map encn (map fst (base_nodes (p_bases p) 0)))).
  { apply base_ib. intros k n t Hk. apply (lens_base k n t Hk). }
  assert (S0 : ib (NS (nb p)) (NS (nb p + 2 * List.length (p_sups p))) (map encn (map fst (sup_nodes (p_sups p) (nb p))))).
  { apply sup_ib. intros j n its l Hj. apply (lens_sup j n its l Hj). }
  assert (Z : NS 0 = l_npos lay) by (unfold NS, num_start; simpl; lia).
  apply (ib_app 0 (l_npos lay) (NS (nb p + 2 * List.length (p_sups p)))); [lia | rewrite <- Z; apply NS_mono; lia | exact P|].
  rewrite <- Z. apply (ib_app _ (NS (nb p))); [apply NS_mono; lia | apply NS_mono; lia | exact B | exact S0]. Qed.

(* ---- every link joins declared nodes ---- *)
Let WF : spec_wf p false := LI_spec_wf p false LIp (fun H => False_ind _ (Bool.diff_false_true H)).

Lemma pos_node n its l d o : In (n, (its, l, d)) (p_strands p) -> o < l -> In (DPos n o) (nodes p false).
Proof. intros Hin Ho. unfold nodes, d_nodes. rewrite map_app. apply in_or_app. left. apply in_map_iff. exists (DPos n o, Nc). split; [reflexivity|].
  unfold pos_nodes. apply in_flat_map. exists (n, (its, l, d)). split; [exact Hin|]. apply in_map_iff. exists o. split; [reflexivity | apply in_seq; lia]. Qed.
Lemma base_nodes_mem bs : forall num0 k n t x, nth_error bs k = Some (n, t) -> x < List.length t ->
  In (DAux (num0 + 2 * k) x) (map fst (base_nodes bs num0)) /\ In (DAux (num0 + 2 * k + 1) x) (map fst (base_nodes bs num0)).
Proof. induction bs as [|[n0 t0] bs IH]; intros num0 k n t x Hk Hx; [destruct k; discriminate|]. cbn [base_nodes]. rewrite !map_app, !in_app_iff.
  destruct k as [|k]; simpl in Hk.
  - inversion Hk; subst. rewrite (fst_combine_seq (fun y => DAux num0 y) t 0). split.
    + left. apply in_map_iff. exists x. split; [f_equal; lia | apply in_seq; lia].
    + right. left. rewrite map_map. apply in_map_iff. exists x. split; [simpl; f_equal; lia | apply in_seq; lia].
  - destruct (IH (S (S num0)) k n t x Hk Hx) as [A B]. replace (num0 + 2 * S k) with (S (S num0) + 2 * k) by lia. auto. Qed.
Lemma sup_nodes_mem ss : forall num0 j n its l x, nth_error ss j = Some (n, (its, l)) -> x < l ->
  In (DAux (num0 + 2 * j) x) (map fst (sup_nodes ss num0)) /\ In (DAux (num0 + 2 * j + 1) x) (map fst (sup_nodes ss num0)).
Proof. induction ss as [|[n0 [its0 l0]] ss IH]; intros num0 j n its l x Hj Hx; [destruct j; discriminate|]. cbn [sup_nodes]. rewrite !map_app, !in_app_iff, !map_map.
  destruct j as [|j]; simpl in Hj.
  - inversion Hj; subst. split.
    + left. apply in_map_iff. exists x. split; [simpl; f_equal; lia | apply in_seq; lia].
    + right. left. apply in_map_iff. exists x. split; [simpl; f_equal; lia | apply in_seq; lia].
  - destruct (IH (S (S num0)) j n its l x Hj Hx) as [A B]. replace (num0 + 2 * S j) with (S (S num0) + 2 * j) by lia. auto. Qed.
Lemma base_node k n t x (r : bool) : nth_error (p_bases p) k = Some (n, t) -> x < List.length t -> In (DAux (2 * k + (if r then 1 else 0)) x) (nodes p false).
Proof. intros Hk Hx. unfold nodes, d_nodes. rewrite !map_app, !in_app_iff. right. left. destruct (base_nodes_mem (p_bases p) 0 k n t x Hk Hx) as [A B].
  destruct r; [exact B | rewrite Nat.add_0_r; exact A]. Qed.
Lemma sup_node j n its l x (r : bool) : nth_error (p_sups p) j = Some (n, (its, l)) -> x < l -> In (DAux (nb p + 2 * j + (if r then 1 else 0)) x) (nodes p false).
Proof. intros Hj Hx. unfold nodes, d_nodes. rewrite !map_app, !in_app_iff. right. right. destruct (sup_nodes_mem (p_sups p) (nb p) j n its l x Hj Hx) as [A B].
  destruct r; [exact B | rewrite Nat.add_0_r; exact A]. Qed.
Lemma num_node B it num x : item_ok p B it -> sref_num p it = Some num -> x < sref_len p it -> In (DAux num x) (nodes p false).
Proof. intros OK HN Hx. destruct it as [n r|n r]; cbn [item_ok sref_num sref_len] in *.
  - destruct OK as [k [t [E1 [E2 E3]]]]. rewrite E1 in HN. rewrite E3 in Hx. cbn [option_map] in HN. inversion HN. apply (base_node k n t x r E2 Hx).
  - destruct OK as [j [its [l [E1 [_ [E2 E3]]]]]]. rewrite E1 in HN. rewrite E3 in Hx. cbn [option_map] in HN. inversion HN. apply (sup_node j n its l x r E2 Hx). Qed.

Theorem links_valid a b : In (a, b) (dlinks p false) -> In a (nodes p false) /\ In b (nodes p false).
Proof. unfold dlinks, d_eq, d_wc, inst_links. cbn [app]. rewrite !in_app_iff. intros [[H|[H|H]]|[H|[H|H]]].
  - (* equal statements *)
    unfold equal_links in H. apply in_flat_map in H. destruct H as [eqlist [Hin H]]. destruct eqlist as [|first rest]; [destruct H|].
    destruct (li_equal p LIp first rest Hin first (or_introl eq_refl)) as [IF _].
    destruct (sref_num p first) as [n0|] eqn:N0; [|destruct H]. apply in_flat_map in H. destruct H as [s0 [Hs H]].
    destruct (li_equal p LIp first rest Hin s0 (or_intror Hs)) as [IS EL].
    destruct (sref_num p s0) as [n1|] eqn:N1; [|destruct H]. apply in_map_iff in H. destruct H as [x [E Hx]]. inversion E; subst. apply in_seq in Hx.
    split; [apply (num_node _ first n0 x (iok_item_ok p _ first LIp IF) N0); rewrite <- EL; lia | apply (num_node _ s0 n1 x (iok_item_ok p _ s0 LIp IS) N1); lia].
  - (* items of super-sequences *)
    unfold sup_item_links in H. apply in_flat_map in H. destruct H as [[n [items l]] [Hin H]]. apply In_nth_error in Hin. destruct Hin as [j Hj].
    destruct (wf_sup p false WF j n items l Hj) as [OK EL]. cbn [sref_num] in H. rewrite (wf_sup_idx p false WF j n items l Hj) in H. cbn [option_map] in H.
    apply (item_links_In p j items OK) in H. destruct H as [pre [it [post [num [x [E [A [Bx [-> ->]]]]]]]]].
    assert (OKit : item_ok p j it) by (apply OK; rewrite E; apply in_or_app; right; left; reflexivity).
    split; [|apply (num_node j it num x OKit A Bx)].
    replace (2 * List.length (p_bases p) + 2 * j + 0) with (nb p + 2 * j + (if false then 1 else 0)) by (unfold nb; lia).
    apply (sup_node j n items l _ false Hj). rewrite EL, E, refs_total_app. simpl. lia.
  - (* items of strands *)
    unfold strand_item_links in H. apply in_flat_map in H. destruct H as [[n [[items l] d]] [Hin H]].
    destruct (wf_strand p false WF n items l d Hin) as [_ [OK EL]].
    apply (item_links_In p _ items OK) in H. destruct H as [pre [it [post [num [x [E [A [Bx [-> ->]]]]]]]]].
    assert (OKit : item_ok p (List.length (p_sups p)) it) by (apply OK; rewrite E; apply in_or_app; right; left; reflexivity).
    split; [|apply (num_node _ it num x OKit A Bx)]. unfold spos. apply (pos_node n items l d _ Hin). rewrite EL, E, refs_total_app. simpl. lia.
  - (* base pairs *)
    unfold bond_links in H. apply in_flat_map in H. destruct H as [[sn [[names s] ln]] [Hin H]]. destruct (get_bonds s) as [bs|]; [|destruct H].
    apply in_flat_map in H. destruct H as [[x y] [_ H]]. cbn [andb] in H.
    destruct (walk_sym p names x) as [[n1 o1]|] eqn:W1; [|destruct H]. destruct (walk_sym p names y) as [[n2 o2]|] eqn:W2; [|destruct H].
    destruct H as [H|[]]. inversion H; subst.
    destruct (walk_sym_spec p names x n1 o1 W1) as [_ [_ [_ [_ L1]]]]. destruct (walk_sym_spec p names y n2 o2 W2) as [_ [_ [_ [_ L2]]]].
    destruct (strand_len_pos p n1 o1 L1) as [i1 [l1 [d1 [H1 E1]]]]. destruct (strand_len_pos p n2 o2 L2) as [i2 [l2 [d2 [H2 E2]]]].
    split; [apply (pos_node n1 i1 l1 d1 o1 H1); lia | apply (pos_node n2 i2 l2 d2 o2 H2); lia].
  - (* reversed views of sequences *)
    apply (view_links_In p) in H. destruct H as [i [l [x [Hl [Hx [-> ->]]]]]]. rewrite nth_error_map in Hl.
    destruct (nth_error (p_bases p) i) as [[n t]|] eqn:Hb; [|discriminate]. simpl in Hl. inversion Hl; subst l.
    split; [apply (base_node i n t x true Hb Hx) | replace (0 + 2 * i) with (2 * i + (if false then 1 else 0)) by lia; apply (base_node i n t _ false Hb); lia].
  - (* reversed views of super-sequences *)
    apply (view_links_In p) in H. destruct H as [i [l [x [Hl [Hx [-> ->]]]]]]. rewrite nth_error_map in Hl.
    destruct (nth_error (p_sups p) i) as [[n [its l']]|] eqn:Hs; [|discriminate]. simpl in Hl. inversion Hl; subst l'.
    split; [apply (sup_node i n its l x true Hs Hx) | replace (nb p + 2 * i) with (nb p + 2 * i + (if false then 1 else 0)) by lia; apply (sup_node i n its l _ false Hs); lia]. Qed.

Lemma memd_complete a l : In a l -> memd a l = true.
Proof. intros H. unfold memd. apply existsb_exists. exists a. split; [exact H | apply dnode_eqb_eq; reflexivity]. Qed.
Theorem dgraph_ok_strand : dgraph_ok p lay false = true.
Proof. unfold dgraph_ok. rewrite nodes_sincr. apply forallb_forall. intros [a b] H. destruct (links_valid a b H) as [A B].
  cbn [fst snd]. rewrite (memd_complete a _ A), (memd_complete b _ B). reflexivity. Qed.
End Layout.
