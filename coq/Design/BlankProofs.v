(* C04 / C05, strand layout: the nucleotides of the strands sit exactly where the layout formula says
   and everything else is blank - in particular exactly two blanks follow every strand. *)
From Coq Require Import List String Ascii Arith Bool Lia.
From PC Require Import Base.Codes Comp.Syntax Comp.Compile Comp.EmitProofs Design.Propagate Design.PropagateProofs Design.Designer Design.DesignerProofs
  Design.TemplateProofs Design.DGraph Design.DenoteGraph Design.DenoteTie Design.DenoteSat Design.LoadProofs Design.SeedProofs Design.LayoutProofs Design.Loaded.
Import ListNotations.
Local Open Scope list_scope.

Section Blanks.
Variable ls : list pline.
Variable p : pspec.
Variable lay : layout.
Variable g : cgraph.
Hypothesis LOAD : load_spec ls pspec0 = OK p.
Hypothesis SEED : seed p false = OK (lay, g).
Variables (e w : list (option nat)) (s : list (option ascii)).
Hypothesis ARR : get_constraints p false = DOk e w s.

Let LIp : LI p := load_spec_LI ls pspec0 p LI_empty LOAD.
Let GOK := loaded_graph_ok ls p lay g LOAD SEED.
Let EL := loaded_layout p lay g SEED.

Definition in_strand (i : nat) : Prop :=
  exists n its l d o, In (n, (its, l, d)) (p_strands p) /\ o < l /\ i = tstart_of lay n + o.

Lemma keys_are_nodes : g_keys g = map (enc p lay) (nodes p false).
Proof. apply (keys_nodes p lay false g (loaded_same p lay g SEED) GOK). Qed.

(* the keys below npos are exactly the strand positions *)
Lemma key_positions i : i < l_npos lay -> (In i (g_keys g) <-> in_strand i).
Proof. intros Li. rewrite keys_are_nodes. split.
  - intros H. apply in_map_iff in H. destruct H as [nd [E Hnd]]. unfold nodes, d_nodes in Hnd. rewrite !map_app, !in_app_iff in Hnd.
    destruct Hnd as [Hnd|Hnd].
    + apply in_map_iff in Hnd. destruct Hnd as [[nd' c] [E' Hin]]. simpl in E'. subst nd'. unfold pos_nodes in Hin. apply in_flat_map in Hin.
      destruct Hin as [[n [[its l] d]] [Hs Hin]]. apply in_map_iff in Hin. destruct Hin as [o [E'' Ho]]. inversion E''; subst. apply in_seq in Ho.
      exists n, its, l, d, o. split; [exact Hs | split; [lia | reflexivity]].
    + exfalso. rewrite EL in E, Li.
      assert (GE : l_npos (build_layout p false) <= enc p (build_layout p false) nd).
      { destruct Hnd as [Hnd|Hnd].
        - destruct (base_ib p (p_bases p) 0 (fun k n t Hk => lens_base p k n t Hk)) as [_ B]. specialize (B _ (in_map _ _ _ Hnd)).
          unfold num_start in B. cbn [firstn sum_list] in B. lia.
        - destruct (sup_ib p (p_sups p) (nb p) (fun j n its l Hj => lens_sup p j n its l Hj)) as [_ B]. specialize (B _ (in_map _ _ _ Hnd)).
          pose proof (NS_mono p 0 (nb p) ltac:(lia)) as M. unfold num_start in M at 1. cbn [firstn sum_list] in M. lia. }
      lia.
  - intros [n [its [l [d [o [Hs [Ho ->]]]]]]]. rewrite EL. apply in_map_iff. exists (DPos n o). split; [reflexivity|]. apply (pos_node p n its l d o Hs Ho). Qed.

(* the template array is blank exactly off the strands *)
Theorem blank_iff_off_strand i : i < List.length s -> (nth_error s i = Some None <-> ~ in_strand i).
Proof. intros Li. assert (Lp : i < l_npos lay).
  { pose proof ARR as A. unfold get_constraints in A. rewrite SEED in A. destruct (propagate _ _ _) as [m| |]; try discriminate.
    destruct (templates m _ _ _) as [[st'|] b]; [|destruct b; discriminate]. inversion A; subst s. rewrite map_length, seq_length in Li.
    pose proof (ContractProofs.fold_max_le (l_npos lay) (g_keys g) 0 ltac:(lia)). lia. }
  destruct (template_clause p false lay g SEED GOK e w s ARR i Li) as [T1 T2]. split.
  - intros H C. apply (key_positions i Lp) in C. destruct (T1 C) as [c [S0 [A _]]]. congruence.
  - intros H. apply T2. intros C. apply H. apply (key_positions i Lp), C. Qed.

(* exactly two blanks follow every strand (as far as the arrays reach) *)
Theorem two_blanks_after_strand pre n its l d post x : p_strands p = pre ++ (n, (its, l, d)) :: post ->
  (x = width pre + l \/ x = width pre + l + 1) -> x < List.length s ->
  tstart_of lay n = width pre /\ nth_error s x = Some None /\
  (forall n' its' l' d' post', post = (n', (its', l', d')) :: post' -> tstart_of lay n' = width pre + l + 2).
Proof. intros E Hx Lx. rewrite EL. destruct (tstart_entry p LIp pre n its l d post E) as [_ T]. split; [exact T|]. split.
  - apply (blank_iff_off_strand x Lx). intros [n' [its' [l' [d' [o [Hs [Ho Ex]]]]]]]. rewrite EL in Ex.
    rewrite E in Hs. apply in_app_or in Hs. destruct Hs as [Hs|[Hs|Hs]].
    + destruct (in_split _ _ Hs) as [p1 [p2 Ep]]. assert (E2 : p_strands p = p1 ++ (n', (its', l', d')) :: (p2 ++ (n, (its, l, d)) :: post)) by (rewrite E, Ep, <- app_assoc; reflexivity).
      destruct (tstart_entry p LIp p1 n' its' l' d' _ E2) as [_ T']. rewrite T' in Ex. rewrite Ep, width_app, width_cons in Hx. lia.
    + injection Hs as Hn Hi Hl Hd. rewrite <- Hn, T in Ex. rewrite <- Hl in Ho. lia.
    + destruct (in_split _ _ Hs) as [q1 [q2 Eq]]. assert (E2 : p_strands p = (pre ++ (n, (its, l, d)) :: q1) ++ (n', (its', l', d')) :: q2) by (rewrite E, Eq, <- app_assoc; reflexivity).
      destruct (tstart_entry p LIp _ n' its' l' d' _ E2) as [_ T']. rewrite T', width_app, width_cons in Ex. lia.
  - intros n' its' l' d' post' Ep. subst post. assert (E2 : p_strands p = (pre ++ [(n, (its, l, d))]) ++ (n', (its', l', d')) :: post') by (rewrite E, <- app_assoc; reflexivity).
    destruct (tstart_entry p LIp _ n' its' l' d' _ E2) as [_ T']. rewrite T', width_app, width_cons. unfold width at 2. simpl. lia. Qed.
End Blanks.
