(* Across the stages: a PIL document that passes the well-formedness predicate of C09 (wf_pil, which
   every compiled component's emission satisfies) and whose templates are nucleotide codes is accepted
   by the designer's loader; hence every compiled component flows into constraint generation, which
   then reports over-constraint or returns arrays (strand layout). *)
From Coq Require Import List String Ascii Arith Bool Lia.
From PC Require Import Base.Codes Comp.Syntax Comp.Struct Comp.Compile Comp.Denote Comp.EmitProofs Comp.CompileProofs Comp.WfCheck Comp.WfPil
  Design.Designer Design.LoadProofs Design.SeedTotal.
Import ListNotations.
Local Open Scope list_scope.

Lemma bal_bonds l : forall d pos stack acc, bal d l = true -> List.length stack = d -> exists bs, bonds_aux l pos stack acc = OK bs.
Proof. induction l as [|c l IH]; intros d pos stack acc H L; simpl; [eauto|]. destruct c; simpl in H.
  - apply (IH d _ _ _ H L).
  - apply (IH (S d) _ _ _ H). simpl. congruence.
  - destruct d as [|d]; [discriminate|]. destruct stack as [|o st]; [discriminate|]. apply (IH d _ _ _ H). simpl in L. congruence.
  - apply (IH d _ _ _ H L). Qed.
Lemma balanced_bonds s : balanced s = true -> exists bs, get_bonds s = OK bs.
Proof. intros H. apply (bal_bonds s 0 0 [] [] H eq_refl). Qed.

Definition nlen (p : pspec) (n : string) : nat :=
  match afind (p_bases p) n with Some t => List.length t | None => match afind (p_sups p) n with Some (_, l) => l | None => 0 end end.
Record Sim (w : wstate) (p : pspec) : Prop := {
  sim_names : forall n, ahas (w_env w) n = ahas (p_bases p) n || ahas (p_sups p) n;
  sim_len : forall n v, afind (w_env w) n = Some v -> nlen p n = List.length v;
  sim_strands : forall n, afind (w_strands w) n = option_map (fun x : list sref * nat * bool => snd (fst x)) (afind (p_strands p) n);
  sim_structs : forall n, smem n (w_structs w) = ahas (p_structs p) n }.

Lemma rc_length (v : list nt) : List.length (rc v) = List.length v.
Proof. unfold rc. rewrite map_length, rev_length. reflexivity. Qed.

(* the items of a line resolve in the loader as they do in the checker, to the same length *)
Lemma get_seqs_sim w p items : Sim w p -> forall v, resolve_items (w_env w) items = Some v ->
  exists rs, get_seqs p items = OK rs /\ refs_len p rs = List.length v /\ List.length rs = List.length items /\
             forall k it, nth_error rs k = Some it -> exists n st v0, nth_error items k = Some (n, st) /\ afind (w_env w) n = Some v0 /\ sref_len p it = List.length v0.
Proof. intros S. induction items as [|[n st] items IH]; intros v H; simpl in H.
  - inversion H; subst. exists []. simpl. split; [reflexivity | split; [reflexivity | split; [reflexivity|]]]. intros k it Hk. destruct k; discriminate.
  - destruct (afind (w_env w) n) as [v0|] eqn:A; [|discriminate]. destruct (resolve_items (w_env w) items) as [rest|] eqn:R; [|discriminate]. inversion H; subst v. clear H.
    destruct (IH rest eq_refl) as [rs [G [L [LL NTH]]]].
    assert (HN : ahas (w_env w) n = true) by (unfold ahas; rewrite A; reflexivity). rewrite (sim_names w p S) in HN.
    pose proof (sim_len w p S n v0 A) as NL.
    assert (G2 : forall a rs0, refs_len p (a :: rs0) = sref_len p a + refs_len p rs0).
    { intros a rs0. rewrite !refs_len_total. reflexivity. }
    simpl. destruct (ahas (p_bases p) n) eqn:AB.
    + rewrite G. simpl. exists (SB n st :: rs). split; [reflexivity|]. unfold ahas in AB. unfold nlen in NL. destruct (afind (p_bases p) n) as [t|] eqn:Q; [|discriminate].
      split; [|split; [simpl; congruence|]].
      * rewrite G2. simpl. rewrite Q, L, app_length. destruct st; rewrite ?rc_length; lia.
      * intros k it Hk. destruct k as [|k]; simpl in Hk; [|apply (NTH k it Hk)]. inversion Hk; subst. exists n, st, v0. simpl. rewrite Q. auto.
    + simpl in HN. rewrite HN, G. simpl. exists (SS n st :: rs). split; [reflexivity|]. unfold ahas in AB, HN. unfold nlen in NL.
      destruct (afind (p_bases p) n) eqn:Q; [discriminate|]. destruct (afind (p_sups p) n) as [[its l]|] eqn:Q2; [|discriminate].
      split; [|split; [simpl; congruence|]].
      * rewrite G2. simpl. rewrite Q2, L, app_length. destruct st; rewrite ?rc_length; lia.
      * intros k it Hk. destruct k as [|k]; simpl in Hk; [|apply (NTH k it Hk)]. inversion Hk; subst. exists n, st, v0. simpl. rewrite Q2. auto. Qed.

Lemma strand_lens_sim w p names lens : Sim w p -> strand_lens (w_strands w) names = Some lens -> strand_lens_of p names = OK lens.
Proof. intros S. revert lens. induction names as [|n names IH]; intros lens H; simpl in H; [inversion H; reflexivity|].
  destruct (afind (w_strands w) n) as [l|] eqn:A; [|discriminate]. destruct (strand_lens (w_strands w) names) as [ls|]; [|discriminate]. inversion H; subst.
  rewrite (sim_strands w p S) in A. simpl. destruct (afind (p_strands p) n) as [[[its l0] d]|]; [|discriminate]. simpl in A. inversion A; subst.
  rewrite (IH ls eq_refl). reflexivity. Qed.

Theorem wf_line_loads w p l w' : Sim w p ->
  (forall n k len, l = PSeq n k len -> valid_template k = true) ->
  wf_run [l] w = Some w' -> exists p', load_line p l = OK p' /\ Sim w' p'.
Proof. intros S VT H. destruct l as [n k len|n items len|d n items len|o n ss s|lo hi ins outs|items]; cbn [wf_run] in H.
  - (* sequence *)
    destruct (negb (ahas (w_env w) n) && Nat.eqb (List.length k) len) eqn:C; [|discriminate]. inversion H; subst w'. clear H.
    apply andb_prop in C. destruct C as [C1 C2]. apply negb_true_iff in C1. pose proof C1 as C1'. rewrite (sim_names w p S) in C1'.
    cbn [load_line]. rewrite (VT n k len eq_refl), C1'. cbn [negb]. eexists. split; [reflexivity|].
    apply orb_false_elim in C1'. destruct C1' as [NB NS]. unfold ahas in NB, NS.
    destruct (afind (p_bases p) n) eqn:QB; [discriminate|]. destruct (afind (p_sups p) n) eqn:QS; [discriminate|].
    constructor; cbn [w_env w_strands w_structs p_bases p_sups p_strands p_structs].
    + intros m. rewrite !ahas_app. rewrite (sim_names w p S m). unfold ahas. simpl. destruct (String.eqb n m), (afind (p_bases p) m), (afind (p_sups p) m); reflexivity.
    + intros m v Hm. rewrite afind_app in Hm. unfold nlen. cbn [p_bases p_sups]. rewrite afind_app.
      destruct (afind (w_env w) m) as [v1|] eqn:A.
      * inversion Hm; subst v1. pose proof (sim_len w p S m v A) as NL. unfold nlen in NL. destruct (afind (p_bases p) m) eqn:Q; [exact NL|].
        simpl. destruct (String.eqb n m) eqn:E; [|exact NL]. apply String.eqb_eq in E. subst m. unfold ahas in C1. rewrite A in C1. discriminate.
      * simpl in Hm. destruct (String.eqb n m) eqn:E; [|discriminate]. apply String.eqb_eq in E. subst m. inversion Hm; subst v. rewrite QB. simpl. rewrite String.eqb_refl.
        unfold dom_nts. rewrite map_length, seq_length. reflexivity.
    + apply (sim_strands w p S). + apply (sim_structs w p S).
  - (* super-sequence *)
    destruct (resolve_items (w_env w) items) as [v|] eqn:R; [|discriminate].
    destruct (negb (ahas (w_env w) n) && Nat.eqb (List.length v) len) eqn:C; [|discriminate]. inversion H; subst w'. clear H.
    apply andb_prop in C. destruct C as [C1 C2]. apply negb_true_iff in C1. pose proof C1 as C1'. rewrite (sim_names w p S) in C1'. apply Nat.eqb_eq in C2.
    destruct (get_seqs_sim w p items S v R) as [rs [G [L _]]]. cbn [load_line]. rewrite C1', G. cbn [bind]. eexists. split; [reflexivity|].
    apply orb_false_elim in C1'. destruct C1' as [NB NS]. unfold ahas in NB, NS.
    destruct (afind (p_bases p) n) eqn:QB; [discriminate|]. destruct (afind (p_sups p) n) eqn:QS; [discriminate|].
    constructor; cbn [w_env w_strands w_structs p_bases p_sups p_strands p_structs].
    + intros m. rewrite !ahas_app. rewrite (sim_names w p S m). unfold ahas. simpl. destruct (String.eqb n m), (afind (p_bases p) m), (afind (p_sups p) m); reflexivity.
    + intros m v1 Hm. rewrite afind_app in Hm. unfold nlen. cbn [p_bases p_sups]. rewrite afind_app.
      destruct (afind (w_env w) m) as [v2|] eqn:A.
      * inversion Hm; subst v2. pose proof (sim_len w p S m v1 A) as NL. unfold nlen in NL. destruct (afind (p_bases p) m) eqn:Q; [exact NL|].
        destruct (afind (p_sups p) m) as [[its l]|] eqn:Q2; [exact NL|]. simpl. destruct (String.eqb n m) eqn:E; [|exact NL].
        apply String.eqb_eq in E. subst m. unfold ahas in C1. rewrite A in C1. discriminate.
      * simpl in Hm. destruct (String.eqb n m) eqn:E; [|discriminate]. apply String.eqb_eq in E. subst m. inversion Hm; subst v1. rewrite QB, QS. simpl. rewrite String.eqb_refl. exact L.
    + apply (sim_strands w p S). + apply (sim_structs w p S).
  - (* strand *)
    destruct (resolve_items (w_env w) items) as [v|] eqn:R; [|discriminate].
    destruct (negb (ahas (w_strands w) n) && Nat.eqb (List.length v) len) eqn:C; [|discriminate]. inversion H; subst w'. clear H.
    apply andb_prop in C. destruct C as [C1 C2]. apply negb_true_iff in C1. apply Nat.eqb_eq in C2.
    assert (NP : ahas (p_strands p) n = false).
    { unfold ahas in *. rewrite (sim_strands w p S) in C1. destruct (afind (p_strands p) n); [discriminate | reflexivity]. }
    destruct (get_seqs_sim w p items S v R) as [rs [G [L _]]]. cbn [load_line]. rewrite NP, G. cbn [bind]. eexists. split; [reflexivity|].
    constructor; cbn [w_env w_strands w_structs p_bases p_sups p_strands p_structs].
    + apply (sim_names w p S). + apply (sim_len w p S).
    + intros m. rewrite !afind_app, (sim_strands w p S m). destruct (afind (p_strands p) m); [reflexivity|]. simpl. destruct (String.eqb n m); [|reflexivity]. simpl. congruence.
    + apply (sim_structs w p S).
  - (* structure *)
    destruct (strand_lens (w_strands w) ss) as [lens|] eqn:SL; [|discriminate].
    destruct (negb (smem n (w_structs w)) && balanced s && structure_ok s lens) eqn:C; [|discriminate]. inversion H; subst w'. clear H.
    apply andb_prop in C. destruct C as [C C3]. apply andb_prop in C. destruct C as [C1 C2]. apply negb_true_iff in C1. rewrite (sim_structs w p S) in C1.
    destruct (balanced_bonds s C2) as [bs GB]. cbn [load_line]. rewrite C1, (strand_lens_sim w p ss lens S SL). cbn [bind]. rewrite GB. cbn [bind]. rewrite C3.
    eexists. split; [reflexivity|]. constructor; cbn [w_env w_strands w_structs p_bases p_sups p_strands p_structs].
    + apply (sim_names w p S). + apply (sim_len w p S). + apply (sim_strands w p S).
    + intros m. rewrite ahas_app. unfold smem. rewrite existsb_app. fold (smem m (w_structs w)). rewrite (sim_structs w p S m). f_equal.
      unfold ahas. simpl. rewrite orb_false_r. rewrite String.eqb_sym. destruct (String.eqb n m); reflexivity.
  - (* kinetic *)
    destruct (forallb _ ins && forallb _ outs); [|discriminate]. inversion H; subst w'. exists p. split; [reflexivity | exact S].
  - (* equal *)
    destruct items as [|i0 items]; [discriminate|]. destruct (resolve_items (w_env w) [i0]) as [v0|] eqn:R0; [|discriminate].
    destruct (forallb _ (i0 :: items)) eqn:FB; [|discriminate]. inversion H; subst w'. clear H.
    assert (RA : exists v, resolve_items (w_env w) (i0 :: items) = Some v).
    { rewrite forallb_forall in FB. clear R0 VT. induction (i0 :: items) as [|[m st] its IHi]; [eexists; reflexivity|].
      destruct IHi as [vr Er]; [intros x Hx; apply FB; right; exact Hx|]. specialize (FB (m, st) (or_introl eq_refl)). simpl in FB. simpl.
      destruct (afind (w_env w) m) as [vm|]; [|discriminate]. rewrite Er. eauto. }
    destruct RA as [v RV]. destruct (get_seqs_sim w p (i0 :: items) S v RV) as [rs [G [_ [LL NTH]]]].
    cbn [load_line]. rewrite G. cbn [bind]. destruct rs as [|r0 rs]; [simpl in LL; discriminate|].
    assert (F2 : forallb (fun x => Nat.eqb (sref_len p x) (sref_len p r0)) (r0 :: rs) = true).
    { destruct i0 as [n0 st0]. destruct (NTH 0 r0 eq_refl) as [n0' [st0' [vv0 [E0 [A0 L0]]]]]. simpl in E0. inversion E0; subst n0' st0'.
      simpl in R0. rewrite A0 in R0. inversion R0; subst v0. clear R0.
      apply forallb_forall. intros x Hx. apply In_nth_error in Hx. destruct Hx as [k Hk]. destruct (NTH k x Hk) as [m [st [vm [Ek [Am Lm]]]]].
      rewrite forallb_forall in FB. specialize (FB (m, st) (nth_error_In _ _ Ek)). simpl in FB. rewrite Am in FB. apply Nat.eqb_eq in FB.
      apply Nat.eqb_eq. rewrite Lm, L0. rewrite !app_length in FB. simpl in FB. destruct st, st0; rewrite ?rc_length in FB; lia. }
    rewrite F2. eexists. split; [reflexivity|]. constructor; cbn [p_bases p_sups p_strands p_structs]; [apply (sim_names w p S) | apply (sim_len w p S) | apply (sim_strands w p S) | apply (sim_structs w p S)]. Qed.

Lemma Sim0 : Sim w0 pspec0.
Proof. constructor; intros; try reflexivity; discriminate. Qed.

Theorem wf_loads ls : forall w p w', Sim w p -> (forall n k len, In (PSeq n k len) ls -> valid_template k = true) ->
  wf_run ls w = Some w' -> exists p', load_spec ls p = OK p' /\ Sim w' p'.
Proof. induction ls as [|l ls IH]; intros w p w' S VT H.
  - simpl in H. inversion H; subst. exists p. split; [reflexivity | exact S].
  - change (l :: ls) with ([l] ++ ls) in H. rewrite wf_run_app in H. destruct (wf_run [l] w) as [w1|] eqn:E1; [|discriminate].
    destruct (wf_line_loads w p l w1 S (fun n k len El => VT n k len (or_introl El)) E1) as [p1 [L1 S1]].
    destruct (IH w1 p1 w' S1 (fun n k len Hin => VT n k len (or_intror Hin)) H) as [p' [L' S']].
    exists p'. split; [|exact S']. cbn [load_spec]. rewrite L1. cbn [bind]. exact L'. Qed.

(* every document passing the C09 predicate, with nucleotide codes as templates, is accepted by the loader *)
Theorem wf_pil_loads ls : wf_pil ls = true -> (forall n k len, In (PSeq n k len) ls -> valid_template k = true) ->
  exists p, load_spec ls pspec0 = OK p.
Proof. unfold wf_pil. intros H VT. destruct (wf_run ls w0) as [w'|] eqn:E; [|discriminate].
  destruct (wf_loads ls w0 pspec0 w' Sim0 VT E) as [p [L _]]. eauto. Qed.

(* ... and then constraint generation (strand layout) reports over-constraint or returns arrays *)
Theorem wf_pil_designs ls : wf_pil ls = true -> (forall n k len, In (PSeq n k len) ls -> valid_template k = true) ->
  design_arrays ls false = DOver \/ exists e w s, design_arrays ls false = DOk e w s.
Proof. intros H VT. destruct (wf_pil_loads ls H VT) as [p L]. apply (loaded_design_total ls p L). Qed.

(* every compiled component whose constraint strings are nucleotide codes flows into the designer *)
Theorem compiled_component_designs ctr prefix d body c ctr' : compile_comp ctr prefix d body = OK (c, ctr') ->
  (forall n b, In (n, b) (c_bases c) -> valid_template (b_const b) = true) ->
  (exists p, load_spec (emit_comp c) pspec0 = OK p) /\
  (design_arrays (emit_comp c) false = DOver \/ exists e w s, design_arrays (emit_comp c) false = DOk e w s).
Proof. intros H VT. pose proof (compile_emit_wf_pil ctr prefix d body c ctr' H) as W.
  assert (V : forall n k len, In (PSeq n k len) (emit_comp c) -> valid_template k = true).
  { intros n k len Hin. rewrite emit_split in Hin. apply in_app_or in Hin. destruct Hin as [Hin|Hin].
    - unfold base_lines in Hin. apply in_flat_map in Hin. destruct Hin as [[n0 b] [Hb Hin]]. destruct (Nat.eqb (b_len b) 0); [destruct Hin|].
      destruct Hin as [E|[]]. inversion E; subst. apply (VT n0 b Hb).
    - exfalso. apply in_app_or in Hin. destruct Hin as [Hin|Hin].
      + unfold sup_lines in Hin. apply in_flat_map in Hin. destruct Hin as [[n0 s0] [_ Hin]]. destruct (Nat.eqb (s_len s0) 0); [destruct Hin|]. destruct Hin as [E|[]]. discriminate.
      + rewrite !in_app_iff in Hin. destruct Hin as [Hin|[Hin|Hin]]; apply in_map_iff in Hin; destruct Hin as [x [E _]]; destruct x; try discriminate;
          match type of E with (let '(_, _) := ?y in _) = _ => destruct y; discriminate | _ => idtac end. }
  split; [apply (wf_pil_loads _ W V) | apply (wf_pil_designs _ W V)]. Qed.
