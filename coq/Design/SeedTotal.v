(* Strand layout: seed succeeds on every document the loader accepts, so constraint generation
   either reports over-constraint or returns arrays - no other outcome. *)
From Coq Require Import List String Ascii Arith Bool Lia.
From PC Require Import Base.Codes Comp.Syntax Comp.Compile Comp.EmitProofs Comp.Struct Design.Propagate Design.PropagateProofs Design.Designer Design.DesignerProofs
  Design.TemplateProofs Design.DGraph Design.DenoteGraph Design.DenoteTie Design.LoadProofs Design.SeedProofs Design.LayoutProofs Design.Loaded.
Import ListNotations.
Local Open Scope list_scope.

(* ---- positions named by a dot-paren string ---- *)
Definition nonplus (l : list sym) : nat := List.length (filter (fun c => negb (sym_eqb c Plus)) l).
Lemma bonds_aux_bound l : forall pos stack acc bs, bonds_aux l pos stack acc = OK bs ->
  (forall o, In o stack -> o < pos) -> (forall a b, In (a, b) acc -> a < pos /\ b < pos) ->
  forall a b, In (a, b) bs -> a < pos + nonplus l /\ b < pos + nonplus l.
Proof. induction l as [|c l IH]; intros pos stack acc bs H HS HA a b Hin; simpl in H.
  - inversion H; subst. apply in_rev in Hin. unfold nonplus. simpl. destruct (HA a b Hin). lia.
  - destruct c; unfold nonplus; simpl; fold (nonplus l).
    + destruct (IH (S pos) stack acc bs H (fun o Ho => Nat.lt_lt_succ_r _ _ (HS o Ho)) (fun x y Hxy => let (A, B) := HA x y Hxy in conj (Nat.lt_lt_succ_r _ _ A) (Nat.lt_lt_succ_r _ _ B)) a b Hin). lia.
    + destruct (IH (S pos) (pos :: stack) acc bs H) with (a := a) (b := b) as [A B]; try exact Hin.
      * intros o [<-|Ho]; [lia | pose proof (HS o Ho); lia].
      * intros x y Hxy. destruct (HA x y Hxy). lia.
      * lia.
    + destruct stack as [|o st]; [discriminate|]. destruct (IH (S pos) st ((o, pos) :: acc) bs H) with (a := a) (b := b) as [A B]; try exact Hin.
      * intros o' Ho'. pose proof (HS o' (or_intror Ho')). lia.
      * intros x y [E|Hxy]; [inversion E; subst; pose proof (HS x (or_introl eq_refl)); lia | destruct (HA x y Hxy); lia].
      * lia.
    + apply (IH pos stack acc bs H HS HA a b Hin). Qed.
Lemma get_bonds_bound s bs : get_bonds s = OK bs -> forall a b, In (a, b) bs -> a < nonplus s /\ b < nonplus s.
Proof. intros H a b Hin. apply (bonds_aux_bound s 0 [] [] bs H (fun o Ho => False_ind _ Ho) (fun x y Hxy => False_ind _ Hxy) a b Hin). Qed.

Lemma split_plus_aux_nonplus l : forall cur, (forall c, In c cur -> c <> Plus) ->
  fold_right (fun sg a => List.length sg + a) 0 (split_plus_aux cur l) = List.length cur + nonplus l.
Proof. induction l as [|c l IH]; intros cur HC; simpl.
  - rewrite rev_length. unfold nonplus. simpl. lia.
  - destruct c; unfold nonplus; simpl; fold (nonplus l); try (rewrite IH; [simpl; lia | intros x [<-|Hx]; [discriminate | apply HC, Hx]]).
    rewrite rev_length, (IH []); [simpl; lia | intros ? []]. Qed.
Lemma seg_lengths_sum segs : forall lens, seg_lengths_ok segs lens = true ->
  fold_right (fun sg a => List.length sg + a) 0 segs = fold_left Nat.add lens 0.
Proof. assert (G : forall l a, fold_left Nat.add l a = a + fold_left Nat.add l 0).
  { induction l as [|x l IH]; intros a; simpl; [lia|]. rewrite IH, (IH x). lia. }
  induction segs as [|sg segs IH]; intros [|n lens] H; simpl in H; try discriminate; [reflexivity|].
  apply andb_prop in H. destruct H as [H1 H2]. apply Nat.eqb_eq in H1. simpl. rewrite (IH lens H2), (G lens n). lia. Qed.
Lemma structure_ok_nonplus s lens : structure_ok s lens = true -> nonplus s = fold_left Nat.add lens 0.
Proof. intros H. unfold structure_ok in H. rewrite <- (seg_lengths_sum _ _ H). unfold split_plus. rewrite (split_plus_aux_nonplus s []); [reflexivity | intros ? []]. Qed.

(* ---- every loaded structure has bonds, all inside the structure ---- *)
Definition LB (p : pspec) : Prop := forall sn names s len, In (sn, (names, s, len)) (p_structs p) ->
  exists bs, get_bonds s = OK bs /\ forall a b, In (a, b) bs -> a < len /\ b < len.
Lemma load_line_LB p l p' : LB p -> load_line p l = OK p' -> LB p'.
Proof. intros B H. destruct l as [n t len|n items len|d n items len|opt n names s|lo hi ins outs|items]; simpl in H.
  - destruct (negb (valid_template t)); [discriminate|]. destruct (_ || _); [discriminate|]. inversion H; subst. exact B.
  - destruct (_ || _); [discriminate|]. destruct (get_seqs p items); [|discriminate]. inversion H; subst. exact B.
  - destruct (ahas _ n); [discriminate|]. destruct (get_seqs p items); [|discriminate]. inversion H; subst. exact B.
  - destruct (ahas _ n); [discriminate|]. destruct (strand_lens_of p names) as [lens|]; [|discriminate]. simpl in H.
    destruct (get_bonds s) as [bs|] eqn:G; [|discriminate]. simpl in H. destruct (structure_ok s lens) eqn:SO; [|discriminate]. inversion H; subst. clear H.
    intros sn nm sy ln Hin. cbn [p_structs] in Hin. apply in_app_or in Hin. destruct Hin as [Hin|[Hin|[]]]; [apply (B sn nm sy ln Hin)|]. inversion Hin; subst.
    exists bs. split; [exact G|]. rewrite <- (structure_ok_nonplus sy lens SO). apply (get_bonds_bound sy bs G).
  - inversion H; subst. exact B.
  - destruct (get_seqs p items) as [rs|]; [|discriminate]. simpl in H. destruct rs; [discriminate|]. destruct (forallb _ _); [|discriminate]. inversion H; subst. exact B. Qed.
Lemma load_spec_LB ls : forall p p', LB p -> load_spec ls p = OK p' -> LB p'.
Proof. induction ls as [|l ls IH]; intros p p' B H; simpl in H; [inversion H; subst; exact B|].
  destruct (load_line p l) as [p1|] eqn:E; [|discriminate]. apply (IH p1 p' (load_line_LB p l p1 B E) H). Qed.
Lemma LB_empty : LB pspec0. Proof. intros ? ? ? ? []. Qed.

(* a monadic fold succeeds when every step does *)
Lemma fold_ok {X} (F : res cgraph -> X -> res cgraph) l : (forall g x, In x l -> exists g', F (OK g) x = OK g') ->
  forall g, exists g', fold_left F l (OK g) = OK g'.
Proof. induction l as [|x l IH]; intros H g; [exists g; reflexivity|]. simpl. destruct (H g x (or_introl eq_refl)) as [g1 E]. rewrite E.
  apply IH. intros g0 y Hy. apply H. right. exact Hy. Qed.

Section Total.
Variable ls : list pline.
Variable p : pspec.
Hypothesis LOAD : load_spec ls pspec0 = OK p.
Let LIp : LI p := load_spec_LI ls pspec0 p LI_empty LOAD.
Let LBp : LB p := load_spec_LB ls pspec0 p LB_empty LOAD.
Let WF : spec_wf p false := load_spec_wf ls p LOAD.
Let lay := build_layout p false.

Lemma tstart_some n : In n (map fst (p_strands p)) -> exists s0, afind (l_tstart lay) n = Some s0.
Proof. intros H. apply in_map_iff in H. destruct H as [[n' [[its l] d]] [E Hin]]. simpl in E. subst n'. destruct (in_split _ _ Hin) as [pre [post Es]].
  destruct (tstart_entry p LIp pre n its l d post Es) as [A _]. eauto. Qed.

Lemma walk_index_total names : (forall n, In n names -> In n (map fst (p_strands p))) -> forall x base, x < total p names ->
  exists i, walk_index p names x base false (l_tstart lay) = Some i.
Proof. induction names as [|n names IH]; intros HN x base Hx; [simpl in Hx; lia|]. cbn [walk_index]. unfold total in Hx. simpl in Hx. fold (total p names) in Hx.
  unfold strand_len in Hx. destruct (Nat.leb_spec (match afind (p_strands p) n with Some (_, l, _) => l | None => 0 end) x) as [L|G].
  - apply IH; [intros m Hm; apply HN; right; exact Hm | lia].
  - destruct (tstart_some n (HN n (or_introl eq_refl))) as [s0 A]. rewrite A. eauto. Qed.

Lemma items_links_total items : (forall it, In it items -> exists num, sref_num p it = Some num) ->
  forall offset target g, exists g', items_links lay p items offset target g = OK g'.
Proof. induction items as [|it items IH]; intros H offset target g; [exists g; reflexivity|]. simpl. destruct (H it (or_introl eq_refl)) as [num E]. rewrite E.
  apply IH. intros x Hx. apply H. right. exact Hx. Qed.

Theorem seed_total : exists g, seed p false = OK (lay, g).
Proof. unfold seed. cbv zeta. change (build_layout p false) with lay. cbn [bind].
  (* bonds *)
  match goal with |- exists g, (do g3 <- ?e; _) = _ => assert (P2 : exists g3, e = OK g3) end.
  { apply fold_ok. intros g0 [sn [[names s] len]] Hin. cbn [bind]. destruct (LBp sn names s len Hin) as [bs [GB BB]]. rewrite GB. cbn [bind].
    destruct (li_struct p LIp sn names s len Hin) as [NS EL]. apply fold_ok. intros g1 [x y] Hxy. cbn [bind]. destruct (BB x y Hxy) as [Bx By].
    unfold struct_index. rewrite EL in Bx, By.
    destruct (walk_index_total names NS x (match afind (l_sstart lay) sn with Some b => b | None => 0 end) Bx) as [x2 Ex].
    destruct (walk_index_total names NS y (match afind (l_sstart lay) sn with Some b => b | None => 0 end) By) as [y2 Ey].
    rewrite Ex, Ey. eauto. }
  destruct P2 as [g3 E3]. rewrite E3. cbn [bind].
  pose proof (phase3_bases p lay (p_bases p)) as P3. cbv zeta in P3. rewrite P3. clear P3.
  pose proof (phase3_sups p lay (p_sups p)) as P3. cbv zeta in P3. rewrite P3. clear P3.
  (* equal statements *)
  match goal with |- exists g, (do g6 <- ?e; _) = _ => assert (P4 : exists g6, e = OK g6) end.
  { apply fold_ok. intros g0 eqlist Hin. cbn [bind]. destruct eqlist as [|first rest]; [eauto|].
    destruct (li_equal p LIp first rest Hin first (or_introl eq_refl)) as [IF _].
    destruct (item_num p _ first (iok_item_ok p _ first LIp IF)) as [n0 N0]. rewrite N0.
    apply fold_ok. intros g1 s0 Hs. cbn [bind]. destruct (li_equal p LIp first rest Hin s0 (or_intror Hs)) as [IS _].
    destruct (item_num p _ s0 (iok_item_ok p _ s0 LIp IS)) as [n1 N1]. rewrite N1. eauto. }
  destruct P4 as [g6 E6]. rewrite E6. cbn [bind].
  (* items of super-sequences *)
  match goal with |- exists g, (do g7 <- ?e; _) = _ => assert (P5 : exists g7, e = OK g7) end.
  { apply fold_ok. intros g0 [n [items l]] Hin. cbn [bind]. apply In_nth_error in Hin. destruct Hin as [j Hj].
    cbn [sref_num]. rewrite (wf_sup_idx p false WF j n items l Hj). cbn [option_map].
    destruct (wf_sup p false WF j n items l Hj) as [OKI _]. apply items_links_total. intros it Hit. apply (item_num p j it (OKI it Hit)). }
  destruct P5 as [g7 E7]. rewrite E7. cbn [bind].
  (* items of strands *)
  match goal with |- exists g, (do g8 <- ?e; _) = _ => assert (P6 : exists g8, e = OK g8) end.
  { apply fold_ok. intros g0 [n [[items l] d]] Hin. cbn [bind].
    destruct (tstart_some n (in_map fst _ _ Hin)) as [s0 A]. cbn [fst] in A. rewrite A.
    destruct (wf_strand p false WF n items l d Hin) as [_ [OKI _]]. apply items_links_total. intros it Hit. apply (item_num p _ it (OKI it Hit)). }
  destruct P6 as [g8 E8]. rewrite E8. cbn [bind]. eauto. Qed.

(* every loaded document gets arrays or the report (strand layout) *)
Theorem loaded_design_total : design_arrays ls false = DOver \/ exists e w s, design_arrays ls false = DOk e w s.
Proof. unfold design_arrays. rewrite LOAD. destruct seed_total as [g S]. apply (loaded_total ls p lay g LOAD S). Qed.
End Total.

(* the only errors of constraint generation (strand layout) are the loader's *)
Theorem design_arrays_error ls k : design_arrays ls false = DErr k -> load_spec ls pspec0 = Err k.
Proof. intros H. destruct (load_spec ls pspec0) as [p|k0] eqn:L.
  - destruct (loaded_design_total ls p L) as [E|[e [w [s E]]]]; rewrite E in H; discriminate.
  - unfold design_arrays in H. rewrite L in H. inversion H. reflexivity. Qed.
