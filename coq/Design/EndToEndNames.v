(* C06 composed, component level, without a hypothesis on the records: for programs whose sequence and
   structure names contain no '*' (the statement grammar yields [\w-]+) the records the designer writes
   have distinct names, so finishing succeeds for every designed string that fits the arrays. *)
From Coq Require Import List String Ascii Arith Bool.
From PC Require Import Base.Sexp Base.Codes Comp.Syntax Comp.Compile Comp.Denote Comp.EmitProofs Comp.CompileProofs Comp.NameProofs Sys.SystemProofs
  Design.Designer Design.Results Design.ResultsProofs Design.Loaded Design.LoadedStruct Design.CrossProofs Design.EndToEnd Design.RecNames
  Finish.Apply Finish.ApplyProofs.
Import ListNotations.
Local Open Scope list_scope.

Lemma compiled_records_distinct ctr prefix d body c ctr' p a recs :
  compile_comp ctr prefix d body = OK (c, ctr') -> (forall st, In st body -> stmt_nostar st) -> nostar prefix ->
  load_spec (emit_comp c) pspec0 = OK p -> output_records p a = OK recs -> NoDup (map fst recs).
Proof. intros COMP NS NP LOAD OR. destruct (compile_comp_inv _ _ _ _ _ _ COMP) as [W _].
  rewrite (output_records_names p a recs OR). apply (rec_names_nodup c p W (compile_comp_NI _ _ _ _ _ _ COMP NS)); [|exact LOAD].
  rewrite (compile_comp_prefix _ _ _ _ _ _ COMP). exact NP. Qed.

Theorem compiled_design_finishes_names ctr prefix d body c ctr' p lay g e w s nts (so : bool) :
  compile_comp ctr prefix d body = OK (c, ctr') -> (forall st, In st body -> stmt_nostar st) -> nostar prefix ->
  load_spec (emit_comp c) pspec0 = OK p -> seed p so = OK (lay, g) -> get_constraints p so = DOk e w s -> fits nts e w ->
  exists a recs, process_results p lay nts = OK a /\ output_records p a = OK recs /\ exists f, apply_comp (table_of recs) c = OK f.
Proof. intros COMP NS NP LOAD SEED ARR FITS.
  assert (X : exists a recs, process_results p lay nts = OK a /\ output_records p a = OK recs /\ (NoDup (map fst recs) -> exists f, apply_comp (table_of recs) c = OK f)).
  { destruct so; [apply (compiled_design_finishes_struct ctr prefix d body c ctr' p lay g e w s nts COMP LOAD SEED ARR FITS)
                 | apply (compiled_design_finishes ctr prefix d body c ctr' p lay g e w s nts COMP LOAD SEED ARR FITS)]. }
  destruct X as [a [recs [PR [OR FIN]]]]. exists a, recs. split; [exact PR | split; [exact OR|]].
  apply FIN. apply (compiled_records_distinct ctr prefix d body c ctr' p a recs COMP NS NP LOAD OR). Qed.

(* the whole chain for a compiled component, no hypothesis left but the alphabet of its constraint strings and of its names *)
Theorem compiled_component_end_to_end_names ctr prefix d body c ctr' :
  compile_comp ctr prefix d body = OK (c, ctr') -> (forall st, In st body -> stmt_nostar st) -> nostar prefix ->
  (forall n b, In (n, b) (c_bases c) -> valid_template (b_const b) = true) ->
  exists p lay g, load_spec (emit_comp c) pspec0 = OK p /\ seed p false = OK (lay, g) /\
    (get_constraints p false = DOver \/
     exists e w s, get_constraints p false = DOk e w s /\
       forall nts, fits nts e w ->
         exists a recs, process_results p lay nts = OK a /\ output_records p a = OK recs /\ exists f, apply_comp (table_of recs) c = OK f).
Proof. intros COMP NS NP VT. destruct (compiled_component_end_to_end ctr prefix d body c ctr' COMP VT) as [p [lay [g [L [S R]]]]].
  exists p, lay, g. split; [exact L | split; [exact S|]]. destruct R as [O|[e [w [s [A F]]]]]; [left; exact O|]. right. exists e, w, s. split; [exact A|].
  intros nts FT. apply (compiled_design_finishes_names ctr prefix d body c ctr' p lay g e w s nts false COMP NS NP L S A FT). Qed.
