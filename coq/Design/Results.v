(* Convert.process_results and Convert.output (findmfe=False): the designed nucleotide string is cut
   into the strands, every strand hands slices down to its sequences and super-sequences (set_seq,
   which asserts that a sequence designed twice was designed the same way), and every sequence,
   its complement and every structure gets a record in the .mfe file. *)
From Coq Require Import List String Ascii Arith Bool.
From PC Require Import Base.Codes Comp.Syntax Comp.Compile Design.Designer.
Import ListNotations.
Local Open Scope list_scope.

Fixpoint chars_eqb (a b : list ascii) : bool :=
  match a, b with
  | [], [] => true
  | x :: a', y :: b' => Ascii.eqb x y && chars_eqb a' b'
  | _, _ => false
  end.

(* the designed (forward) strings of sequences and super-sequences; Python tests `if self.seq`, so an
   empty string counts as not designed *)
Definition rstate := list (string * list ascii).
Definition designed (s : rstate) (n : string) : option (list ascii) :=
  match afind s n with Some (c :: r) => Some (c :: r) | _ => None end.
Definition flip_ref (it : sref) : sref := match it with SB n r => SB n (negb r) | SS n r => SS n (negb r) end.
Definition view (r : bool) (items : list sref) : list sref := if r then map flip_ref (rev items) else items.

(* obj.set_seq(seq) *)
Definition check_or_set (s : rstate) (n : string) (r : bool) (v : list ascii) : res (rstate * bool) :=
  match designed s n with
  | Some u => match (if r then wc_codes u else Some u) with
              | Some cur => if chars_eqb cur v then OK (s, false) else Err "assert-differs"
              | None => Err "keyerror" end
  | None => match wc_codes v with
            | Some w => OK ((n, if r then w else v) :: s, true)
            | None => Err "keyerror" end
  end.
Fixpoint set_ref (fuel : nat) (p : pspec) (s : rstate) (it : sref) (v : list ascii) : res rstate :=
  match fuel with
  | O => Err "fuel"
  | S f =>
      match it with
      | SB n r => do sb <- check_or_set s n r v; OK (fst sb)
      | SS n r =>
          match afind (p_sups p) n with
          | None => Err "internal"
          | Some (items, l) =>
              if negb (Nat.eqb (List.length v) l) then Err "assert-length" else
              do sb <- check_or_set s n r v;
              if snd sb then
                (fix go (its : list sref) (v : list ascii) (s : rstate) : res rstate :=
                   match its with
                   | [] => OK s
                   | x :: rest => let lx := sref_len p x in
                                  do s' <- set_ref f p s x (firstn lx v); go rest (skipn lx v) s'
                   end) (view r items) v (fst sb)
              else OK (fst sb)
          end
      end
  end.
Fixpoint set_items (fuel : nat) (p : pspec) (its : list sref) (v : list ascii) (s : rstate) : res rstate :=
  match its with
  | [] => OK s
  | x :: rest => let lx := sref_len p x in do s' <- set_ref fuel p s x (firstn lx v); set_items fuel p rest (skipn lx v) s'
  end.

(* obj.get_seq(): the designed string, else the template / the concatenation of the parts *)
Fixpoint get_val (fuel : nat) (p : pspec) (s : rstate) (it : sref) : res (list ascii) :=
  match fuel with
  | O => Err "fuel"
  | S f =>
      let oriented (r : bool) (u : list ascii) : res (list ascii) :=
        if r then match wc_codes u with Some w => OK w | None => Err "keyerror" end else OK u in
      match it with
      | SB n r => match designed s n with
                  | Some u => oriented r u
                  | None => match afind (p_bases p) n with Some t => oriented r t | None => Err "internal" end
                  end
      | SS n r => match designed s n with
                  | Some u => oriented r u
                  | None => match afind (p_sups p) n with
                            | None => Err "internal"
                            | Some (items, _) =>
                                (fix go (its : list sref) : res (list ascii) :=
                                   match its with
                                   | [] => OK []
                                   | x :: rest => do a <- get_val f p s x; do b <- go rest; OK (a ++ b)
                                   end) (view r items)
                            end
                  end
      end
  end.

Definition nth_char (l : list ascii) (i : nat) : option ascii := nth_error l i.
Fixpoint read_positions (nts : list ascii) (start len : nat) : res (list ascii) :=
  match len with
  | O => OK []
  | S k => match nth_error nts start with
           | Some c => do r <- read_positions nts (S start) k; OK (c :: r)
           | None => Err "index" end
  end.

Record results := { r_state : rstate; r_strands : list (string * list ascii) }.

(* process_results: strands in declaration order; a strand is itself a super-sequence object with its own string *)
Definition process_results (p : pspec) (lay : layout) (nts : list ascii) : res results :=
  let fuel := S (List.length (p_sups p)) in
  fold_left (fun acc '(n, (items, l, _)) =>
      do a <- acc;
      (* the position of a strand is looked up nucleotide by nucleotide: an empty strand needs none *)
      do s0 <- match afind (l_tstart lay) n with
               | Some s0 => OK s0
               | None => if Nat.eqb l 0 then OK 0 else Err "strand-not-placed" end;
      do v <- read_positions nts s0 l;
      match wc_codes v with
      | None => Err "keyerror"
      | Some _ => do s' <- set_items fuel p items v (r_state a);
                  OK {| r_state := s'; r_strands := r_strands a ++ [(n, v)] |}
      end) (p_strands p) (OK {| r_state := []; r_strands := [] |}).

Fixpoint join_plus (l : list (list ascii)) : list ascii :=
  match l with [] => [] | [x] => x | x :: r => x ++ "+"%char :: join_plus r end.

(* the records of the .mfe file: (name, string), for structures, sequences and their complements *)
Definition output_records (p : pspec) (a : results) : res (list (string * list ascii)) :=
  let fuel := S (S (List.length (p_sups p))) in
  let structs := map (fun '(sn, (names, _, _)) =>
                   (sn, join_plus (map (fun n => match afind (r_strands a) n with Some v => v | None => [] end) names))) (p_structs p) in
  let one (it : sref) (n : string) (acc : res (list (string * list ascii))) :=
      do l <- acc; do v <- get_val fuel p (r_state a) it;
      match wc_codes v with Some w => OK (l ++ [(n, v); ((n ++ "*")%string, w)]) | None => Err "keyerror" end in
  do l1 <- fold_left (fun acc '(n, _) => one (SB n false) n acc) (p_bases p) (OK structs);
  fold_left (fun acc '(n, _) => one (SS n false) n acc) (p_sups p) (OK l1).

Definition design_results (ls : list pline) (so : bool) (nts : list ascii) : res (list (string * list ascii)) :=
  do p <- load_spec ls pspec0;
  do lg <- seed p so;
  do a <- process_results p (fst lg) nts;
  output_records p a.
