(* C06 composed for whole systems, finish side: the records the designer writes for the specification of a
   (nested) system let finishing succeed on the whole system object - for every designed string that fits the arrays. *)
From Coq Require Import List String Ascii Arith Bool ZArith Lia.
From PC Require Import Base.Sexp Base.Codes Comp.Syntax Comp.Compile Comp.Denote Comp.EmitProofs Comp.WfPil Comp.CompileProofs
  Design.Designer Design.Results Design.ResultsProofs Design.Loaded Design.LoadedStruct Design.EndToEnd Finish.Apply Finish.ApplyProofs
  Sys.System Sys.DesSys Sys.LoadWf.
Import ListNotations.
Local Open Scope list_scope.

Fixpoint leaves (fuel : nat) (o : obj) : list comp :=
  match fuel with
  | O => []
  | S f => match o with OComp c => [c] | OSys _ comps _ _ _ _ => flat_map (fun cs => leaves f (snd cs)) comps end
  end.

Lemma leaves_incl : forall f o c, In c (leaves f o) -> incl (emit_comp c) (emit_obj f o).
Proof. induction f as [|f IH]; intros o c H; [destruct H|]. destruct o as [c0|p comps sigs lens i oo]; cbn [leaves emit_obj] in *.
  - destruct H as [<-|[]]. apply incl_refl.
  - apply in_flat_map in H. destruct H as [[cn sub] [Hin H]]. intros l Hl. apply in_or_app. left. apply in_flat_map. exists (cn, sub). split; [exact Hin | apply (IH sub c H l Hl)]. Qed.
Lemma leaves_wf : forall f o c, sys_wf f o -> In c (leaves f o) -> WF c /\ WF2 c.
Proof. induction f as [|f IH]; intros o c W H; [destruct H|]. destruct o as [c0|p comps sigs lens i oo]; cbn [leaves sys_wf] in *.
  - destruct H as [<-|[]]. exact W.
  - destruct W as [_ [WS _]]. apply in_flat_map in H. destruct H as [[cn sub] [Hin H]]. apply (IH sub c (WS cn sub Hin) H). Qed.

Lemma apply_obj_leaves t : forall f o, sys_wf f o -> (forall c, In c (leaves f o) -> exists r, apply_comp t c = OK r) -> exists r, apply_obj f t o = OK r.
Proof. induction f as [|f IH]; intros o W H; [destruct W|]. destruct o as [c|p comps sigs lens i oo]; cbn [apply_obj leaves sys_wf] in *.
  - apply H. left. reflexivity.
  - destruct W as [_ [WS _]]. induction comps as [|[cn sub] comps IHc]; [eauto|].
    destruct (IH sub (WS cn sub (or_introl eq_refl)) (fun c Hc => H c ltac:(cbn [flat_map snd]; apply in_or_app; left; exact Hc))) as [ra Ea]. rewrite Ea. cbn [bind].
    destruct (IHc (fun cn' sub' Hin => WS cn' sub' (or_intror Hin)) (fun c Hc => H c ltac:(cbn [flat_map]; apply in_or_app; right; exact Hc))) as [rb Eb]. rewrite Eb. cbn [bind]. eauto. Qed.

Theorem system_design_finishes o p lay g e w s nts :
  sys_wf 12 o -> load_spec (emit_obj 12 o) pspec0 = OK p -> seed p false = OK (lay, g) -> get_constraints p false = DOk e w s -> fits nts e w ->
  exists a recs, process_results p lay nts = OK a /\ output_records p a = OK recs /\
    (NoDup (map fst recs) -> exists f, apply_obj 12 (table_of recs) o = OK f).
Proof. intros W LOAD SEED ARR FITS.
  destruct (loaded_design_results_ok (emit_obj 12 o) p lay g nts LOAD SEED e w s ARR FITS) as [a [recs [PR [OR [RA [RB RC]]]]]].
  exists a, recs. split; [exact PR | split; [exact OR|]]. intros ND. apply (apply_obj_leaves (table_of recs) 12 o W).
  intros c Hc. destruct (leaves_wf 12 o c W Hc) as [Wc W2c]. pose proof (leaves_incl 12 o c Hc) as INC. apply apply_comp_complete.
  - intros n b Hin NZ. apply (finish_H1 c Wc p (emit_obj 12 o) LOAD INC recs ND RA n b Hin NZ).
  - intros vals VALS n u Hin. apply (finish_H2 c Wc W2c p (emit_obj 12 o) LOAD INC lay nts a recs ND RB RC vals VALS n u Hin). Qed.
