(* Structure-oriented layout: seed succeeds on a loaded document exactly when every strand with
   nucleotides occurs in a structure; so constraint generation in this layout fails only with the
   loader's errors or for an unplaced strand. *)
From Coq Require Import List String Ascii Arith Bool Lia.
From PC Require Import Base.Codes Comp.Syntax Comp.Compile Comp.EmitProofs Comp.Struct Design.Propagate Design.PropagateProofs Design.Designer Design.DesignerProofs
  Design.TemplateProofs Design.DGraph Design.DenoteGraph Design.DenoteTie Design.DenoteSat Design.LoadProofs Design.SeedProofs Design.LayoutProofs Design.Loaded Design.SeedTotal
  Design.StructLayout Design.StructSeed.
Import ListNotations.
Local Open Scope list_scope.

(* creating a run of fresh keys *)
Definition init_key (rg : res cgraph) (i : nat) : res cgraph :=
  do g <- rg; if mem i (g_keys g) then Err "init-twice" else OK (g_init g i Nc).
Lemma init_keys_ok l : forall g, NoDup (g_keys g ++ l) -> exists g', fold_left init_key l (OK g) = OK g'.
Proof. induction l as [|i l IH]; intros g ND; [exists g; reflexivity|]. simpl.
  assert (NI : mem i (g_keys g) = false).
  { destruct (mem i (g_keys g)) eqn:M; [|reflexivity]. apply mem_In in M. exfalso. apply (NoDup_app_disj _ _ ND i M). left. reflexivity. }
  rewrite NI. apply IH. unfold g_init. simpl. rewrite <- app_assoc. exact ND. Qed.
Lemma fold_flat_map {X Y A} (F : A -> Y -> A) (h : X -> list Y) l : forall a, fold_left F (flat_map h l) a = fold_left (fun a x => fold_left F (h x) a) l a.
Proof. induction l as [|x l IH]; intros a; simpl; [reflexivity|]. rewrite fold_left_app. apply IH. Qed.
Lemma fold_left_map {X Y A} (F : A -> Y -> A) (f : X -> Y) l : forall a, fold_left F (map f l) a = fold_left (fun a x => F a (f x)) l a.
Proof. induction l as [|x l IH]; intros a; simpl; [reflexivity | apply IH]. Qed.
Lemma fold_left_ext_in {X A} (F G : A -> X -> A) l : (forall a x, In x l -> F a x = G a x) -> forall a, fold_left F l a = fold_left G l a.
Proof. induction l as [|x l IH]; intros H a; simpl; [reflexivity|]. rewrite (H a x (or_introl eq_refl)). apply IH. intros b y Hy. apply H. right. exact Hy. Qed.

Section StructTotal.
Variable p : pspec.
Hypothesis LIp : LI p.
Hypothesis LBp : LB p.
Hypothesis PL : placed p.
Let lay := build_layout p true.
Local Notation encn := (enc p lay).
Local Notation slen := (strand_len p).
Let WF : spec_wf p true := LI_spec_wf p true LIp (fun _ => PL).

Lemma total_split names : forall x, x < total p names -> exists pre n post o, names = pre ++ n :: post /\ x = total p pre + o /\ o < slen n.
Proof. induction names as [|m names IH]; intros x Hx; [unfold total in Hx; simpl in Hx; lia|]. rewrite (total_cons p) in Hx.
  destruct (Nat.lt_ge_cases x (slen m)) as [L|G].
  - exists [], m, names, x. split; [reflexivity | split; [unfold total; simpl; lia | exact L]].
  - destruct (IH (x - slen m) ltac:(lia)) as [pre [n [post [o [E [Ex Ho]]]]]]. exists (m :: pre), n, post, o. subst names.
    split; [reflexivity | split; [rewrite (total_cons p); lia | exact Ho]]. Qed.
Lemma struct_index_some sn names sy len x : In (sn, (names, sy, len)) (p_structs p) -> x < len -> exists i, struct_index lay p true sn names x = Some i.
Proof. intros Hin Hx. rewrite (proj2 (li_struct p LIp sn names sy len Hin)) in Hx. destruct (total_split names x Hx) as [pre [n [post [o [E [Ex Ho]]]]]].
  unfold struct_index. rewrite E, (walk_index_true p pre n post x _ o _ Ex Ho). eauto. Qed.
Lemma tstart_placed n : first_inst_in p (p_structs p) n <> None -> exists s0, afind (l_tstart lay) n = Some s0.
Proof. intros FN. destruct (first_inst_in p (p_structs p) n) as [[sn off]|] eqn:FI; [|exfalso; apply FN; reflexivity].
  destruct (first_joint p (p_structs p) n 0 sn off FI) as [before [names [sy [len [after [pre [post [_ [_ [_ T]]]]]]]]]]. unfold lay. rewrite (sl_tstart p n), T. eauto. Qed.

Lemma items_links_total_s items : (forall it, In it items -> exists num, sref_num p it = Some num) ->
  forall offset target g, exists g', items_links lay p items offset target g = OK g'.
Proof. induction items as [|it items IH]; intros H offset target g; [exists g; reflexivity|]. simpl. destruct (H it (or_introl eq_refl)) as [num E]. rewrite E.
  apply IH. intros x Hx. apply H. right. exact Hx. Qed.
Lemma total_zero_items items : refs_total p items = 0 -> forallb (fun it => Nat.eqb (sref_len p it) 0) items = true.
Proof. induction items as [|it items IH]; intros H; [reflexivity|]. change (refs_total p (it :: items)) with (sref_len p it + refs_total p items) in H.
  assert (Z : sref_len p it = 0) by lia. simpl. rewrite Z. simpl. apply IH. lia. Qed.

Lemma occ_fold_ok sn names0 sy len : In (sn, (names0, sy, len)) (p_structs p) -> forall names g offset,
  (forall n, In n names -> In n names0) -> offset + total p names <= len ->
  exists g', fst (fold_left (fun '(rg, offset) n =>
         let l := match afind (p_strands p) n with Some (_, l, _) => l | None => 0 end in
         (fold_left (fun rg x => do g <- rg;
              match afind (l_tstart lay) n, struct_index lay p true sn names0 (offset + x) with
              | Some s, Some y2 => OK (g_add_eq g (s + x) y2)
              | _, _ => Err "strand-not-in-structure" end) (seq 0 l) rg, offset + l)) names (OK g, offset)) = OK g'.
Proof. intros Hin. induction names as [|n names IH]; intros g offset Hn Hb; [exists g; reflexivity|].
  cbn [fold_left]. cbv zeta. fold (slen n). rewrite (total_cons p) in Hb.
  assert (S1 : exists g1, fold_left (fun rg x => do g <- rg;
              match afind (l_tstart lay) n, struct_index lay p true sn names0 (offset + x) with
              | Some s, Some y2 => OK (g_add_eq g (s + x) y2)
              | _, _ => Err "strand-not-in-structure" end) (seq 0 (slen n)) (OK g) = OK g1).
  { apply fold_ok. intros g1 x Hx. apply in_seq in Hx. cbn [bind].
    destruct (tstart_placed n (first_some p (p_structs p) n sn names0 sy len Hin (Hn n (or_introl eq_refl)))) as [s0 A]. rewrite A.
    destruct (struct_index_some sn names0 sy len (offset + x) Hin ltac:(lia)) as [i SI]. rewrite SI. eauto. }
  destruct S1 as [g1 E1]. rewrite E1. apply IH; [intros m Hm; apply Hn; right; exact Hm | lia]. Qed.

Theorem seed_total_struct : exists g, seed p true = OK (lay, g).
Proof. unfold seed. cbv zeta. change (build_layout p true) with lay.
  (* positions of the structures *)
  match goal with |- exists g, (do g1 <- ?e; _) = _ => assert (P1 : exists g1, e = OK g1) end.
  { pose proof (structs_ib p LIp (p_structs p) [] eq_refl) as [SI _]. apply sincr_NoDup in SI.
    set (h := fun st : string * (list string * list sym * nat) => let '(sn, (_, _, len)) := st in map (fun x => encn (DInst sn x)) (seq 0 len)).
    rewrite (fold_left_ext_in _ (fun rg st => fold_left init_key (h st) rg)).
    - rewrite <- (fold_flat_map init_key h). apply init_keys_ok. exact SI.
    - intros rg [sn [[names sy] len]] Hin. unfold h. destruct rg as [g|k]; cbn [bind].
      + rewrite fold_left_map. apply fold_left_ext_in. intros rg x Hx. apply in_seq in Hx. unfold init_key. destruct rg as [g1|k]; [|reflexivity]. cbn [bind].
        destruct (struct_index_some sn names sy len x Hin ltac:(lia)) as [i SI2]. rewrite SI2, (enc_inst p LIp sn names sy len x i Hin SI2). reflexivity.
      + symmetry. apply fold_err. intros k0 x. reflexivity. }
  destruct P1 as [g1 E1]. rewrite E1. cbn [bind].
  (* occurrences *)
  match goal with |- exists g, (do g2 <- ?e; _) = _ => assert (P1b : exists g2, e = OK g2) end.
  { apply fold_ok. intros g [sn [[names sy] len]] Hin. cbn [bind].
    destruct (occ_fold_ok sn names sy len Hin names g 0 (fun n H => H) ltac:(rewrite (proj2 (li_struct p LIp sn names sy len Hin)); lia)) as [g' E].
    match goal with |- exists g'', (let '(a, _) := ?f in a) = _ => destruct f as [a b] end. simpl in E. eauto. }
  destruct P1b as [g2 E2]. rewrite E2. cbn [bind].
  (* bonds *)
  match goal with |- exists g, (do g3 <- ?e; _) = _ => assert (P2 : exists g3, e = OK g3) end.
  { apply fold_ok. intros g [sn [[names s] len]] Hin. cbn [bind]. destruct (LBp sn names s len Hin) as [bs [GB BB]]. rewrite GB. cbn [bind].
    apply fold_ok. intros g' [x y] Hxy. cbn [bind]. destruct (BB x y Hxy) as [Bx By].
    destruct (struct_index_some sn names s len x Hin Bx) as [x2 Ex]. destruct (struct_index_some sn names s len y Hin By) as [y2 Ey]. rewrite Ex, Ey. eauto. }
  destruct P2 as [g3 E3]. rewrite E3. cbn [bind].
  pose proof (phase3_bases p lay (p_bases p)) as P3. cbv zeta in P3. rewrite P3. clear P3.
  pose proof (phase3_sups p lay (p_sups p)) as P3. cbv zeta in P3. rewrite P3. clear P3.
  (* equal statements *)
  match goal with |- exists g, (do g6 <- ?e; _) = _ => assert (P4 : exists g6, e = OK g6) end.
  { apply fold_ok. intros g eqlist Hin. cbn [bind]. destruct eqlist as [|first rest]; [eauto|].
    destruct (li_equal p LIp first rest Hin first (or_introl eq_refl)) as [IF _].
    destruct (item_num p _ first (iok_item_ok p _ first LIp IF)) as [n0 N0]. rewrite N0.
    apply fold_ok. intros g' s0 Hs. cbn [bind]. destruct (li_equal p LIp first rest Hin s0 (or_intror Hs)) as [IS _].
    destruct (item_num p _ s0 (iok_item_ok p _ s0 LIp IS)) as [n1 N1]. rewrite N1. eauto. }
  destruct P4 as [g6 E6]. rewrite E6. cbn [bind].
  (* items of super-sequences *)
  match goal with |- exists g, (do g7 <- ?e; _) = _ => assert (P5 : exists g7, e = OK g7) end.
  { apply fold_ok. intros g [n [items l]] Hin. cbn [bind]. apply In_nth_error in Hin. destruct Hin as [j Hj].
    cbn [sref_num]. rewrite (wf_sup_idx p true WF j n items l Hj). cbn [option_map].
    destruct (wf_sup p true WF j n items l Hj) as [OKI _]. apply items_links_total_s. intros it Hit. apply (item_num p j it (OKI it Hit)). }
  destruct P5 as [g7 E7]. rewrite E7. cbn [bind].
  (* items of strands *)
  match goal with |- exists g, (do g8 <- ?e; _) = _ => assert (P6 : exists g8, e = OK g8) end.
  { apply fold_ok. intros g [n [[items l] d]] Hin. cbn [bind]. destruct (wf_strand p true WF n items l d Hin) as [_ [OKI EL]].
    destruct (afind (l_tstart lay) n) as [s0|] eqn:A.
    - apply items_links_total_s. intros it Hit. apply (item_num p _ it (OKI it Hit)).
    - destruct (Nat.eq_dec l 0) as [Z|NZ].
      + rewrite (total_zero_items items ltac:(lia)). eauto.
      + exfalso. destruct (tstart_placed n (PL n items l d Hin NZ)) as [s0 A']. rewrite A' in A. discriminate. }
  destruct P6 as [g8 E8]. rewrite E8. cbn [bind]. eauto. Qed.
End StructTotal.

(* seed succeeds in the structure layout exactly on the placed documents *)
Theorem seed_struct_iff_placed ls p : load_spec ls pspec0 = OK p -> ((exists g, seed p true = OK (build_layout p true, g)) <-> placed p).
Proof. intros L. pose proof (load_spec_LI ls pspec0 p LI_empty L) as I. split.
  - intros [g S]. apply (seed_placed p _ g I S).
  - intros PL. apply (seed_total_struct p I (load_spec_LB ls pspec0 p LB_empty L) PL). Qed.
