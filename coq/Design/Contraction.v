(* Graph contraction: a parity graph whose links split into structural links (each relating a node
   to its canonical representative) and real links has the same connectivity, on canonical
   representatives, as the graph of the real links mapped through the canonicalisation.  This is
   what makes the auxiliary (sequence, offset) nodes of Convert.get_constraints faithful. *)
From Coq Require Import List Arith Bool Lia.
Import ListNotations.

Section Contraction.
Variable node : Type.
Definition link := (node * node * bool)%type.       (* (x, y, complementary?) *)

(* parity connectivity over an undirected set of links *)
Inductive pconn (L : list link) (x : node) : bool -> node -> Prop :=
| pc_refl : pconn L x false x
| pc_fwd p y z q : pconn L x p y -> In (y, z, q) L -> pconn L x (xorb p q) z
| pc_bwd p y z q : pconn L x p y -> In (z, y, q) L -> pconn L x (xorb p q) z.

Lemma pconn_trans L x p y : pconn L x p y -> forall q z, pconn L y q z -> pconn L x (xorb p q) z.
Proof. intros Hxy q z Hyz. induction Hyz as [|q w z r Hyw IH Hz|q w z r Hyw IH Hz].
  - rewrite xorb_false_r. exact Hxy.
  - rewrite <- xorb_assoc. eapply pc_fwd; eauto.
  - rewrite <- xorb_assoc. eapply pc_bwd; eauto. Qed.
Lemma pconn_sym L x p y : pconn L x p y -> pconn L y p x.
Proof. intros H. induction H as [|p y z q Hxy IH Hz|p y z q Hxy IH Hz].
  - constructor.
  - assert (S1 : pconn L z q y) by (replace q with (xorb false q) by (destruct q; reflexivity); eapply pc_bwd; [constructor | exact Hz]).
    pose proof (pconn_trans L z q y S1 p x IH) as T. rewrite xorb_comm. exact T.
  - assert (S1 : pconn L z q y) by (replace q with (xorb false q) by (destruct q; reflexivity); eapply pc_fwd; [constructor | exact Hz]).
    pose proof (pconn_trans L z q y S1 p x IH) as T. rewrite xorb_comm. exact T. Qed.
Lemma pconn_mono L L' x p y : (forall l, In l L -> In l L') -> pconn L x p y -> pconn L' x p y.
Proof. intros M H. induction H; [constructor | eapply pc_fwd; eauto | eapply pc_bwd; eauto]. Qed.

(* canonicalisation: every node has a canonical node and a parity relative to it *)
Variable canon : node -> node * bool.
Variable S R : list link.                          (* structural and real links *)
Hypothesis canon_reach : forall x, pconn S x (snd (canon x)) (fst (canon x)).
Hypothesis canon_struct : forall x y q, In (x, y, q) S ->
  fst (canon x) = fst (canon y) /\ snd (canon x) = xorb (snd (canon y)) q.

(* the real links seen between canonical nodes *)
Definition Rc : list link :=
  map (fun l => let '(x, y, q) := l in (fst (canon x), fst (canon y), xorb q (xorb (snd (canon x)) (snd (canon y))))) R.

Lemma to_contracted x p y : pconn (S ++ R) x p y ->
  pconn Rc (fst (canon x)) (xorb p (xorb (snd (canon x)) (snd (canon y)))) (fst (canon y)).
Proof. intros H. induction H as [|p y z q Hxy IH Hz|p y z q Hxy IH Hz].
  - rewrite xorb_nilpotent. constructor.
  - apply in_app_or in Hz. destruct Hz as [Hz|Hz].
    + destruct (canon_struct y z q Hz) as [E1 E2]. rewrite <- E1.
      replace (xorb (xorb p q) (xorb (snd (canon x)) (snd (canon z)))) with (xorb p (xorb (snd (canon x)) (snd (canon y)))); [exact IH|].
      rewrite E2. destruct p, q, (snd (canon x)), (snd (canon z)); reflexivity.
    + assert (Hc : In (fst (canon y), fst (canon z), xorb q (xorb (snd (canon y)) (snd (canon z)))) Rc).
      { unfold Rc. apply in_map_iff. exists (y, z, q). split; [reflexivity | exact Hz]. }
      pose proof (pc_fwd Rc _ _ _ _ _ IH Hc) as T.
      replace (xorb (xorb p q) (xorb (snd (canon x)) (snd (canon z)))) with
        (xorb (xorb p (xorb (snd (canon x)) (snd (canon y)))) (xorb q (xorb (snd (canon y)) (snd (canon z))))); [exact T|].
      destruct p, q, (snd (canon x)), (snd (canon y)), (snd (canon z)); reflexivity.
  - apply in_app_or in Hz. destruct Hz as [Hz|Hz].
    + destruct (canon_struct z y q Hz) as [E1 E2]. rewrite E1.
      replace (xorb (xorb p q) (xorb (snd (canon x)) (snd (canon z)))) with (xorb p (xorb (snd (canon x)) (snd (canon y)))); [exact IH|].
      rewrite E2. destruct p, q, (snd (canon x)), (snd (canon y)); reflexivity.
    + assert (Hc : In (fst (canon z), fst (canon y), xorb q (xorb (snd (canon z)) (snd (canon y)))) Rc).
      { unfold Rc. apply in_map_iff. exists (z, y, q). split; [reflexivity | exact Hz]. }
      pose proof (pc_bwd Rc _ _ _ _ _ IH Hc) as T.
      replace (xorb (xorb p q) (xorb (snd (canon x)) (snd (canon z)))) with
        (xorb (xorb p (xorb (snd (canon x)) (snd (canon y)))) (xorb q (xorb (snd (canon z)) (snd (canon y))))); [exact T|].
      destruct p, q, (snd (canon x)), (snd (canon y)), (snd (canon z)); reflexivity. Qed.

Lemma real_link_lift x y q : In (x, y, q) R ->
  pconn (S ++ R) (fst (canon x)) (xorb q (xorb (snd (canon x)) (snd (canon y)))) (fst (canon y)).
Proof. intros H.
  assert (A : pconn (S ++ R) (fst (canon x)) (snd (canon x)) x).
  { apply pconn_sym. apply (pconn_mono S); [intros l Hl; apply in_or_app; left; exact Hl | apply canon_reach]. }
  assert (B : pconn (S ++ R) x q y).
  { replace q with (xorb false q) by (destruct q; reflexivity). eapply pc_fwd; [constructor | apply in_or_app; right; exact H]. }
  assert (C : pconn (S ++ R) y (snd (canon y)) (fst (canon y))).
  { apply (pconn_mono S); [intros l Hl; apply in_or_app; left; exact Hl | apply canon_reach]. }
  pose proof (pconn_trans _ _ _ _ (pconn_trans _ _ _ _ A _ _ B) _ _ C) as T.
  replace (xorb q (xorb (snd (canon x)) (snd (canon y)))) with (xorb (xorb (snd (canon x)) q) (snd (canon y))); [exact T|].
  destruct q, (snd (canon x)), (snd (canon y)); reflexivity. Qed.

Lemma from_contracted a p b : pconn Rc a p b -> pconn (S ++ R) a p b.
Proof. intros H. induction H as [|p y z q Hxy IH Hz|p y z q Hxy IH Hz].
  - constructor.
  - unfold Rc in Hz. apply in_map_iff in Hz. destruct Hz as [[[u w] r] [E Hr]]. inversion E; subst.
    apply (pconn_trans _ _ _ _ IH). apply (real_link_lift u w r Hr).
  - unfold Rc in Hz. apply in_map_iff in Hz. destruct Hz as [[[u w] r] [E Hr]]. inversion E; subst.
    apply (pconn_trans _ _ _ _ IH). apply pconn_sym. apply (real_link_lift u w r Hr). Qed.

(* connectivity of the whole graph = connectivity of the contracted graph between canonical nodes *)
Theorem contraction x p y :
  pconn (S ++ R) x p y <-> pconn Rc (fst (canon x)) (xorb p (xorb (snd (canon x)) (snd (canon y)))) (fst (canon y)).
Proof. split; [apply to_contracted|]. intros H. apply from_contracted in H.
  assert (A : pconn (S ++ R) x (snd (canon x)) (fst (canon x))).
  { apply (pconn_mono S); [intros l Hl; apply in_or_app; left; exact Hl | apply canon_reach]. }
  assert (C : pconn (S ++ R) (fst (canon y)) (snd (canon y)) y).
  { apply pconn_sym. apply (pconn_mono S); [intros l Hl; apply in_or_app; left; exact Hl | apply canon_reach]. }
  pose proof (pconn_trans _ _ _ _ (pconn_trans _ _ _ _ A _ _ H) _ _ C) as T.
  replace p with (xorb (xorb (snd (canon x)) (xorb p (xorb (snd (canon x)) (snd (canon y))))) (snd (canon y))); [exact T|].
  destruct p, (snd (canon x)), (snd (canon y)); reflexivity. Qed.
End Contraction.
