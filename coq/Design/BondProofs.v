(* C06, "every target base pair is Watson-Crick": for every designed string that fits the arrays, in both layouts,
   the two nucleotides of every base pair of every structure's target - located in the records of the strands that
   make up the structure - are complementary bases. *)
From Coq Require Import List String Ascii Arith Bool Lia.
From PC Require Import Base.Codes Comp.Syntax Comp.Compile Comp.EmitProofs Design.Designer Design.DesignerProofs Design.TemplateProofs Design.DGraph Design.Contraction
  Design.DenoteGraph Design.DenoteTie Design.DenoteSat Design.Results Design.ResultsProofs Design.Loaded Design.LoadedStruct.
Import ListNotations.
Local Open Scope list_scope.

Lemma read_positions_nth nts : forall l s v o, read_positions nts s l = OK v -> o < l -> nth_error v o = nth_error nts (s + o).
Proof. induction l as [|l IH]; intros s v o H Ho; [lia|]. cbn [read_positions] in H. destruct (nth_error nts s) as [c|] eqn:E; [|discriminate].
  destruct (read_positions nts (S s) l) as [r|] eqn:R; [|discriminate]. cbn [bind] in H. inversion H; subst. destruct o as [|o]; simpl.
  - rewrite Nat.add_0_r. symmetry. exact E.
  - rewrite (IH (S s) r o R); [f_equal; lia | lia]. Qed.

Section Bonds.
Variable p : pspec.
Variable lay : layout.
Variable so : bool.
Variable g : cgraph.
Variable nts : list ascii.
Hypothesis SEED : seed p so = OK (lay, g).
Hypothesis WFH : spec_wf p so.
Hypothesis DOK : dgraph_ok p lay so = true.
Hypothesis SAME : same_graph p lay so g = true.
Hypothesis GOK : graph_ok g = true.
Hypothesis PLACE : place_okb p lay so = true.
Variables (e w : list (option nat)) (s : list (option ascii)).
Hypothesis ARR : get_constraints p so = DOk e w s.
Hypothesis FITS : fits nts e w.

Lemma strand_of n o : o < strand_len p n -> exists items l d, In (n, (items, l, d)) (p_strands p) /\ o < l.
Proof. unfold strand_len. destruct (afind (p_strands p) n) as [[[items l] d]|] eqn:A; [|lia]. intros H. exists items, l, d. split; [apply (afind_Some_In _ _ _ A) | exact H]. Qed.

(* the two ends of a target base pair, as strand positions, are connected by an odd path in the declared graph *)
Lemma bond_spos sn names sy len bs x y n1 o1 n2 o2 : In (sn, (names, sy, len)) (p_structs p) -> get_bonds sy = OK bs -> In (x, y) bs ->
  walk_sym p names x = Some (n1, o1) -> walk_sym p names y = Some (n2, o2) ->
  pconn dnode (S_links p so ++ R_links p so) (spos p so n1 o1) true (spos p so n2 o2).
Proof. intros HS GB HB W1 W2. destruct so eqn:SO.
  - (* structure layout: strand position = its occurrence in this structure = the paired occurrence = the other strand position *)
    destruct (walk_sym_spec p names x n1 o1 W1) as [pre1 [post1 [E1 [X1 L1]]]]. destruct (walk_sym_spec p names y n2 o2 W2) as [pre2 [post2 [E2 [X2 L2]]]].
    assert (I1 : In (spos p true n1 o1, DInst sn x, false) (S_links p true ++ R_links p true)).
    { apply in_or_app. left. unfold S_links. apply in_or_app. left. apply In_mk. split; [reflexivity|]. unfold inst_links. apply in_flat_map. exists (sn, (names, sy, len)). split; [exact HS|].
      apply occ_links_In. exists pre1, n1, post1, o1. split; [exact E1 | split; [exact L1 | split; [reflexivity | f_equal; lia]]]. }
    assert (I2 : In (spos p true n2 o2, DInst sn y, false) (S_links p true ++ R_links p true)).
    { apply in_or_app. left. unfold S_links. apply in_or_app. left. apply In_mk. split; [reflexivity|]. unfold inst_links. apply in_flat_map. exists (sn, (names, sy, len)). split; [exact HS|].
      apply occ_links_In. exists pre2, n2, post2, o2. split; [exact E2 | split; [exact L2 | split; [reflexivity | f_equal; lia]]]. }
    assert (IB : In (DInst sn x, DInst sn y, true) (S_links p true ++ R_links p true)).
    { apply in_or_app. right. unfold R_links. apply in_or_app. right. apply In_mk. split; [reflexivity|]. unfold bond_links. apply in_flat_map. exists (sn, (names, sy, len)). split; [exact HS|].
      rewrite GB. apply in_flat_map. exists (x, y). split; [exact HB | left; reflexivity]. }
    change true with (xorb (xorb (xorb false false) true) false). eapply pc_bwd; [|exact I2]. eapply pc_fwd; [|exact IB]. eapply pc_fwd; [apply pc_refl | exact I1].
  - change true with (xorb false true). eapply pc_fwd; [apply pc_refl|]. apply in_or_app. right. unfold R_links. apply in_or_app. right. apply In_mk. split; [reflexivity|].
    unfold bond_links. apply in_flat_map. exists (sn, (names, sy, len)). split; [exact HS|]. rewrite GB. apply in_flat_map. exists (x, y). split; [exact HB|]. rewrite W1, W2. left. reflexivity. Qed.

Local Notation tpos n o := (tstart_of lay n + o).

Lemma bond_bases sn names sy len bs x y n1 o1 n2 o2 : In (sn, (names, sy, len)) (p_structs p) -> get_bonds sy = OK bs -> In (x, y) bs ->
  walk_sym p names x = Some (n1, o1) -> walk_sym p names y = Some (n2, o2) ->
  exists b, nt_at nts (tpos n1 o1) = Some b /\ nt_at nts (tpos n2 o2) = Some (bcompl b).
Proof. intros HS GB HB W1 W2.
  destruct (walk_sym_spec p names x n1 o1 W1) as [_ [_ [_ [_ L1]]]]. destruct (walk_sym_spec p names y n2 o2 W2) as [_ [_ [_ [_ L2]]]].
  destruct (strand_of n1 o1 L1) as [it1 [l1 [d1 [H1 O1]]]]. destruct (strand_of n2 o2 L2) as [it2 [l2 [d2 [H2 O2]]]].
  pose proof (spos_node p lay so g SEED WFH DOK SAME PLACE e w s ARR n1 it1 l1 d1 o1 H1 O1) as V1.
  pose proof (spos_node p lay so g SEED WFH DOK SAME PLACE e w s ARR n2 it2 l2 d2 o2 H2 O2) as V2.
  destruct (place_spec p lay so PLACE n1 it1 l1 d1 o1 H1 O1) as [_ [E1 B1]]. destruct (place_spec p lay so PLACE n2 it2 l2 d2 o2 H2 O2) as [_ [E2 B2]].
  pose proof (proj2 (gconn_dgraph p lay so g DOK SAME _ true _ V1 V2) (bond_spos sn names sy len bs x y n1 o1 n2 o2 HS GB HB W1 W2)) as C.
  rewrite E1, E2 in C.
  assert (K1 : In (tpos n1 o1) (g_keys g)) by (rewrite <- E1, (keys_nodes p lay so g SAME GOK); apply in_map; exact V1).
  assert (K2 : In (tpos n2 o2) (g_keys g)) by (rewrite <- E2, (keys_nodes p lay so g SAME GOK); apply in_map; exact V2).
  destruct (fits_conn p lay so g nts SEED GOK e w s ARR FITS _ true _ K1 K2 B1 B2 C) as [b [A1 A2]]. exists b. auto. Qed.

(* in the records: position o1 of strand n1 and position o2 of strand n2 carry complementary bases *)
Theorem bonds_watson_crick a : process_results p lay nts = OK a ->
  forall sn names sy len bs x y n1 o1 n2 o2, In (sn, (names, sy, len)) (p_structs p) -> get_bonds sy = OK bs -> In (x, y) bs ->
  walk_sym p names x = Some (n1, o1) -> walk_sym p names y = Some (n2, o2) ->
  exists v1 v2 b, afind (r_strands a) n1 = Some v1 /\ afind (r_strands a) n2 = Some v2 /\
    nth_error v1 o1 = Some (base_char b) /\ nth_error v2 o2 = Some (base_char (bcompl b)).
Proof. intros PR sn names sy len bs x y n1 o1 n2 o2 HS GB HB W1 W2.
  destruct (design_results_ok_wf p lay so g nts SEED WFH DOK SAME GOK PLACE e w s ARR FITS) as [a' [recs [PR' [_ [_ [ST _]]]]]]. rewrite PR in PR'. inversion PR'; subst a'.
  destruct (bond_bases sn names sy len bs x y n1 o1 n2 o2 HS GB HB W1 W2) as [b [A1 A2]].
  destruct (walk_sym_spec p names x n1 o1 W1) as [_ [_ [_ [_ L1]]]]. destruct (walk_sym_spec p names y n2 o2 W2) as [_ [_ [_ [_ L2]]]].
  destruct (strand_of n1 o1 L1) as [it1 [l1 [d1 [H1 O1]]]]. destruct (strand_of n2 o2 L2) as [it2 [l2 [d2 [H2 O2]]]].
  destruct (ST n1 it1 l1 d1 H1) as [v1 [F1 [R1 _]]]. destruct (ST n2 it2 l2 d2 H2) as [v2 [F2 [R2 _]]].
  exists v1, v2, b. split; [exact F1 | split; [exact F2|]].
  rewrite (read_positions_nth nts l1 _ v1 o1 R1 O1), (read_positions_nth nts l2 _ v2 o2 R2 O2).
  unfold nt_at in A1, A2. destruct (nth_error nts (tpos n1 o1)) as [c1|]; [|discriminate]. destruct (nth_error nts (tpos n2 o2)) as [c2|]; [|discriminate].
  rewrite (char_base_inv c1 b A1), (char_base_inv c2 _ A2). auto. Qed.
End Bonds.

(* for every loaded document, either layout *)
Theorem loaded_bonds_watson_crick ls p lay g nts e w s (so : bool) a :
  load_spec ls pspec0 = OK p -> seed p so = OK (lay, g) -> get_constraints p so = DOk e w s -> fits nts e w -> process_results p lay nts = OK a ->
  forall sn names sy len bs x y n1 o1 n2 o2, In (sn, (names, sy, len)) (p_structs p) -> get_bonds sy = OK bs -> In (x, y) bs ->
  walk_sym p names x = Some (n1, o1) -> walk_sym p names y = Some (n2, o2) ->
  exists v1 v2 b, afind (r_strands a) n1 = Some v1 /\ afind (r_strands a) n2 = Some v2 /\
    nth_error v1 o1 = Some (base_char b) /\ nth_error v2 o2 = Some (base_char (bcompl b)).
Proof. intros LOAD SEED ARR FITS PR. destruct so.
  - apply (bonds_watson_crick p lay true g nts SEED (sloaded_wf ls p lay g LOAD SEED) (sloaded_dgraph ls p lay g LOAD SEED) (sloaded_same ls p lay g LOAD SEED)
             (sloaded_graph_ok ls p lay g LOAD SEED) (sloaded_place ls p lay g LOAD SEED) e w s ARR FITS a PR).
  - apply (bonds_watson_crick p lay false g nts SEED (loaded_wf ls p LOAD) (loaded_dgraph ls p lay g LOAD SEED) (loaded_same p lay g SEED)
             (loaded_graph_ok ls p lay g LOAD SEED) (loaded_place ls p lay g LOAD SEED) e w s ARR FITS a PR). Qed.

(* non-vacuity: the first structure of the demo document pairs position 0 (strand s1, offset 0) with position 9 (strand s2, offset 4) *)
Example demo_bond_premises : exists bs, In ("D"%string, (["s1"; "s2"]%string, [Open; Open; Open; Open; Open; Plus; Close; Close; Close; Close; Close], 10)) (p_structs demo_spec) /\
  get_bonds [Open; Open; Open; Open; Open; Plus; Close; Close; Close; Close; Close] = OK bs /\ In (0, 9) bs /\
  walk_sym demo_spec ["s1"; "s2"]%string 0 = Some ("s1"%string, 0) /\ walk_sym demo_spec ["s1"; "s2"]%string 9 = Some ("s2"%string, 4).
Proof. eexists. vm_compute. auto 10. Qed.
