(* Model of peppercompiler/design/constraints.py:propagate_constraints, line by line:
   outer loop over the keys with the "x not in eq_all" skip, the two frontier loops per
   round (second frontier taken after the first loop's updates), the assertions
   "y in keys and y not in eq_all", and the four assignment loops (later assignment wins,
   as in the dict).  Items are natural numbers (the harness numbers the ints / tuples the
   designer uses injectively).  Sets are duplicate-free lists; visiting order inside a
   frontier is list order -- PropagateProofs.v shows the result does not depend on it. *)
From Coq Require Import List Arith Bool.
Import ListNotations.

Definition mem (x : nat) (l : list nat) : bool := existsb (Nat.eqb x) l.
Definition add (x : nat) (l : list nat) : list nat := if mem x l then l else l ++ [x].
Definition union (l m : list nat) : list nat := fold_left (fun acc x => add x acc) m l.
Definition diff (l m : list nat) : list nat := filter (fun x => negb (mem x m)) l.

Record st := { eqs : list nat; wcs : list nat; eqd : list nat; wcd : list nat }.

Definition tbl := list (nat * (list nat * list nat)).
Fixpoint get (m : tbl) (y : nat) : option (list nat * list nat) :=
  match m with [] => None | (k, v) :: m' => if Nat.eqb k y then Some v else get m' y end.
Definition set (m : tbl) (y : nat) (v : list nat * list nat) : tbl := (y, v) :: m.
Definition assign (m : tbl) (ys : list nat) (v : list nat * list nat) : tbl :=
  fold_left (fun m y => set m y v) ys m.

Inductive lres := LOk (s : st) | LAssert | LFuel.
Inductive ores := OOk (m : tbl) | OAssert | OFuel.

Section Propagate.
Variable eq wc : nat -> list nat.   (* eq[y], wc[y]; only consulted for keys (guarded by the assertion) *)
Variable keys : list nat.

Definition step_eq (s : st) : st :=
  let fe := diff (eqs s) (eqd s) in
  {| eqs := fold_left (fun acc y => union acc (eq y)) fe (eqs s);
     wcs := fold_left (fun acc y => union acc (wc y)) fe (wcs s);
     eqd := union (eqd s) fe; wcd := wcd s |}.
Definition step_wc (s : st) : st :=
  let fw := diff (wcs s) (wcd s) in
  {| eqs := fold_left (fun acc y => union acc (wc y)) fw (eqs s);
     wcs := fold_left (fun acc y => union acc (eq y)) fw (wcs s);
     eqd := eqd s; wcd := union (wcd s) fw |}.
Definition finished (s : st) : bool :=
  match diff (eqs s) (eqd s), diff (wcs s) (wcd s) with [], [] => true | _, _ => false end.

(* assert y in keys and y not in eq_all, for every y of a frontier *)
Definition chk (m : tbl) (fr : list nat) : bool :=
  forallb (fun y => mem y keys && match get m y with None => true | Some _ => false end) fr.

Fixpoint loopc (m : tbl) (fuel : nat) (s : st) : lres :=
  if finished s then LOk s else
  match fuel with
  | O => LFuel
  | S f =>
      if chk m (diff (eqs s) (eqd s)) then
        let s1 := step_eq s in
        if chk m (diff (wcs s1) (wcd s1)) then loopc m f (step_wc s1) else LAssert
      else LAssert
  end.

Definition init (x : nat) : st :=
  {| eqs := add x (union [] (eq x)); wcs := union [] (wc x); eqd := []; wcd := [] |}.

Definition fuel0 : nat := 2 * length keys + 1.

Fixpoint outerc (ks : list nat) (m : tbl) : ores :=
  match ks with
  | [] => OOk m
  | x :: ks' =>
      match get m x with
      | Some _ => outerc ks' m
      | None =>
          match loopc m fuel0 (init x) with
          | LOk s => outerc ks' (assign (assign m (eqs s) (eqs s, wcs s)) (wcs s) (wcs s, eqs s))
          | LAssert => OAssert
          | LFuel => OFuel
          end
      end
  end.

Definition propagate : ores := outerc keys [].
End Propagate.
