(* What PIL_class.load_spec guarantees: every loaded specification is well formed (spec_wf), so the
   hypothesis spec_okb of the denotation theorems holds of every document the loader accepts. *)
From Coq Require Import List String Ascii Arith Bool Lia.
From PC Require Import Base.Codes Comp.Syntax Comp.Compile Comp.EmitProofs Comp.CompileProofs Comp.OrderProofs Design.Designer Design.DGraph Design.DenoteGraph Design.DenoteTie.
Import ListNotations.
Local Open Scope list_scope.

Definition iok (p : pspec) (B : nat) (it : sref) : Prop :=
  match it with
  | SB n _ => In n (map fst (p_bases p))
  | SS n _ => exists j, j < B /\ nth_error (map fst (p_sups p)) j = Some n
  end.

Record LI (p : pspec) : Prop := {
  li_nd_seq : NoDup (map fst (p_bases p) ++ map fst (p_sups p));
  li_nd_strand : NoDup (map fst (p_strands p));
  li_nd_struct : NoDup (map fst (p_structs p));
  li_sup : forall j n items l, nth_error (p_sups p) j = Some (n, (items, l)) ->
             (forall it, In it items -> iok p j it) /\ l = refs_total p items;
  li_strand : forall n items l d, In (n, (items, l, d)) (p_strands p) ->
             (forall it, In it items -> iok p (List.length (p_sups p)) it) /\ l = refs_total p items;
  li_struct : forall sn names s len, In (sn, (names, s, len)) (p_structs p) ->
             (forall n, In n names -> In n (map fst (p_strands p))) /\ len = total p names;
  li_equal : forall first rest, In (first :: rest) (p_equals p) ->
             forall s, In s (first :: rest) -> iok p (List.length (p_sups p)) s /\ sref_len p s = sref_len p first;
  li_tpl : forall n t, In (n, t) (p_bases p) -> valid_template t = true }.

Lemma LI_empty : LI pspec0.
Proof. constructor; simpl; try constructor; try (intros; match goal with H : nth_error [] ?j = _ |- _ => destruct j; discriminate end); intros; contradiction. Qed.

(* ---- lengths do not change when definitions are appended ---- *)
Lemma iok_mono p B1 B2 it : B1 <= B2 -> iok p B1 it -> iok p B2 it.
Proof. destruct it; simpl; [auto|]. intros L [j [A B]]. exists j. split; [lia | exact B]. Qed.
Lemma refs_len_total p l : refs_len p l = refs_total p l.
Proof. unfold refs_len, refs_total. assert (G : forall a, fold_left (fun a x => a + sref_len p x) l a = a + fold_right (fun it a => sref_len p it + a) 0 l).
  { induction l as [|x l IH]; intros a; simpl; [lia | rewrite IH; lia]. } apply (G 0). Qed.

Section Grow.
Variables p p' : pspec.
Hypothesis GB : exists xb, p_bases p' = p_bases p ++ xb.
Hypothesis GS : exists xs, p_sups p' = p_sups p ++ xs.
Lemma iok_grow B it : iok p B it -> B <= List.length (p_sups p) -> iok p' B it.
Proof. destruct GB as [xb EB]. destruct GS as [xs ES]. destruct it as [n r|n r]; simpl.
  - intros H _. rewrite EB, map_app. apply in_or_app. left. exact H.
  - intros [j [A Bj]] L. exists j. split; [exact A|]. rewrite ES, map_app. rewrite nth_error_app1; [exact Bj|]. rewrite map_length. lia. Qed.
Lemma sref_len_grow B it : iok p B it -> sref_len p' it = sref_len p it.
Proof. destruct GB as [xb EB]. destruct GS as [xs ES]. destruct it as [n r|n r]; simpl.
  - intros H. rewrite EB. apply ahas_true_In in H. unfold ahas in H. destruct (afind (p_bases p) n) as [t|] eqn:A; [|discriminate].
    rewrite (afind_app_keep _ xb n t A). reflexivity.
  - intros [j [_ Bj]]. assert (H : In n (map fst (p_sups p))) by (apply (nth_error_In _ _ Bj)). rewrite ES. apply ahas_true_In in H. unfold ahas in H.
    destruct (afind (p_sups p) n) as [v|] eqn:A; [|discriminate]. rewrite (afind_app_keep _ xs n v A). reflexivity. Qed.
Lemma refs_total_grow B items : (forall it, In it items -> iok p B it) -> refs_total p' items = refs_total p items.
Proof. induction items as [|it items IH]; intros H; [reflexivity|]. simpl. rewrite (sref_len_grow B it (H it (or_introl eq_refl))), IH; [reflexivity|].
  intros x Hx. apply H. right. exact Hx. Qed.
End Grow.

Lemma iok_same p q B it : p_bases q = p_bases p -> p_sups q = p_sups p -> iok p B it -> iok q B it.
Proof. intros E1 E2. destruct it; simpl; rewrite ?E1, ?E2; auto. Qed.
Lemma refs_total_same p q items : p_bases q = p_bases p -> p_sups q = p_sups p -> refs_total q items = refs_total p items.
Proof. intros E1 E2. induction items as [|it items IH]; [reflexivity|]. simpl. rewrite IH. f_equal. destruct it; simpl; rewrite ?E1, ?E2; reflexivity. Qed.

Lemma get_seqs_iok p items rs : get_seqs p items = OK rs -> forall it, In it rs -> iok p (List.length (p_sups p)) it.
Proof. revert rs. induction items as [|[n star] items IH]; intros rs H it Hit; simpl in H; [inversion H; subst; destruct Hit|].
  destruct (ahas (p_bases p) n) eqn:AB.
  - destruct (get_seqs p items) as [rest|]; [|discriminate]. simpl in H. inversion H; subst. destruct Hit as [<-|Hit]; [|apply (IH rest eq_refl it Hit)].
    simpl. apply ahas_true_In, AB.
  - destruct (ahas (p_sups p) n) eqn:AS; [|discriminate]. destruct (get_seqs p items) as [rest|]; [|discriminate]. simpl in H. inversion H; subst.
    destruct Hit as [<-|Hit]; [|apply (IH rest eq_refl it Hit)]. simpl. apply ahas_true_In in AS. apply In_nth_error in AS. destruct AS as [j Hj].
    exists j. split; [|exact Hj]. rewrite <- (map_length fst). apply nth_error_Some. rewrite Hj. discriminate. Qed.

Lemma strand_lens_spec p names lens : strand_lens_of p names = OK lens ->
  (forall n, In n names -> In n (map fst (p_strands p))) /\ fold_left Nat.add lens 0 = total p names.
Proof. assert (G : forall lens a, fold_left Nat.add lens a = a + fold_left Nat.add lens 0).
  { induction lens0 as [|x l IH]; intros a; simpl; [lia|]. rewrite IH, (IH x). lia. }
  revert lens. induction names as [|n names IH]; intros lens H; simpl in H.
  - inversion H; subst. split; [intros ? [] | reflexivity].
  - destruct (afind (p_strands p) n) as [[[its l] d]|] eqn:A; [|discriminate]. destruct (strand_lens_of p names) as [rest|]; [|discriminate].
    simpl in H. inversion H; subst. destruct (IH rest eq_refl) as [I1 I2]. split.
    + intros m [<-|Hm]; [apply ahas_true_In; unfold ahas; rewrite A; reflexivity | apply I1, Hm].
    + simpl. rewrite G, I2. unfold total at 2. simpl. unfold strand_len at 1. rewrite A. reflexivity. Qed.

Lemma NoDup_snoc {X} (l : list X) x : NoDup l -> ~ In x l -> NoDup (l ++ [x]).
Proof. induction l as [|y l IH]; intros ND NI; simpl; [constructor; [intros [] | constructor]|]. inversion ND; subst. constructor.
  - intros C. apply in_app_or in C. destruct C as [C|[C|[]]]; [contradiction | subst; apply NI; left; reflexivity].
  - apply IH; [assumption | intros C; apply NI; right; exact C]. Qed.
Lemma NoDup_mid_snoc {X} (a b : list X) x : NoDup (a ++ b) -> ~ In x a -> ~ In x b -> NoDup ((a ++ [x]) ++ b).
Proof. induction a as [|y a IH]; intros ND NA NB; simpl in *; [constructor; assumption|]. inversion ND; subst. constructor.
  - intros C. rewrite <- app_assoc in C. apply in_app_or in C. destruct C as [C|C]; [apply H1, in_or_app; left; exact C|].
    destruct C as [C|C]; [subst; apply NA; left; reflexivity | apply H1, in_or_app; right; exact C].
  - apply IH; [assumption | intros C; apply NA; right; exact C | exact NB]. Qed.
Lemma ahas_false_notin {V} (t : list (string * V)) k : ahas t k = false -> ~ In k (map fst t).
Proof. intros H C. apply ahas_true_In in C. congruence. Qed.

Lemma strand_len_grow (ss x : list (string * (list sref * nat * bool))) n : In n (map fst ss) ->
  match afind (ss ++ x) n with Some (_, l, _) => l | None => 0 end = match afind ss n : option (list sref * nat * bool) with Some (_, l, _) => l | None => 0 end.
Proof. intros H. apply ahas_true_In in H. unfold ahas in H. destruct (afind ss n) as [v|] eqn:A; [|discriminate]. rewrite (afind_app_keep _ x n v A). reflexivity. Qed.

Theorem load_line_LI p l p' : LI p -> load_line p l = OK p' -> LI p'.
Proof. intros [N1 N2 N3 LS LT LU LE LV] H. destruct l as [n t len|n items len|d n items len|opt n names s|lo hi ins outs|items]; simpl in H.
  - (* sequence *)
    destruct (valid_template t) eqn:VT; [|discriminate]. cbn [negb] in H. destruct (ahas (p_bases p) n || ahas (p_sups p) n) eqn:A; [discriminate|].
    apply orb_false_elim in A. destruct A as [A1 A2]. inversion H; subst p'. clear H.
    assert (GB : exists xb, p_bases p ++ [(n, t)] = p_bases p ++ xb) by eauto. assert (GS : exists xs, p_sups p = p_sups p ++ xs) by (exists []; rewrite app_nil_r; reflexivity).
    set (q := {| p_bases := p_bases p ++ [(n, t)]; p_sups := p_sups p; p_strands := p_strands p; p_structs := p_structs p; p_equals := p_equals p |}).
    constructor; cbn [p_bases p_sups p_strands p_structs q].
    + rewrite map_app. simpl. apply NoDup_mid_snoc; [exact N1 | apply ahas_false_notin, A1 | apply ahas_false_notin, A2].
    + exact N2. + exact N3.
    + intros j m its l Hj. destruct (LS j m its l Hj) as [I1 I2]. assert (Lj : j <= List.length (p_sups p)) by (apply Nat.lt_le_incl, nth_error_Some; rewrite Hj; discriminate).
      split; [intros it Hit; apply (iok_grow p q GB GS j it (I1 it Hit) Lj) | rewrite (refs_total_grow p q GB GS j its I1); exact I2].
    + intros m its l d0 Hin. destruct (LT m its l d0 Hin) as [I1 I2].
      split; [intros it Hit; apply (iok_grow p q GB GS _ it (I1 it Hit) (le_n _)) | rewrite (refs_total_grow p q GB GS _ its I1); exact I2].
    + intros sn nm sy ln Hin. destruct (LU sn nm sy ln Hin) as [I1 I2]. split; [exact I1 | exact I2].
    + intros first rest Hin s0 Hs. destruct (LE first rest Hin s0 Hs) as [I1 I2]. destruct (LE first rest Hin first (or_introl eq_refl)) as [I3 _].
      split; [apply (iok_grow p q GB GS _ s0 I1 (le_n _)) | rewrite (sref_len_grow p q GB GS _ s0 I1), (sref_len_grow p q GB GS _ first I3); exact I2].
    + intros m t0 Hin. apply in_app_or in Hin. destruct Hin as [Hin|[Hin|[]]]; [apply (LV m t0 Hin) | inversion Hin; subst; exact VT].
  - (* super-sequence *)
    destruct (ahas (p_bases p) n || ahas (p_sups p) n) eqn:A; [discriminate|]. apply orb_false_elim in A. destruct A as [A1 A2].
    destruct (get_seqs p items) as [rs|] eqn:G; [|discriminate]. simpl in H. inversion H; subst p'. clear H.
    pose proof (get_seqs_iok p items rs G) as IR.
    assert (GB : exists xb, p_bases p = p_bases p ++ xb) by (exists []; rewrite app_nil_r; reflexivity).
    assert (GS : exists xs, p_sups p ++ [(n, (rs, refs_len p rs))] = p_sups p ++ xs) by eauto.
    set (q := {| p_bases := p_bases p; p_sups := p_sups p ++ [(n, (rs, refs_len p rs))]; p_strands := p_strands p; p_structs := p_structs p; p_equals := p_equals p |}).
    constructor; cbn [p_bases p_sups p_strands p_structs q].
    + rewrite map_app, app_assoc. simpl. apply NoDup_snoc; [exact N1|]. intros C. apply in_app_or in C. destruct C as [C|C]; [apply (ahas_false_notin _ _ A1 C) | apply (ahas_false_notin _ _ A2 C)].
    + exact N2. + exact N3.
    + intros j m its l Hj. destruct (Nat.lt_ge_cases j (List.length (p_sups p))) as [Lj|Gj].
      * rewrite nth_error_app1 in Hj by exact Lj. destruct (LS j m its l Hj) as [I1 I2].
        split; [intros it Hit; apply (iok_grow p q GB GS j it (I1 it Hit)); lia | rewrite (refs_total_grow p q GB GS j its I1); exact I2].
      * rewrite nth_error_app2 in Hj by exact Gj. destruct (j - List.length (p_sups p)) as [|k] eqn:Q; [|destruct k; discriminate]. simpl in Hj. inversion Hj; subst m its l.
        assert (j = List.length (p_sups p)) by lia. subst j.
        split; [intros it Hit; apply (iok_grow p q GB GS _ it (IR it Hit) (le_n _)) | rewrite (refs_total_grow p q GB GS _ rs IR); apply refs_len_total].
    + intros m its l d0 Hin. destruct (LT m its l d0 Hin) as [I1 I2]. rewrite app_length. simpl.
      split; [intros it Hit; apply (iok_mono q (List.length (p_sups p))); [lia | apply (iok_grow p q GB GS _ it (I1 it Hit) (le_n _))] | rewrite (refs_total_grow p q GB GS _ its I1); exact I2].
    + intros sn nm sy ln Hin. destruct (LU sn nm sy ln Hin) as [I1 I2]. split; [exact I1 | exact I2].
    + intros first rest Hin s0 Hs. destruct (LE first rest Hin s0 Hs) as [I1 I2]. destruct (LE first rest Hin first (or_introl eq_refl)) as [I3 _]. rewrite app_length. simpl.
      split; [apply (iok_mono q (List.length (p_sups p))); [lia | apply (iok_grow p q GB GS _ s0 I1 (le_n _))] | rewrite (sref_len_grow p q GB GS _ s0 I1), (sref_len_grow p q GB GS _ first I3); exact I2].
    + exact LV.
  - (* strand *)
    destruct (ahas (p_strands p) n) eqn:A; [discriminate|]. destruct (get_seqs p items) as [rs|] eqn:G; [|discriminate]. simpl in H. inversion H; subst p'. clear H.
    pose proof (get_seqs_iok p items rs G) as IR.
    set (q := {| p_bases := p_bases p; p_sups := p_sups p; p_strands := p_strands p ++ [(n, (rs, refs_len p rs, d))]; p_structs := p_structs p; p_equals := p_equals p |}).
    assert (E1 : p_bases q = p_bases p) by reflexivity. assert (E2 : p_sups q = p_sups p) by reflexivity.
    constructor; cbn [p_bases p_sups p_strands p_structs q].
    + exact N1. + rewrite map_app. simpl. apply NoDup_snoc; [exact N2 | apply ahas_false_notin, A]. + exact N3.
    + intros j m its l Hj. destruct (LS j m its l Hj) as [I1 I2]. split; [intros it Hit; apply (iok_same p q j it E1 E2 (I1 it Hit)) | rewrite (refs_total_same p q its E1 E2); exact I2].
    + intros m its l d0 Hin. apply in_app_or in Hin. destruct Hin as [Hin|[Hin|[]]].
      * destruct (LT m its l d0 Hin) as [I1 I2]. split; [intros it Hit; apply (iok_same p q _ it E1 E2 (I1 it Hit)) | rewrite (refs_total_same p q its E1 E2); exact I2].
      * inversion Hin; subst m its l d0. split; [intros it Hit; apply (iok_same p q _ it E1 E2 (IR it Hit)) | rewrite (refs_total_same p q rs E1 E2); apply refs_len_total].
    + intros sn nm sy ln Hin. destruct (LU sn nm sy ln Hin) as [I1 I2]. split.
      * intros m Hm. rewrite map_app. apply in_or_app. left. apply I1, Hm.
      * rewrite I2. unfold total. clear - I1. induction nm as [|m nm IH]; [reflexivity|]. simpl. rewrite IH by (intros x Hx; apply I1; right; exact Hx).
        f_equal. unfold strand_len. cbn [p_strands q]. symmetry. apply strand_len_grow. apply I1. left. reflexivity.
    + intros first rest Hin s0 Hs. destruct (LE first rest Hin s0 Hs) as [I1 I2]. split; [apply (iok_same p q _ s0 E1 E2 I1) | exact I2].
    + exact LV.
  - (* structure *)
    destruct (ahas (p_structs p) n) eqn:A; [discriminate|]. destruct (strand_lens_of p names) as [lens|] eqn:SL; [|discriminate]. simpl in H.
    destruct (get_bonds s) as [bs|]; [|discriminate]. simpl in H. destruct (Comp.Struct.structure_ok s lens); [|discriminate]. inversion H; subst p'. clear H.
    destruct (strand_lens_spec p names lens SL) as [S1 S2].
    set (q := {| p_bases := p_bases p; p_sups := p_sups p; p_strands := p_strands p; p_structs := p_structs p ++ [(n, (names, s, fold_left Nat.add lens 0))]; p_equals := p_equals p |}).
    assert (E1 : p_bases q = p_bases p) by reflexivity. assert (E2 : p_sups q = p_sups p) by reflexivity.
    constructor; cbn [p_bases p_sups p_strands p_structs q].
    + exact N1. + exact N2. + rewrite map_app. simpl. apply NoDup_snoc; [exact N3 | apply ahas_false_notin, A].
    + intros j m its l Hj. destruct (LS j m its l Hj) as [I1 I2]. split; [intros it Hit; apply (iok_same p q j it E1 E2 (I1 it Hit)) | rewrite (refs_total_same p q its E1 E2); exact I2].
    + intros m its l d0 Hin. destruct (LT m its l d0 Hin) as [I1 I2]. split; [intros it Hit; apply (iok_same p q _ it E1 E2 (I1 it Hit)) | rewrite (refs_total_same p q its E1 E2); exact I2].
    + intros sn nm sy ln Hin. apply in_app_or in Hin. destruct Hin as [Hin|[Hin|[]]]; [apply (LU sn nm sy ln Hin)|]. inversion Hin; subst. split; [exact S1 | exact S2].
    + intros first rest Hin s0 Hs. destruct (LE first rest Hin s0 Hs) as [I1 I2]. split; [apply (iok_same p q _ s0 E1 E2 I1) | exact I2].
    + exact LV.
  - (* kinetic *) inversion H; subst. constructor; assumption.
  - (* equal *)
    destruct (get_seqs p items) as [rs|] eqn:G; [|discriminate]. simpl in H. destruct rs as [|r0 rs]; [discriminate|].
    destruct (forallb _ _) eqn:FB; [|discriminate]. inversion H; subst p'. clear H.
    pose proof (get_seqs_iok p items _ G) as IR.
    set (q := {| p_bases := p_bases p; p_sups := p_sups p; p_strands := p_strands p; p_structs := p_structs p; p_equals := p_equals p ++ [r0 :: rs] |}).
    assert (E1 : p_bases q = p_bases p) by reflexivity. assert (E2 : p_sups q = p_sups p) by reflexivity.
    constructor; cbn [p_bases p_sups p_strands p_structs p_equals q]; try assumption.
    intros first rest Hin s0 Hs. apply in_app_or in Hin. destruct Hin as [Hin|[Hin|[]]].
    + destruct (LE first rest Hin s0 Hs) as [I1 I2]. split; [apply (iok_same p q _ s0 E1 E2 I1) | exact I2].
    + inversion Hin; subst first rest. split; [apply (iok_same p q _ s0 E1 E2 (IR s0 Hs))|]. rewrite forallb_forall in FB. apply Nat.eqb_eq. apply (FB s0 Hs). Qed.

Theorem load_spec_LI ls : forall p p', LI p -> load_spec ls p = OK p' -> LI p'.
Proof. induction ls as [|l ls IH]; intros p p' I H; simpl in H; [inversion H; subst; exact I|].
  destruct (load_line p l) as [p1|] eqn:E; [|discriminate]. simpl in H. apply (IH p1 p' (load_line_LI p l p1 I E) H). Qed.

(* ---- from the loader's invariant to the well-formedness used by the denotation theorems ---- *)
Lemma NoDup_app_r {X} (a b : list X) : NoDup (a ++ b) -> NoDup b.
Proof. induction a as [|x a IH]; intros H; [exact H|]. inversion H; subst. apply IH. assumption. Qed.
Lemma index_of_In l n : In n l -> forall k0, exists k, index_of l n k0 = Some k.
Proof. induction l as [|x l IH]; intros H k0; [destruct H|]. simpl. destruct (String.eqb x n) eqn:E; [eauto|].
  destruct H as [->|H]; [rewrite String.eqb_refl in E; discriminate | apply IH, H]. Qed.

Lemma iok_item_ok p B it : LI p -> iok p B it -> item_ok p B it.
Proof. intros I H. destruct it as [n r|n r]; simpl in *.
  - destruct (index_of_In _ n H 0) as [k E]. unfold base_index. rewrite E.
    destruct (index_of_spec (p_bases p) n 0 k E) as [t [_ [N A]]]. rewrite Nat.sub_0_r in N. exists k, t. auto.
  - destruct H as [j [Lj Hj]]. pose proof (NoDup_app_r _ _ (li_nd_seq p I)) as ND.
    pose proof (index_of_nth _ n ND 0 j Hj) as E. simpl in E. unfold sup_index. rewrite E.
    destruct (index_of_spec (p_sups p) n 0 j E) as [[items l] [_ [N A]]]. rewrite Nat.sub_0_r in N. exists j, items, l. auto. Qed.

Definition placed (p : pspec) : Prop :=
  forall n items l d, In (n, (items, l, d)) (p_strands p) -> l <> 0 -> first_inst_in p (p_structs p) n <> None.

Theorem LI_spec_wf p so : LI p -> (so = true -> placed p) -> spec_wf p so.
Proof. intros I PL. constructor.
  - intros j n items l Hj. destruct (li_sup p I j n items l Hj) as [I1 I2]. split; [intros it Hit; apply (iok_item_ok p j it I (I1 it Hit)) | exact I2].
  - intros n items l d Hin. split; [apply afind_In; [apply (li_nd_strand p I) | exact Hin]|]. destruct (li_strand p I n items l d Hin) as [I1 I2].
    split; [intros it Hit; apply (iok_item_ok p _ it I (I1 it Hit)) | exact I2].
  - intros j n items l Hj. unfold sup_index. assert (N : nth_error (map fst (p_sups p)) j = Some n) by (rewrite nth_error_map, Hj; reflexivity).
    apply (index_of_nth _ n (NoDup_app_r _ _ (li_nd_seq p I)) 0 j N).
  - intros SO sn v Hin. apply afind_In; [apply (li_nd_struct p I) | exact Hin].
  - intros SO n items l d Hin NZ. apply (PL SO n items l d Hin NZ).
  - intros k n t Hk. unfold base_index. assert (N : nth_error (map fst (p_bases p)) k = Some n) by (rewrite nth_error_map, Hk; reflexivity).
    apply (index_of_nth _ n (NoDup_app_l _ _ (li_nd_seq p I)) 0 k N).
  - intros n Hb. unfold base_index in Hb. unfold sup_index. destruct (index_of (map fst (p_sups p)) n 0) as [j|] eqn:E; [|reflexivity]. exfalso.
    destruct (index_of (map fst (p_bases p)) n 0) as [k|] eqn:Eb; [|apply Hb; reflexivity].
    destruct (index_of_spec (p_bases p) n 0 k Eb) as [t [_ [Nb _]]]. destruct (index_of_spec (p_sups p) n 0 j E) as [v [_ [Ns _]]].
    apply nth_error_In in Nb. apply nth_error_In in Ns.
    apply (NoDup_app_disj _ _ (li_nd_seq p I) n); [apply in_map_iff; exists (n, t); auto | apply in_map_iff; exists (n, v); auto].
  - intros SO sn names s len Hin. apply (proj2 (li_struct p I sn names s len Hin)). Qed.

(* every loaded document is well formed (strand layout: no further condition) *)
Theorem load_spec_wf ls p : load_spec ls pspec0 = OK p -> spec_wf p false.
Proof. intros H. apply LI_spec_wf; [apply (load_spec_LI ls pspec0 p LI_empty H) | discriminate]. Qed.
Theorem load_spec_wf_struct ls p : load_spec ls pspec0 = OK p -> placed p -> spec_wf p true.
Proof. intros H PL. apply LI_spec_wf; [apply (load_spec_LI ls pspec0 p LI_empty H) | intros _; exact PL]. Qed.
