(* C06 composed, component level, strand layout: a component the compiler accepts, its emitted
   specification loaded by the designer, any designed string that fits the constraint arrays, the
   records written for it - finishing against the compiled component then succeeds. *)
From Coq Require Import List String Ascii Arith Bool Lia.
From PC Require Import Base.Codes Comp.Syntax Comp.Compile Comp.Denote Comp.EmitProofs Comp.CompileProofs Comp.OrderProofs Comp.WfPil
  Design.Designer Design.DGraph Design.DenoteGraph Design.DenoteTie Design.DenoteSat Design.Results Design.ResultsProofs
  Design.LoadProofs Design.Loaded Design.StructTotal Design.LoadedStruct Design.ShapeProofs Design.ComposeProofs Design.SeedTotal Design.CrossProofs Finish.Apply Finish.ApplyProofs.
Import ListNotations.
Local Open Scope list_scope.

Lemma table_of_In recs : NoDup (map fst recs) -> forall k v, In (k, v) recs -> table_of recs k = Some v.
Proof. induction recs as [|[n0 v0] recs IH]; intros ND k v H; [destruct H|]. simpl in ND. inversion ND as [|? ? NI ND']; subst. simpl.
  destruct H as [H|H].
  - inversion H; subst. assert (T : table_of recs k = None).
    { clear - NI. induction recs as [|[n1 v1] recs IHr]; [reflexivity|]. simpl. rewrite IHr by (intros C; apply NI; right; exact C).
      destruct (String.eqb n1 k) eqn:E; [|reflexivity]. apply String.eqb_eq in E. subst. exfalso. apply NI. left. reflexivity. }
    rewrite T, String.eqb_refl. reflexivity.
  - rewrite (IH ND' k v H). reflexivity. Qed.
Lemma join_plus_same l : Results.join_plus l = join_plus_chars l.
Proof. induction l as [|x l IH]; [reflexivity|]. destruct l; [reflexivity|]. cbn [Results.join_plus join_plus_chars] in *. rewrite IH. reflexivity. Qed.
Lemma list_eq_nth {X} (a b : list X) : List.length a = List.length b -> (forall o, o < List.length a -> nth_error a o = nth_error b o) -> a = b.
Proof. revert b. induction a as [|x a IH]; intros [|y b] L H; simpl in L; try discriminate; [reflexivity|].
  pose proof (H 0 ltac:(simpl; lia)) as H0. simpl in H0. inversion H0; subst. f_equal. apply IH; [congruence|]. intros o Ho. apply (H (S o)). simpl. lia. Qed.

(* the character a nucleotide (name, offset, star) takes under a table of records *)
Definition cc (ch : ascii) : ascii := match compl_code ch with Some c' => c' | None => ch end.
Definition charof (t : table) (x : nt) : ascii :=
  match t (fst (fst x)) with
  | Some v => match nth_error v (snd (fst x)) with Some ch => if snd x then cc ch else ch | None => "?"%char end
  | None => "?"%char
  end.
Lemma map_nth_seq {X} (v : list X) d : map (fun i => nth i v d) (seq 0 (List.length v)) = v.
Proof. apply list_eq_nth; [rewrite map_length, seq_length; reflexivity|]. intros o Ho. rewrite map_length, seq_length in Ho.
  rewrite nth_error_map, (nth_error_nth' (seq 0 _) 0) by (rewrite seq_length; exact Ho). rewrite seq_nth by exact Ho. simpl.
  rewrite (nth_error_nth' v d Ho). reflexivity. Qed.
Lemma E_dom t nm v : t nm = Some v -> map (charof t) (dom_nts nm (List.length v)) = v.
Proof. intros T. unfold dom_nts. rewrite map_map. rewrite <- (map_nth_seq v "?"%char) at 2. apply map_ext_in. intros i Hi. apply in_seq in Hi.
  unfold charof. simpl. rewrite T. rewrite (nth_error_nth' v "?"%char) by lia. reflexivity. Qed.
Lemma map_compl_cc l : forall w, map_compl l = Some w -> w = map cc l.
Proof. induction l as [|c l IH]; intros w H; simpl in H; [inversion H; reflexivity|]. destruct (compl_code c) as [c'|] eqn:Q; [|discriminate].
  destruct (map_compl l) as [r|]; [|discriminate]. inversion H; subst. simpl. unfold cc at 1. rewrite Q. f_equal. apply IH. reflexivity. Qed.
Lemma E_rc_dom t nm v wv : t nm = Some v -> wc_codes v = Some wv -> map (charof t) (rc (dom_nts nm (List.length v))) = wv.
Proof. intros T WC. unfold wc_codes in WC. rewrite (map_compl_cc _ _ WC). unfold rc, dom_nts. rewrite <- map_rev, !map_map.
  rewrite <- (map_nth_seq v "?"%char) at 2. rewrite <- map_rev, map_map. apply map_ext_in. intros i Hi. apply in_rev, in_seq in Hi.
  unfold charof, flipnt. simpl. rewrite T. rewrite (nth_error_nth' v "?"%char) by lia. reflexivity. Qed.

Lemma read_positions_length nts : forall l s0 v, read_positions nts s0 l = OK v -> List.length v = l.
Proof. induction l as [|l IH]; intros s0 v H; simpl in H; [inversion H; reflexivity|]. destruct (nth_error nts s0); [|discriminate].
  destruct (read_positions nts (S s0) l) as [r|] eqn:R; [|discriminate]. inversion H; subst. simpl. rewrite (IH _ _ R). reflexivity. Qed.

Section Composed.
Variable c : comp.
Hypothesis W : WF c.
Hypothesis W2 : WF2 c.
Variable p : pspec.
Variable ls : list pline.
Hypothesis LOAD : load_spec ls pspec0 = OK p.
Hypothesis INC : incl (emit_comp c) ls.
Variable lay : layout.
Variable g : cgraph.
Hypothesis SEED : seed p false = OK (lay, g).
Variables (e w : list (option nat)) (s : list (option ascii)).
Hypothesis ARR : get_constraints p false = DOk e w s.
Variable nts : list ascii.
Hypothesis FITS : fits nts e w.
Let P := c_prefix c.
Let LIp : LI p := load_spec_LI ls pspec0 p LI_empty LOAD.
Let WFp : spec_wf p false := load_spec_wf ls p LOAD.
Let SH := load_spec_shape ls pspec0 p LOAD.

(* every non-empty base sequence of the component is a sequence of the loaded specification *)
Lemma base_loaded n b : In (n, b) (c_bases c) -> b_len b <> 0 ->
  exists k, nth_error (p_bases p) k = Some (P +++ n, b_const b) /\ base_index p (P +++ n) = Some k.
Proof. intros Hin NZ. assert (LN : In (PSeq (P +++ n) (b_const b) (b_len b)) (emit_comp c)).
  { rewrite emit_split. apply in_or_app. left. unfold base_lines. apply in_flat_map. exists (n, b). split; [exact Hin|].
    destruct (Nat.eqb_spec (b_len b) 0); [contradiction | left; reflexivity]. }
  pose proof (sh_seq _ _ SH _ _ _ (INC _ LN)) as HB. apply In_nth_error in HB. destruct HB as [k Hk]. exists k. split; [exact Hk | apply (wf_base_idx p false WFp k _ _ Hk)]. Qed.

Section Records.
Variable a : results.
Variable recs : list (string * list ascii).
Hypothesis ND : NoDup (map fst recs).
Hypothesis RA : forall k n t, nth_error (p_bases p) k = Some (n, t) -> exists v wv, In (n, v) recs /\ In ((n ++ "*")%string, wv) recs /\
       wc_codes v = Some wv /\ List.length v = List.length t.
Hypothesis RB : forall n items l d, In (n, (items, l, d)) (p_strands p) -> exists vs, afind (r_strands a) n = Some vs /\
       read_positions nts (tstart_of lay n) l = OK vs /\
       forall o cn par, o < l -> nth o (flat_map (ref_c p (ctbl p)) items) (DAux 0 0, false) = (cn, par) ->
         exists k i bn t v b, cn = DAux (2 * k) i /\ nth_error (p_bases p) k = Some (bn, t) /\ In (bn, v) recs /\
                              nth_error v i = Some (base_char b) /\ nth_error vs o = Some (base_char (app_par par b)).
Hypothesis RC : forall sn names sy len, In (sn, (names, sy, len)) (p_structs p) ->
       In (sn, Results.join_plus (map (fun n => match afind (r_strands a) n with Some v => v | None => [] end) names)) recs.
Let t : table := table_of recs.

Lemma finish_H1 n b : In (n, b) (c_bases c) -> b_len b <> 0 ->
  exists v wv, t (P +++ n) = Some v /\ List.length v = b_len b /\ wc_codes v = Some wv /\ t ((P +++ n) +++ "*") = Some wv.
Proof. intros Hin NZ. destruct (base_loaded n b Hin NZ) as [k [Hk _]]. destruct (RA k _ _ Hk) as [v [wv [I1 [I2 [WC L]]]]].
  exists v, wv. split; [apply (table_of_In recs ND _ _ I1) | split; [rewrite L; apply (wf_const c W n b Hin) | split; [exact WC | apply (table_of_In recs ND _ _ I2)]]]. Qed.

Variable vals : list (string * list ascii).
Hypothesis VALS : base_values t P (c_bases c) = OK vals.

Lemma vals_lookup n b : In (n, b) (c_bases c) -> exists v, afind vals n = Some v /\ (b_len b = 0 -> v = []) /\
  (b_len b <> 0 -> t (P +++ n) = Some v /\ List.length v = b_len b /\ exists wv, wc_codes v = Some wv).
Proof. intros Hin. destruct (base_values_spec t P (c_bases c) vals VALS) as [NM SP]. destruct (SP n b Hin) as [v [Iv [Z NZ]]].
  exists v. split; [apply afind_In; [rewrite NM; apply (nodup_bases c W) | exact Iv]|]. split; [exact Z|]. intros H. destruct (NZ H) as [A [B [wv [C _]]]]. eauto. Qed.

(* the characters of a flattened list of base references are the values finish computes for it *)
Lemma E_flatB brefs : (forall x, In x brefs -> ahas (c_bases c) (fst x) = true) ->
  map (charof t) (flatB c brefs) = brefs_value vals brefs.
Proof. induction brefs as [|[bn star] brefs IH]; intros H; [reflexivity|]. unfold flatB, brefs_value in *. cbn [flat_map]. rewrite map_app, IH by (intros x Hx; apply H; right; exact Hx).
  f_equal. pose proof (H (bn, star) (or_introl eq_refl)) as AB. cbn [fst] in AB. unfold ahas in AB. destruct (afind (c_bases c) bn) as [b|] eqn:A; [|discriminate].
  pose proof (afind_Some_In _ _ _ A) as Hin. destruct (vals_lookup bn b Hin) as [v [AV [Z NZ]]].
  unfold flat_bref, bref_value, base_len. cbn [fst snd]. rewrite A, AV. destruct (Nat.eq_dec (b_len b) 0) as [E0|NE].
  - rewrite E0, (Z E0). destruct star; reflexivity.
  - destruct (NZ NE) as [T [L [wv WC]]]. rewrite <- L. fold P. destruct star; [rewrite WC; apply (E_rc_dom t _ v wv T WC) | apply (E_dom t _ v T)]. Qed.

(* the string read for a strand is what finish computes from the base records *)
Lemma strand_value n st : In (n, st) (c_strands c) -> afind (r_strands a) (P +++ n) = Some (brefs_value vals (s_base (t_sup st))).
Proof. intros Hin. destruct (strand_flattening c W p ls LOAD INC n st Hin) as [l [HS FL]]. destruct (RB _ _ _ _ HS) as [vs [F [RD BB]]].
  unfold P. rewrite F. f_equal. pose proof (wf_strands c W n st Hin) as OKs.
  rewrite <- (E_flatB (s_base (t_sup st)) (so_bdef _ _ _ OKs)).
  set (L := flatB c (s_base (t_sup st))) in *.
  destruct (wf_strand p false WFp _ _ _ _ HS) as [_ [OKI EL]].
  assert (LL : List.length L = l).
  { rewrite EL, <- (flat_ref_length p false WFp _ _ OKI), FL, map_length. reflexivity. }
  apply list_eq_nth; [rewrite map_length, (read_positions_length nts l _ vs RD), LL; reflexivity|].
  intros o Ho. rewrite (read_positions_length nts l _ vs RD) in Ho.
  destruct (nth_error L o) as [[[nm i] star]|] eqn:NL; [|apply nth_error_None in NL; lia].
  rewrite nth_error_map, NL. cbn [option_map].
  assert (NF : nth o (flat_map (ref_c p (ctbl p)) (classify p (emit_items c (s_seqs (t_sup st))))) (DAux 0 0, false) = (DAux (2 * bix p nm) i, star)).
  { rewrite FL. rewrite (nth_indep _ _ (cvn p (nm, i, star))) by (rewrite map_length; lia). rewrite map_nth. rewrite (nth_error_nth L o _ NL). reflexivity. }
  destruct (BB o _ _ Ho NF) as [k [i' [bn [tp [v [b [E1 [E2 [E3 [E4 E5]]]]]]]]]]. inversion E1 as [[Ek Ei]]. assert (k = bix p nm) by lia. subst k i'.
  (* the name is a non-empty base of the component *)
  apply nth_error_In in NL. unfold L, flatB in NL. apply in_flat_map in NL. destruct NL as [[bn0 st0] [Hb Hx]].
  pose proof (so_bdef _ _ _ OKs _ Hb) as AB. cbn [fst] in AB. unfold ahas in AB. destruct (afind (c_bases c) bn0) as [b0|] eqn:A0; [|discriminate].
  pose proof (afind_Some_In _ _ _ A0) as Hin0.
  assert (NM : nm = P +++ bn0 /\ b_len b0 <> 0).
  { unfold flat_bref, base_len in Hx. cbn [fst snd] in Hx. rewrite A0 in Hx. destruct (Nat.eq_dec (b_len b0) 0) as [Z|NZ].
    - rewrite Z in Hx. destruct st0; destruct Hx.
    - split; [|exact NZ]. destruct st0; [unfold rc in Hx; apply in_map_iff in Hx; destruct Hx as [y [Ey Hy]]; apply in_rev in Hy|];
        unfold dom_nts in *; [apply in_map_iff in Hy; destruct Hy as [j [Ej _]]; subst y; inversion Ey; reflexivity | apply in_map_iff in Hx; destruct Hx as [j [Ej _]]; inversion Ej; reflexivity]. }
  destruct NM as [-> NZ0]. destruct (base_loaded bn0 b0 Hin0 NZ0) as [k0 [Hk0 BI]]. unfold bix in E2. rewrite BI in E2. rewrite Hk0 in E2. inversion E2; subst bn tp.
  unfold charof. cbn [fst snd]. unfold t. rewrite (table_of_In recs ND _ _ E3), E4, E5. f_equal.
  destruct star; [unfold cc; rewrite compl_base_char; reflexivity | reflexivity]. Qed.

Lemma finish_H2 n u : In (n, u) (c_structs c) ->
  t (P +++ n) = Some (join_plus_chars (map (fun sn =>
      match afind (map (fun x => (fst (fst x), snd x)) (map (fun '(n0, st) => (n0, t_dummy st, brefs_value vals (s_base (t_sup st)))) (c_strands c))) sn with
      | Some x => x | None => [] end) (u_strands u))).
Proof. intros Hin. assert (LN : In (PStruct (u_opt u) (P +++ n) (map (fun x => P +++ x) (u_strands u)) (u_struct u)) (emit_comp c)).
  { rewrite emit_split. apply in_or_app. right. apply in_or_app. right. apply in_or_app. right. apply in_or_app. left. apply in_map_iff. exists (n, u). auto. }
  destruct (sh_struct _ _ SH _ _ _ _ (INC _ LN)) as [len HS]. pose proof (RC _ _ _ _ HS) as HR. unfold t. rewrite (table_of_In recs ND _ _ HR). f_equal.
  rewrite join_plus_same. f_equal. rewrite map_map. apply map_ext_in. intros sn Hsn.
  (* the strand is defined *)
  destruct (in_split _ _ Hin) as [pre [post Es]]. destruct (wf2_structs c W2 pre n u post Es) as [_ [_ [ts [FS _]]]].
  assert (DS : exists st, afind (c_strands c) sn = Some st).
  { clear - FS Hsn. revert ts FS. induction (u_strands u) as [|m ms IH]; intros ts FS; [destruct Hsn|]. simpl in FS.
    destruct (afind (c_strands c) m) as [tm|] eqn:A; [|discriminate]. destruct (find_strands c ms) as [rest|]; [|discriminate].
    destruct Hsn as [->|Hs]; [eauto | apply (IH Hs rest eq_refl)]. }
  destruct DS as [st AS]. rewrite (strand_value sn st (afind_Some_In _ _ _ AS)).
  assert (Q : afind (map (fun x : string * bool * list ascii => (fst (fst x), snd x)) (map (fun '(n0, st0) => (n0, t_dummy st0, brefs_value vals (s_base (t_sup st0)))) (c_strands c))) sn
              = Some (brefs_value vals (s_base (t_sup st)))).
  { clear - AS. induction (c_strands c) as [|[m tm] ss IH]; [discriminate|]. simpl in *. destruct (String.eqb m sn); [inversion AS; reflexivity | apply IH, AS]. }
  rewrite Q. reflexivity. Qed.
End Records.
End Composed.

(* C06 composed: compile -> emit -> load -> arrays -> any fitting string -> records -> finish *)
Theorem compiled_design_finishes ctr prefix d body c ctr' p lay g e w s nts :
  compile_comp ctr prefix d body = OK (c, ctr') ->
  load_spec (emit_comp c) pspec0 = OK p -> seed p false = OK (lay, g) -> get_constraints p false = DOk e w s -> fits nts e w ->
  exists a recs, process_results p lay nts = OK a /\ output_records p a = OK recs /\
    (NoDup (map fst recs) -> exists f, apply_comp (table_of recs) c = OK f).
Proof. intros COMP LOAD SEED ARR FITS. destruct (compile_comp_inv _ _ _ _ _ _ COMP) as [W [W2 _]].
  destruct (loaded_design_results_ok (emit_comp c) p lay g nts LOAD SEED e w s ARR FITS) as [a [recs [PR [OR [RA [RB RC]]]]]].
  exists a, recs. split; [exact PR | split; [exact OR|]]. intros ND. apply apply_comp_complete.
  - intros n b Hin NZ. apply (finish_H1 c W p (emit_comp c) LOAD (incl_refl _) recs ND RA n b Hin NZ).
  - intros vals VALS n u Hin. apply (finish_H2 c W W2 p (emit_comp c) LOAD (incl_refl _) lay nts a recs ND RB RC vals VALS n u Hin). Qed.

(* the whole chain for a compiled component whose constraint strings are nucleotide codes *)
Theorem compiled_component_end_to_end ctr prefix d body c ctr' :
  compile_comp ctr prefix d body = OK (c, ctr') ->
  (forall n b, In (n, b) (c_bases c) -> valid_template (b_const b) = true) ->
  exists p lay g, load_spec (emit_comp c) pspec0 = OK p /\ seed p false = OK (lay, g) /\
    (get_constraints p false = DOver \/
     exists e w s, get_constraints p false = DOk e w s /\
       forall nts, fits nts e w ->
         exists a recs, process_results p lay nts = OK a /\ output_records p a = OK recs /\
           (NoDup (map fst recs) -> exists f, apply_comp (table_of recs) c = OK f)).
Proof. intros COMP VT. destruct (CrossProofs.compiled_component_designs ctr prefix d body c ctr' COMP VT) as [[p LOAD] _].
  destruct (SeedTotal.seed_total (emit_comp c) p LOAD) as [g SEED]. exists p, (build_layout p false), g. split; [exact LOAD | split; [exact SEED|]].
  destruct (loaded_total (emit_comp c) p _ g LOAD SEED) as [O|[e [w [s A]]]]; [left; exact O|]. right. exists e, w, s. split; [exact A|].
  intros nts F. apply (compiled_design_finishes ctr prefix d body c ctr' p _ g e w s nts COMP LOAD SEED A F). Qed.

(* the same chain when the designer lays the arrays out structure by structure *)
Theorem compiled_design_finishes_struct ctr prefix d body c ctr' p lay g e w s nts :
  compile_comp ctr prefix d body = OK (c, ctr') ->
  load_spec (emit_comp c) pspec0 = OK p -> seed p true = OK (lay, g) -> get_constraints p true = DOk e w s -> fits nts e w ->
  exists a recs, process_results p lay nts = OK a /\ output_records p a = OK recs /\
    (NoDup (map fst recs) -> exists f, apply_comp (table_of recs) c = OK f).
Proof. intros COMP LOAD SEED ARR FITS. destruct (compile_comp_inv _ _ _ _ _ _ COMP) as [W [W2 _]].
  destruct (sloaded_design_results_ok (emit_comp c) p lay g nts LOAD SEED e w s ARR FITS) as [a [recs [PR [OR [RA [RB RC]]]]]].
  exists a, recs. split; [exact PR | split; [exact OR|]]. intros ND. apply apply_comp_complete.
  - intros n b Hin NZ. apply (finish_H1 c W p (emit_comp c) LOAD (incl_refl _) recs ND RA n b Hin NZ).
  - intros vals VALS n u Hin. apply (finish_H2 c W W2 p (emit_comp c) LOAD (incl_refl _) lay nts a recs ND RB RC vals VALS n u Hin). Qed.

Theorem compiled_component_end_to_end_struct ctr prefix d body c ctr' :
  compile_comp ctr prefix d body = OK (c, ctr') ->
  (forall n b, In (n, b) (c_bases c) -> valid_template (b_const b) = true) ->
  exists p, load_spec (emit_comp c) pspec0 = OK p /\
    (placed p -> exists g, seed p true = OK (build_layout p true, g) /\
      (get_constraints p true = DOver \/
       exists e w s, get_constraints p true = DOk e w s /\
         forall nts, fits nts e w ->
           exists a recs, process_results p (build_layout p true) nts = OK a /\ output_records p a = OK recs /\
             (NoDup (map fst recs) -> exists f, apply_comp (table_of recs) c = OK f))).
Proof. intros COMP VT. destruct (CrossProofs.compiled_component_designs ctr prefix d body c ctr' COMP VT) as [[p LOAD] _].
  exists p. split; [exact LOAD|]. intros PL.
  destruct (seed_total_struct p (load_spec_LI _ _ p LI_empty LOAD) (load_spec_LB _ _ p LB_empty LOAD) PL) as [g SEED]. exists g. split; [exact SEED|].
  destruct (sloaded_total (emit_comp c) p _ g LOAD SEED) as [O|[e [w [s A]]]]; [left; exact O|]. right. exists e, w, s. split; [exact A|].
  intros nts F. apply (compiled_design_finishes_struct ctr prefix d body c ctr' p _ g e w s nts COMP LOAD SEED A F). Qed.
