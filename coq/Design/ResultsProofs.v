(* C06, designer side: for every designed string that satisfies the constraint arrays,
   process_results succeeds (no sequence is "designed with 2 different sequences"), and the records
   written to the .mfe file are consistent: every strand is, nucleotide by nucleotide, the
   concatenation of the records of its base sequences, reverse complemented where starred, through
   any nesting of super-sequences. *)
From Coq Require Import List String Ascii Arith Bool Lia.
From PC Require Import Base.Codes Base.Tables Comp.Syntax Comp.Compile Comp.EmitProofs Design.Propagate Design.PropagateProofs Design.Designer Design.DesignerProofs
  Design.TemplateProofs Design.Contraction Design.DGraph Design.DenoteGraph Design.DenoteTie Design.DenoteSat Design.Results.
Import ListNotations.
Local Open Scope list_scope.

(* ---- characters and bases ---- *)
Lemma char_base_char b : char_base (base_char b) = Some b. Proof. destruct b; reflexivity. Qed.
Lemma char_base_inv c b : char_base c = Some b -> c = base_char b.
Proof. destruct c as [[] [] [] [] [] [] [] []]; simpl; intros H; try discriminate; inversion H; reflexivity. Qed.
Lemma compl_base_char b : compl_code (base_char b) = Some (base_char (bcompl b)). Proof. destruct b; reflexivity. Qed.
Lemma map_compl_bases bs : map_compl (map base_char bs) = Some (map base_char (map bcompl bs)).
Proof. induction bs as [|b bs IH]; [reflexivity|]. cbn [map map_compl]. rewrite compl_base_char, IH. reflexivity. Qed.
Lemma wc_bases bs : wc_codes (map base_char bs) = Some (map base_char (map bcompl (rev bs))).
Proof. unfold wc_codes. rewrite <- map_rev. apply map_compl_bases. Qed.
Lemma chars_eqb_refl l : chars_eqb l l = true.
Proof. induction l as [|c l IH]; [reflexivity|]. simpl. rewrite Ascii.eqb_refl. exact IH. Qed.
Lemma base_char_inj a b : base_char a = base_char b -> a = b. Proof. destruct a, b; simpl; intros H; try reflexivity; discriminate. Qed.
Lemma map_base_char_inj a : forall b, map base_char a = map base_char b -> a = b.
Proof. induction a as [|x a IH]; intros [|y b] H; simpl in H; try discriminate; [reflexivity|]. inversion H. f_equal; [apply base_char_inj; assumption | apply IH; assumption]. Qed.
Lemma app_par_negb q b : app_par (negb q) b = app_par q (bcompl b). Proof. destruct q; simpl; rewrite ?bcompl_invol; reflexivity. Qed.
Lemma app_par_invol q b : app_par q (app_par q b) = b. Proof. destruct q; simpl; rewrite ?bcompl_invol; reflexivity. Qed.
Lemma app_par_inj q a b : app_par q a = app_par q b -> a = b. Proof. intros H. rewrite <- (app_par_invol q a), H. apply app_par_invol. Qed.
Lemma map_bcompl_rev_invol bs : map bcompl (rev (map bcompl (rev bs))) = bs.
Proof. rewrite <- map_rev, rev_involutive, map_map. rewrite <- (map_id bs) at 2. apply map_ext. intros b. apply bcompl_invol. Qed.

(* ---- strings agreeing with a list of canonical nucleotides under a valuation ---- *)
Section Agree.
Variable cval : dnode -> base -> Prop.
Hypothesis cval_fun : forall c a b, cval c a -> cval c b -> a = b.
Definition R (c : cnt) (b : base) : Prop := cval (fst c) (app_par (snd c) b).
Definition agree (L : list cnt) (v : list ascii) : Prop := exists bs, v = map base_char bs /\ Forall2 R L bs.

Lemma Forall2_len {X Y} (P : X -> Y -> Prop) l l' : Forall2 P l l' -> List.length l = List.length l'.
Proof. intros H. induction H; simpl; congruence. Qed.
Lemma Forall2_fun L : forall bs bs', Forall2 R L bs -> Forall2 R L bs' -> bs = bs'.
Proof. induction L as [|c L IH]; intros bs bs' H H'; inversion H; inversion H'; subst; [reflexivity|].
  f_equal; [|apply IH; assumption]. unfold R in *. apply (app_par_inj (snd c)). eapply cval_fun; eassumption. Qed.
Lemma agree_fun L u v : agree L u -> agree L v -> u = v.
Proof. intros [bs [-> H]] [bs' [-> H']]. f_equal. apply (Forall2_fun L); assumption. Qed.
Lemma agree_length L v : agree L v -> List.length v = List.length L.
Proof. intros [bs [-> H]]. rewrite map_length. symmetry. apply (Forall2_len _ _ _ H). Qed.
Lemma agree_app L1 L2 v : agree (L1 ++ L2) v ->
  agree L1 (firstn (List.length L1) v) /\ agree L2 (skipn (List.length L1) v).
Proof. intros [bs [-> H]]. apply Forall2_app_inv_l in H. destruct H as [b1 [b2 [H1 [H2 ->]]]].
  pose proof (Forall2_len _ _ _ H1) as E. rewrite map_app, E, <- (map_length base_char b1).
  rewrite firstn_app, firstn_all, Nat.sub_diag, skipn_app, skipn_all, Nat.sub_diag. simpl. rewrite app_nil_r.
  split; [exists b1; auto | exists b2; auto]. Qed.
Lemma Forall2_rev {X Y} (P : X -> Y -> Prop) l : forall l', Forall2 P l l' -> Forall2 P (rev l) (rev l').
Proof. induction l as [|x l IH]; intros l' H; inversion H; subst; simpl; [constructor|]. apply Forall2_app; [apply IH; assumption | constructor; [assumption | constructor]]. Qed.
Lemma Forall2_rcl L bs : Forall2 R (rcl L) bs -> Forall2 R L (map bcompl (rev bs)).
Proof. intros H. apply Forall2_rev in H. unfold rcl in H. rewrite <- map_rev, rev_involutive in H.
  remember (rev bs) as rb. clear Heqrb bs. revert rb H. induction L as [|c L IH]; intros rb H; inversion H; subst; simpl; constructor.
  - unfold R in *. unfold flipc in *. simpl in *. rewrite <- app_par_negb. assumption.
  - apply IH. assumption. Qed.
Lemma Forall2_rcl_back L bs : Forall2 R L bs -> Forall2 R (rcl L) (map bcompl (rev bs)).
Proof. intros H. unfold rcl. apply Forall2_rev in H. remember (rev L) as rl. remember (rev bs) as rb. clear Heqrl Heqrb.
  induction H; simpl; constructor; [|assumption]. unfold R, flipc in *. simpl. rewrite app_par_negb, bcompl_invol. assumption. Qed.
(* a string agreeing with the reversed list is the reverse complement of one agreeing with the list *)
Lemma agree_rcl L v : agree (rcl L) v -> exists w, wc_codes v = Some w /\ agree L w /\ wc_codes w = Some v.
Proof. intros [bs [-> H]]. exists (map base_char (map bcompl (rev bs))). split; [apply wc_bases|]. split.
  - exists (map bcompl (rev bs)). split; [reflexivity | apply Forall2_rcl, H].
  - rewrite wc_bases, map_bcompl_rev_invol. reflexivity. Qed.
Lemma agree_rcl_back L w : agree L w -> exists v, wc_codes w = Some v /\ agree (rcl L) v.
Proof. intros [bs [-> H]]. exists (map base_char (map bcompl (rev bs))). split; [apply wc_bases|].
  exists (map bcompl (rev bs)). split; [reflexivity | apply Forall2_rcl_back, H]. Qed.
Lemma agree_wc L v : agree L v -> exists w, wc_codes v = Some w.
Proof. intros [bs [-> _]]. eexists. apply wc_bases. Qed.
End Agree.

(* ---- the setting: a seeded document, its arrays, a designed string that fits them ---- *)
Definition nt_at (nts : list ascii) (i : nat) : option base := match nth_error nts i with Some c => char_base c | None => None end.
(* the designed string satisfies the equality and complement arrays *)
Definition fits (nts : list ascii) (e w : list (option nat)) : Prop := forall i r, nth_error e i = Some (Some r) ->
  exists b, nt_at nts i = Some b /\ nt_at nts r = Some b /\ (forall r', nth_error w i = Some (Some r') -> nt_at nts r' = Some (bcompl b)).

Lemma fold_max_bound npos l : forall a0 k, In k l -> k < npos ->
  k < fold_left (fun a k => if k <? npos then Nat.max a (S k) else a) l a0.
Proof. assert (GE : forall l a, a <= fold_left (fun a k => if k <? npos then Nat.max a (S k) else a) l a).
  { induction l0 as [|y l0 IHl]; intros a; simpl; [lia|]. etransitivity; [|apply IHl]. destruct (y <? npos); lia. }
  induction l as [|x ks IH]; intros a0 k Hk Lk; [destruct Hk|]. simpl. destruct Hk as [->|Hk].
  - replace (k <? npos) with true by (symmetry; apply Nat.ltb_lt; exact Lk). pose proof (GE ks (Nat.max a0 (S k))). lia.
  - apply IH; assumption. Qed.

Section Results.
Variable p : pspec.
Variable lay : layout.
Variable so : bool.
Variable g : cgraph.
Variable nts : list ascii.
Hypothesis SEED : seed p so = OK (lay, g).
Hypothesis WFH : spec_wf p so.
Hypothesis DOK : dgraph_ok p lay so = true.
Hypothesis SAME : same_graph p lay so g = true.
Hypothesis GOK : graph_ok g = true.
Hypothesis PLACE : place_okb p lay so = true.
Variables (e w : list (option nat)) (s : list (option ascii)).
Hypothesis ARR : get_constraints p so = DOk e w s.

Let WF := WFH.
Let npos := l_npos lay.

Hypothesis FITS : fits nts e w.
Local Notation nt_at := (nt_at nts).

(* the arrays are the representatives of an exact closure table *)
Lemma arrays_spec : exists m n,
  (forall x, In x (g_keys g) -> exists E W, get m x = Some (E, W) /\
     (forall z, In z E <-> gconn g x false z) /\ (forall z, In z W <-> gconn g x true z)) /\
  e = map (eq_rep npos m) (seq 0 n) /\ w = map (wc_rep npos m) (seq 0 n) /\
  (forall k, In k (g_keys g) -> k < npos -> k < n).
Proof. destruct (gc_cases g GOK) as [m [PM Hm]]. pose proof ARR as A. unfold get_constraints in A. rewrite SEED, PM in A.
  destruct (templates m (g_keys g) (g_st g) []) as [[st'|] b] eqn:T; [|destruct b; discriminate].
  inversion A; subst e w s. clear A. eexists m, _. split; [exact Hm | split; [reflexivity | split; [reflexivity|]]].
  intros k Hk Lk. apply fold_max_bound; assumption. Qed.

(* connected positions carry related bases *)
Lemma fits_conn x q y : In x (g_keys g) -> In y (g_keys g) -> x < npos -> y < npos -> gconn g x q y ->
  exists b, nt_at x = Some b /\ nt_at y = Some (app_par q b).
Proof. intros Kx Ky Lx Ly C. destruct arrays_spec as [m [n [Hm [Ee [Ew Hn]]]]].
  pose proof (proj1 (graph_ok_spec g GOK)) as GC.
  assert (REP : forall z, In z (g_keys g) -> z < npos -> exists r, eq_rep npos m z = Some r /\ nth_error e z = Some (Some r)).
  { intros z Kz Lz. destruct (Hm z Kz) as [E [W [G [HE HW]]]].
    assert (X : exists r, min_below npos E = Some r).
    { destruct (min_below npos E) as [r|] eqn:M; [eauto|]. exfalso.
      assert (Q : forall l, In z l -> min_below npos l <> None).
      { clear - Lz. fold npos. induction l as [|y l IHl]; intros H; [destruct H|]. simpl. destruct (y <? npos) eqn:Ly.
        - destruct (min_below npos l); discriminate.
        - destruct H as [->|H]; [apply Nat.ltb_ge in Ly; lia | apply IHl, H]. }
      apply (Q E); [apply HE; constructor | exact M]. }
    destruct X as [r Hr]. exists r. assert (ER : eq_rep npos m z = Some r) by (unfold eq_rep; rewrite G; exact Hr).
    split; [exact ER|]. rewrite Ee, nth_error_map. rewrite (nth_error_nth' _ 0) by (rewrite seq_length; apply Hn; assumption).
    rewrite seq_nth by (apply Hn; assumption). simpl. rewrite ER. reflexivity. }
  destruct (REP x Kx Lx) as [rx [Ex Nx]]. destruct (REP y Ky Ly) as [ry [Ey Ny]].
  destruct (FITS x rx Nx) as [b [B1 [B2 B3]]]. destruct (FITS y ry Ny) as [b' [B1' [B2' _]]].
  exists b. split; [exact B1|]. rewrite B1'. f_equal. destruct q; simpl.
  - assert (WR : wc_rep npos m x = Some ry) by (rewrite (wc_rep_is_eq_rep_of_partner g npos m Hm x y Kx Ky C); exact Ey).
    assert (NW : nth_error w x = Some (Some ry)).
    { rewrite Ew, nth_error_map. rewrite (nth_error_nth' _ 0) by (rewrite seq_length; apply Hn; assumption).
      rewrite seq_nth by (apply Hn; assumption). simpl. rewrite WR. reflexivity. }
    specialize (B3 ry NW). congruence.
  - assert (Q : eq_rep npos m x = eq_rep npos m y) by (apply (same_rep_iff_connected g npos m Hm x y Kx Ky Lx Ly); exact C).
    congruence. Qed.

(* ---- the value of a canonical nucleotide: read off any strand position that flattens to it ---- *)
Local Notation tpos n o := (tstart_of lay n + o).
Definition cval (c : dnode) (b : base) : Prop :=
  exists n items l d o par, In (n, (items, l, d)) (p_strands p) /\ o < l /\ kap p so (spos p so n o) = (c, par) /\
                            nt_at (tpos n o) = Some (app_par par b).

Lemma place_spec n items l d o : In (n, (items, l, d)) (p_strands p) -> o < l ->
  afind (l_tstart lay) n <> None /\ enc p lay (spos p so n o) = tpos n o /\ tpos n o < npos.
Proof. intros Hin Ho. unfold place_okb in PLACE. rewrite forallb_forall in PLACE. specialize (PLACE _ Hin). cbn in PLACE.
  apply andb_prop in PLACE. destruct PLACE as [A B]. rewrite forallb_forall in B. specialize (B o ltac:(apply in_seq; lia)).
  apply andb_prop in B. destruct B as [B1 B2]. apply Nat.eqb_eq in B1. apply Nat.ltb_lt in B2.
  split; [|split; assumption]. apply orb_prop in A. destruct A as [A|A]; [apply Nat.eqb_eq in A; lia|].
  destruct (afind (l_tstart lay) n); [discriminate | discriminate]. Qed.

Lemma total_app a b : DGraph.total p (a ++ b) = DGraph.total p a + DGraph.total p b.
Proof. unfold DGraph.total. induction a as [|x a IH]; simpl; [reflexivity | rewrite IH; lia]. Qed.

(* a strand position is a declared node *)
Lemma spos_node n items l d o : In (n, (items, l, d)) (p_strands p) -> o < l -> In (spos p so n o) (nodes p so).
Proof. intros Hin Ho. unfold nodes, d_nodes. rewrite map_app. apply in_or_app. left. unfold pos_nodes, spos.
  destruct (Bool.bool_dec so true) as [SO|SO']; [|assert (SO : so = false) by (destruct so; congruence)]; rewrite SO.
  - destruct (first_inst_in p (p_structs p) n) as [[sn off]|] eqn:FI; [|exfalso; apply (wf_placed p so WF SO n items l d Hin ltac:(lia)); exact FI].
    destruct (first_inst_spec p _ _ _ _ FI) as [names [st [ls [pre [post [A [B ->]]]]]]].
    pose proof (wf_struct_len p so WF SO sn names st ls A) as EL.
    assert (SL : strand_len p n = l).
    { unfold strand_len. destruct (wf_strand p so WF n items l d Hin) as [AF _]. rewrite AF. reflexivity. }
    apply in_map_iff. exists (DInst sn (DGraph.total p pre + o), Nc). split; [reflexivity|]. apply in_flat_map.
    exists (sn, (names, st, ls)). split; [exact A|]. apply in_map_iff. exists (DGraph.total p pre + o). split; [reflexivity|].
    apply in_seq. rewrite EL, B, total_app. change (DGraph.total p (n :: post)) with (strand_len p n + DGraph.total p post). rewrite SL. lia.
  - apply in_map_iff. exists (DPos n o, Nc). split; [reflexivity|]. apply in_flat_map. exists (n, (items, l, d)). split; [exact Hin|].
    apply in_map_iff. exists o. split; [reflexivity | apply in_seq; lia]. Qed.

Lemma cval_fun c a b : cval c a -> cval c b -> a = b.
Proof. intros [n1 [it1 [l1 [d1 [o1 [q1 [H1 [O1 [K1 N1]]]]]]]]] [n2 [it2 [l2 [d2 [o2 [q2 [H2 [O2 [K2 N2]]]]]]]]].
  set (x1 := spos p so n1 o1) in *. set (x2 := spos p so n2 o2) in *.
  pose proof (kap_reach p so WF x1) as R1. pose proof (kap_reach p so WF x2) as R2. unfold reach in R1, R2. rewrite K1 in R1. rewrite K2 in R2. simpl in R1, R2.
  pose proof (pconn_trans dnode _ _ _ _ R1 _ _ (pconn_sym dnode _ _ _ _ R2)) as T.
  assert (T' : pconn dnode (S_links p so ++ R_links p so) x1 (xorb q1 q2) x2).
  { apply (pconn_mono dnode (S_links p so)); [intros l0 Hl; apply in_or_app; left; exact Hl | exact T]. }
  apply (lift_conn p lay so g SAME) in T'.
  destruct (place_spec n1 it1 l1 d1 o1 H1 O1) as [_ [E1 L1]]. destruct (place_spec n2 it2 l2 d2 o2 H2 O2) as [_ [E2 L2]].
  fold x1 in E1. fold x2 in E2. rewrite E1, E2 in T'.
  assert (KN : forall x, In x (nodes p so) -> In (enc p lay x) (g_keys g)).
  { intros x Hx. rewrite (keys_nodes p lay so g SAME GOK). apply in_map. exact Hx. }
  pose proof (KN x1 (spos_node n1 it1 l1 d1 o1 H1 O1)) as Ky1. pose proof (KN x2 (spos_node n2 it2 l2 d2 o2 H2 O2)) as Ky2.
  fold x1 in Ky1. fold x2 in Ky2. rewrite E1 in Ky1. rewrite E2 in Ky2.
  destruct (fits_conn _ _ _ Ky1 Ky2 L1 L2 T') as [b0 [B1 B2]]. rewrite N1 in B1. rewrite N2 in B2. inversion B1; subst b0. inversion B2 as [Q].
  destruct q1, q2, a, b; simpl in Q; congruence. Qed.

Local Notation agree := (agree cval).

(* ---- set_seq: coverage, extension, the invariant ---- *)
Local Notation CT := (ctbl p).
Definition covered (st : rstate) (L : list cnt) : Prop :=
  forall c, In c L -> exists k i n t, fst c = DAux (2 * k) i /\ i < blen p k /\ nth_error (p_bases p) k = Some (n, t) /\ designed st n <> None.
Definition ext (st st' : rstate) : Prop := forall n u, designed st n = Some u -> designed st' n = Some u.
Definition InvA (st : rstate) : Prop := forall n u, designed st n = Some u ->
  (forall k, base_index p n = Some k -> agree (base_c p k) u) /\ (forall j, sup_index p n = Some j -> agree (nth j CT []) u).
Definition InvK (C : nat) (st : rstate) : Prop := forall n u j, designed st n = Some u -> sup_index p n = Some j -> j < C -> covered st (nth j CT []).
Definition untouched (B : nat) (st st' : rstate) : Prop := forall m j, sup_index p m = Some j -> B <= j -> designed st' m = designed st m.

Lemma ext_refl st : ext st st. Proof. intros n u H. exact H. Qed.
Lemma ext_trans a b c : ext a b -> ext b c -> ext a c. Proof. intros H1 H2 n u H. apply H2, H1, H. Qed.
Lemma covered_ext st st' L : ext st st' -> covered st L -> covered st' L.
Proof. intros E H c Hc. destruct (H c Hc) as [k [i [n [t [A [A' [B D]]]]]]]. exists k, i, n, t. split; [exact A | split; [exact A' | split; [exact B|]]].
  destruct (designed st n) as [u|] eqn:Q; [|contradiction]. rewrite (E n u Q). discriminate. Qed.
Lemma covered_app st L1 L2 : covered st (L1 ++ L2) <-> covered st L1 /\ covered st L2.
Proof. unfold covered. split.
  - intros H. split; intros c Hc; apply H, in_or_app; [left | right]; exact Hc.
  - intros [H1 H2] c Hc. apply in_app_or in Hc. destruct Hc; [apply H1 | apply H2]; assumption. Qed.
Lemma covered_rcl st L : covered st (rcl L) <-> covered st L.
Proof. unfold covered, rcl. split; intros H c Hc.
  - assert (Q : In (flipc c) (map flipc (rev L))) by (apply in_map, in_rev; rewrite rev_involutive; exact Hc).
    destruct (H _ Q) as [k [i [n [t [A B]]]]]. exists k, i, n, t. split; [exact A | exact B].
  - apply in_map_iff in Hc. destruct Hc as [c0 [<- Hc0]]. apply in_rev in Hc0. destruct (H _ Hc0) as [k [i [n [t [A B]]]]]. exists k, i, n, t. split; [exact A | exact B]. Qed.
Lemma untouched_refl B st : untouched B st st. Proof. intros m j _ _. reflexivity. Qed.
Lemma untouched_trans B a b c : untouched B a b -> untouched B b c -> untouched B a c.
Proof. intros H1 H2 m j Hm Hj. rewrite (H2 m j Hm Hj). apply (H1 m j Hm Hj). Qed.

Lemma designed_cons st n v m : designed ((n, v) :: st) m = if String.eqb n m then (match v with c :: r => Some (c :: r) | [] => None end) else designed st m.
Proof. unfold designed. simpl. destruct (String.eqb n m); reflexivity. Qed.

(* the self-check or first assignment of one object whose flattening is L *)
Lemma check_or_set_ok (st : rstate) (n : string) (r : bool) (v : list ascii) (L : list cnt) : (forall u, designed st n = Some u -> agree L u) -> agree (if r then rcl L else L) v ->
  exists (fresh : bool) (val : list ascii), check_or_set st n r v = OK ((if fresh then (n, val) :: st else st), fresh) /\ agree L val /\
                    (if fresh then designed st n = None else designed st n <> None).
Proof. intros OL AG. unfold check_or_set. destruct (designed st n) as [u|] eqn:D.
  - specialize (OL u eq_refl). exists false, u. destruct r.
    + destruct (agree_rcl cval L v AG) as [w' [W1 [W2 W3]]]. rewrite (agree_fun cval cval_fun L u w' OL W2), W3, chars_eqb_refl.
      split; [reflexivity | split; [exact W2 | discriminate]].
    + rewrite (agree_fun cval cval_fun L u v OL AG), chars_eqb_refl. split; [reflexivity | split; [exact AG | discriminate]].
  - destruct r.
    + destruct (agree_rcl cval L v AG) as [w' [W1 [W2 W3]]]. rewrite W1. exists true, w'. auto.
    + destruct (agree_wc cval L v AG) as [w' W1]. rewrite W1. exists true, v. auto. Qed.

Lemma go_eq f its : forall v st,
  (fix go (its : list sref) (v : list ascii) (s : rstate) : res rstate :=
     match its with
     | [] => OK s
     | x :: rest => let lx := sref_len p x in do s' <- set_ref f p s x (firstn lx v); go rest (skipn lx v) s'
     end) its v st = set_items f p its v st.
Proof. induction its as [|x its IH]; intros v st; [reflexivity|]. cbn [set_items]. unfold bind. destruct (set_ref f p st x _); [apply IH | reflexivity]. Qed.

Lemma ref_c_flip it : ref_c p CT (flip_ref it) = rcl (ref_c p CT it).
Proof. destruct it as [n r|n r]; simpl.
  - destruct (base_index p n); [|reflexivity]. destruct r; simpl; [|reflexivity]. unfold rcl. rewrite <- map_rev, rev_involutive, map_map.
    rewrite <- (map_id (base_c p n0)) at 1. apply map_ext. intros [c q]. unfold flipc. simpl. rewrite negb_involutive. reflexivity.
  - destruct (sup_index p n); [|reflexivity]. destruct r; simpl; [|reflexivity]. unfold rcl. rewrite <- map_rev, rev_involutive, map_map.
    rewrite <- (map_id (nth n0 CT [])) at 1. apply map_ext. intros [c q]. unfold flipc. simpl. rewrite negb_involutive. reflexivity. Qed.
Lemma rcl_app a b : rcl (a ++ b) = rcl b ++ rcl a.
Proof. unfold rcl. rewrite rev_app_distr, map_app. reflexivity. Qed.
Lemma flat_view r items : flat_map (ref_c p CT) (view r items) = if r then rcl (flat_map (ref_c p CT) items) else flat_map (ref_c p CT) items.
Proof. destruct r; [|reflexivity]. unfold view. induction items as [|it items IH]; [reflexivity|]. simpl.
  rewrite map_app, flat_map_app, IH, rcl_app. simpl. rewrite app_nil_r, ref_c_flip. reflexivity. Qed.
Lemma item_ok_flip B it : item_ok p B it -> item_ok p B (flip_ref it).
Proof. destruct it; simpl; auto. Qed.
Lemma sref_len_flip it : sref_len p (flip_ref it) = sref_len p it. Proof. destruct it; reflexivity. Qed.

Definition post (B C : nat) (L : list cnt) (st st' : rstate) : Prop :=
  InvA st' /\ InvK C st' /\ ext st st' /\ covered st' L /\ untouched B st st'.

(* the items of an object, given the statement for single references at this fuel *)
Lemma set_items_ok f B C :
  (forall it st v, item_ok p B it -> InvA st -> InvK C st -> agree (ref_c p CT it) v ->
     exists st', set_ref f p st it v = OK st' /\ post B C (ref_c p CT it) st st') ->
  forall its st v, (forall it, In it its -> item_ok p B it) -> InvA st -> InvK C st -> agree (flat_map (ref_c p CT) its) v ->
  exists st', set_items f p its v st = OK st' /\ post B C (flat_map (ref_c p CT) its) st st'.
Proof. intros ONE. induction its as [|it its IH]; intros st v OK IA IK AG.
  - exists st. split; [reflexivity|]. split; [exact IA | split; [exact IK | split; [apply ext_refl | split; [intros c [] | apply untouched_refl]]]].
  - simpl in AG. apply (agree_app cval) in AG. destruct AG as [AG1 AG2].
    rewrite (ref_c_length p so WF B it (OK it (or_introl eq_refl))) in AG1, AG2.
    destruct (ONE it st _ (OK it (or_introl eq_refl)) IA IK AG1) as [st1 [E1 [IA1 [IK1 [X1 [C1 U1]]]]]].
    destruct (IH st1 _ (fun x Hx => OK x (or_intror Hx)) IA1 IK1 AG2) as [st2 [E2 [IA2 [IK2 [X2 [C2 U2]]]]]].
    exists st2. cbn [set_items]. rewrite E1. cbn [bind]. split; [exact E2|].
    split; [exact IA2 | split; [exact IK2 | split; [apply (ext_trans _ _ _ X1 X2) | split; [|apply (untouched_trans _ _ _ _ U1 U2)]]]].
    simpl. apply covered_app. split; [apply (covered_ext _ _ _ X2 C1) | exact C2]. Qed.

Lemma sup_index_inj m n j : sup_index p m = Some j -> sup_index p n = Some j -> m = n.
Proof. unfold sup_index. intros A B. destruct (index_of_spec (p_sups p) m 0 j A) as [v1 [_ [N1 _]]]. destruct (index_of_spec (p_sups p) n 0 j B) as [v2 [_ [N2 _]]].
  rewrite N1 in N2. inversion N2. reflexivity. Qed.
Lemma eqb_neq_false a b : a <> b -> String.eqb a b = false.
Proof. intros H. destruct (String.eqb a b) eqn:E; [apply String.eqb_eq in E; contradiction | reflexivity]. Qed.

(* adding a first value for a name keeps the invariants *)
Lemma fresh_ext st n val : designed st n = None -> ext st ((n, val) :: st).
Proof. intros D m u H. rewrite designed_cons. destruct (String.eqb n m) eqn:E; [apply String.eqb_eq in E; subst; congruence | exact H]. Qed.

Lemma set_ref_ok : forall f B C it st v, S B <= f -> B <= C -> item_ok p B it -> InvA st -> InvK C st -> agree (ref_c p CT it) v ->
  exists st', set_ref f p st it v = OK st' /\ post B C (ref_c p CT it) st st'.
Proof. induction f as [|f IH]; intros B C it st v LF LC OKit IA IK AG; [lia|].
  destruct it as [n r|n r].
  - (* a base sequence *)
    destruct OKit as [k [t [E1 [E2 E3]]]]. cbn [ref_c] in *. rewrite E1 in *.
    assert (NS : sup_index p n = None) by (apply (wf_disjoint p so WF); rewrite E1; discriminate).
    destruct (check_or_set_ok st n r v (base_c p k)) as [fresh [val [CS [AV FR]]]].
    { intros u D. apply (proj1 (IA n u D) k E1). }
    { destruct r; exact AG. }
    cbn [set_ref]. rewrite CS. cbn [bind fst]. eexists. split; [reflexivity|].
    assert (COV : forall st', designed st' n <> None -> covered st' (if r then rcl (base_c p k) else base_c p k)).
    { intros st' D. assert (Q : covered st' (base_c p k)).
      { intros c Hc. unfold base_c in Hc. apply in_map_iff in Hc. destruct Hc as [i [<- Hi]]. apply in_seq in Hi. exists k, i, n, t. split; [reflexivity | split; [lia | auto]]. }
      destruct r; [apply covered_rcl|]; exact Q. }
    destruct fresh.
    + assert (X : ext st ((n, val) :: st)) by (apply fresh_ext, FR).
      split; [|split; [|split; [exact X | split]]].
      * intros m u D. rewrite designed_cons in D. destruct (String.eqb n m) eqn:E.
        -- apply String.eqb_eq in E. subst m. destruct val as [|c0 val0]; [discriminate|]. inversion D; subst u. split.
           ++ intros k' Hk'. rewrite E1 in Hk'. inversion Hk'; subst k'. exact AV.
           ++ intros j Hj. congruence.
        -- apply (IA m u D).
      * intros m u j D Hj Lj. rewrite designed_cons in D. destruct (String.eqb n m) eqn:E; [apply String.eqb_eq in E; subst m; congruence|].
        apply (covered_ext _ _ _ X). apply (IK m u j D Hj Lj).
      * destruct val as [|c0 val0].
        -- pose proof (agree_length cval _ _ AV) as LL. rewrite base_c_length in LL. simpl in LL.
           assert (Q : base_c p k = []) by (unfold base_c; rewrite <- LL; reflexivity). rewrite Q. destruct r; intros c [].
        -- apply COV. rewrite designed_cons, String.eqb_refl. discriminate.
      * intros m j Hj _. rewrite designed_cons. rewrite eqb_neq_false; [reflexivity | intros ->; congruence].
    + split; [exact IA | split; [exact IK | split; [apply ext_refl | split; [apply COV, FR | apply untouched_refl]]]].
  - (* a super-sequence *)
    destruct OKit as [j [items [l [E1 [Lt [E2 E3]]]]]]. cbn [ref_c] in *. rewrite E1 in *.
    assert (NB0 : base_index p n = None).
    { destruct (base_index p n) eqn:Q; [|reflexivity]. pose proof (wf_disjoint p so WF n ltac:(rewrite Q; discriminate)). congruence. }
    pose proof (sup_c_length p so WF j n items l E2) as CL.
    assert (LV : List.length v = l).
    { rewrite (agree_length cval _ _ AG). destruct r; [rewrite rcl_length|]; exact CL. }
    destruct (wf_sup p so WF j n items l E2) as [OKI _].
    assert (FL : nth j CT [] = flat_map (ref_c p CT) items).
    { rewrite (ctbl_nth p j n items l E2). apply (flat_ref_prefix p j items OKI). rewrite ctbl_length.
      assert (j < List.length (p_sups p)) by (apply nth_error_Some; rewrite E2; discriminate). lia. }
    destruct (check_or_set_ok st n r v (nth j CT [])) as [fresh [val [CS [AV FR]]]].
    { intros u D. apply (proj2 (IA n u D) j E1). }
    { destruct r; exact AG. }
    cbn [set_ref]. rewrite E3. replace (negb (List.length v =? l)) with false by (symmetry; apply negb_false_iff, Nat.eqb_eq, LV).
    rewrite CS. cbn [bind fst snd]. destruct fresh.
    + rewrite go_eq. set (st1 := (n, val) :: st).
      assert (X1 : ext st st1) by (apply fresh_ext, FR).
      assert (IA1 : InvA st1).
      { intros m u D. unfold st1 in D. rewrite designed_cons in D. destruct (String.eqb n m) eqn:E.
        - apply String.eqb_eq in E. subst m. destruct val as [|c0 val0]; [discriminate|]. inversion D; subst u. split.
          + intros k Hk. congruence.
          + intros j' Hj'. rewrite E1 in Hj'. inversion Hj'; subst j'. exact AV.
        - apply (IA m u D). }
      assert (IK1 : InvK j st1).
      { intros m u j' D Hj' Lj'. unfold st1 in D. rewrite designed_cons in D. destruct (String.eqb n m) eqn:E.
        - apply String.eqb_eq in E. subst m. rewrite E1 in Hj'. inversion Hj'. lia.
        - apply (covered_ext _ _ _ X1). apply (IK m u j' D Hj' ltac:(lia)). }
      assert (OKV : forall it, In it (view r items) -> item_ok p j it).
      { intros it Hit. unfold view in Hit. destruct r; [|apply OKI, Hit]. apply in_map_iff in Hit. destruct Hit as [it0 [<- H0]].
        apply item_ok_flip, OKI. apply in_rev. exact H0. }
      assert (AGV : agree (flat_map (ref_c p CT) (view r items)) v).
      { rewrite flat_view, <- FL. exact AG. }
      destruct (set_items_ok f j j (fun it0 st0 v0 => IH j j it0 st0 v0 ltac:(lia) ltac:(lia)) (view r items) st1 v OKV IA1 IK1 AGV)
        as [st2 [ES [IA2 [IK2 [X2 [C2 U2]]]]]].
      exists st2. split; [exact ES|].
      assert (CJ : covered st2 (nth j CT [])).
      { rewrite flat_view, <- FL in C2. destruct r; [apply covered_rcl|]; exact C2. }
      assert (DN : forall m j', sup_index p m = Some j' -> j' <> j -> designed st1 m = designed st m).
      { intros m j' Hm NE. unfold st1. rewrite designed_cons. rewrite eqb_neq_false; [reflexivity|]. intros ->. congruence. }
      split; [exact IA2 | split; [|split; [apply (ext_trans _ _ _ X1 X2) | split]]].
      * intros m u j' D Hj' Lj'. destruct (Nat.lt_trichotomy j' j) as [Q|[Q|Q]].
        -- apply (IK2 m u j' D Hj' Q).
        -- subst j'. exact CJ.
        -- rewrite (U2 m j' Hj' ltac:(lia)), (DN m j' Hj' ltac:(lia)) in D. apply (covered_ext _ _ _ (ext_trans _ _ _ X1 X2)). apply (IK m u j' D Hj' Lj').
      * destruct r; [apply covered_rcl|]; exact CJ.
      * intros m j' Hj' Lj'. rewrite (U2 m j' Hj' ltac:(lia)). apply (DN m j' Hj'). lia.
    + exists st. split; [reflexivity|]. split; [exact IA | split; [exact IK | split; [apply ext_refl | split; [|apply untouched_refl]]]].
      destruct (designed st n) as [u|] eqn:D; [|contradiction].
      pose proof (IK n u j D E1 ltac:(lia)) as Q. destruct r; [apply covered_rcl|]; exact Q. Qed.


(* ---- the strands: what process_results reads and hands down ---- *)
Lemma read_positions_spec : forall l (f : nat -> ascii) s0, (forall o, o < l -> nth_error nts (s0 + o) = Some (f o)) ->
  read_positions nts s0 l = OK (map f (seq 0 l)).
Proof. induction l as [|l IH]; intros f s0 H; [reflexivity|]. cbn [read_positions seq map].
  pose proof (H 0 ltac:(lia)) as H0. rewrite Nat.add_0_r in H0. rewrite H0.
  rewrite (IH (fun o => f (S o)) (S s0)).
  - cbn [bind]. rewrite <- seq_shift, map_map. reflexivity.
  - intros o Ho. replace (S s0 + o) with (s0 + S o) by lia. apply H. lia. Qed.
Lemma Forall2_nth {X Y} (P : X -> Y -> Prop) dx dy : forall (l : list X) (l' : list Y), List.length l = List.length l' ->
  (forall o, o < List.length l -> P (nth o l dx) (nth o l' dy)) -> Forall2 P l l'.
Proof. induction l as [|x l IH]; intros [|y l'] E H; simpl in E; try discriminate; constructor.
  - apply (H 0). simpl. lia.
  - apply IH; [congruence|]. intros o Ho. apply (H (S o)). simpl. lia. Qed.

Lemma position_base n items l d o : In (n, (items, l, d)) (p_strands p) -> o < l -> exists b, nt_at (tpos n o) = Some b.
Proof. intros Hin Ho. destruct (place_spec n items l d o Hin Ho) as [_ [E L]].
  assert (K : In (tpos n o) (g_keys g)).
  { rewrite <- E, (keys_nodes p lay so g SAME GOK). apply in_map. apply (spos_node n items l d o Hin Ho). }
  destruct (fits_conn _ false _ K K L L ltac:(constructor)) as [b [B _]]. eauto. Qed.

Lemma strand_agree n items l d : In (n, (items, l, d)) (p_strands p) ->
  exists v, read_positions nts (tstart_of lay n) l = OK v /\ agree (flat_map (ref_c p CT) items) v.
Proof. intros Hin. destruct (wf_strand p so WF n items l d Hin) as [AF [OKI EL]].
  set (bs := map (fun o => match nt_at (tpos n o) with Some b => b | None => bA end) (seq 0 l)).
  exists (map base_char bs). split.
  - unfold bs. rewrite map_map. apply (read_positions_spec l). intros o Ho. destruct (position_base n items l d o Hin Ho) as [b B].
    rewrite B. unfold Results.nt_at, ResultsProofs.nt_at in B. destruct (nth_error nts (tpos n o)) as [c|]; [|discriminate].
    rewrite (char_base_inv c b B). reflexivity.
  - exists bs. split; [reflexivity|].
    assert (LL : List.length (flat_map (ref_c p CT) items) = l) by (rewrite (flat_ref_length p so WF _ items OKI); symmetry; exact EL).
    apply (Forall2_nth _ (DAux 0 0, false) bA); [unfold bs; rewrite map_length, seq_length; exact LL|].
    intros o Ho0. assert (Ho : o < l) by (rewrite <- LL; exact Ho0). unfold bs. rewrite (nth_indep _ bA ((fun o => match nt_at (tpos n o) with Some b => b | None => bA end) 0)) by (rewrite map_length, seq_length; exact Ho).
    rewrite (map_nth (fun o => match nt_at (tpos n o) with Some b => b | None => bA end)), seq_nth by exact Ho. cbn [Nat.add].
    destruct (position_base n items l d o Hin Ho) as [b B]. rewrite B.
    pose proof (kap_spos p so WF n items l d o (DAux 0 0, false) Hin Ho) as KS.
    destruct (kap p so (spos p so n o)) as [c par] eqn:KE. unfold R.
    match goal with |- cval (fst ?x) _ => replace x with (c, par) by exact KS end. cbn [fst snd].
    exists n, items, l, d, o, par. split; [exact Hin | split; [exact Ho | split; [exact KE|]]]. rewrite app_par_invol. exact B. Qed.

Let NS := List.length (p_sups p).
Definition Pst (a : results) : Prop :=
  InvA (r_state a) /\ InvK NS (r_state a) /\
  (forall m v, afind (r_strands a) m = Some v -> read_positions nts (tstart_of lay m) (strand_len p m) = OK v).
Definition Qst (a : results) (n : string) (items : list sref) (l : nat) : Prop :=
  exists v, afind (r_strands a) n = Some v /\ read_positions nts (tstart_of lay n) l = OK v /\
            agree (flat_map (ref_c p CT) items) v /\ covered (r_state a) (flat_map (ref_c p CT) items).

Lemma afind_app_some {V} (a b : list (string * V)) k v : afind a k = Some v -> afind (a ++ b) k = Some v.
Proof. induction a as [|[k0 v0] a IH]; simpl; [discriminate|]. destruct (String.eqb k0 k); [auto | exact IH]. Qed.
Lemma afind_app_none {V} (a b : list (string * V)) k : afind a k = None -> afind (a ++ b) k = afind b k.
Proof. induction a as [|[k0 v0] a IH]; simpl; [reflexivity|]. destruct (String.eqb k0 k); [discriminate | exact IH]. Qed.

Definition pr_step (acc : res results) (x : string * (list sref * nat * bool)) : res results :=
  let '(n, (items, l, _)) := x in
  do a <- acc;
  do s0 <- match afind (l_tstart lay) n with
           | Some s0 => OK s0
           | None => if Nat.eqb l 0 then OK 0 else Err "strand-not-placed" end;
  do v <- read_positions nts s0 l;
  match wc_codes v with
  | None => Err "keyerror"
  | Some _ => do s' <- set_items (S (List.length (p_sups p))) p items v (r_state a);
              OK {| r_state := s'; r_strands := r_strands a ++ [(n, v)] |}
  end.
Lemma process_results_fold : process_results p lay nts = fold_left pr_step (p_strands p) (OK {| r_state := []; r_strands := [] |}).
Proof. unfold process_results. apply (f_equal (fun f => fold_left f (p_strands p) _)). reflexivity. Qed.

Lemma strands_fold : forall ss a, (forall x, In x ss -> In x (p_strands p)) -> Pst a ->
  exists a', fold_left pr_step ss (OK a) = OK a' /\ Pst a' /\ ext (r_state a) (r_state a') /\
             (forall m v, afind (r_strands a) m = Some v -> afind (r_strands a') m = Some v) /\
             (forall n items l d, In (n, (items, l, d)) ss -> Qst a' n items l).
Proof. induction ss as [|[n [[items l] d]] ss IH]; intros a INC [IA [IK RD]].
  - exists a. split; [reflexivity|]. split; [split; [exact IA | split; [exact IK | exact RD]]|]. split; [apply ext_refl|]. split; [auto|]. intros ? ? ? ? [].
  - assert (Hin : In (n, (items, l, d)) (p_strands p)) by (apply INC; left; reflexivity).
    destruct (wf_strand p so WF n items l d Hin) as [AF [OKI EL]].
    destruct (strand_agree n items l d Hin) as [v [RV AG]].
    assert (TS : exists s0, match afind (l_tstart lay) n with Some s0 => OK s0 | None => if Nat.eqb l 0 then OK 0 else Err "strand-not-placed" end = OK s0 /\
                            read_positions nts s0 l = OK v).
    { unfold tstart_of in RV. destruct (afind (l_tstart lay) n) as [s0|] eqn:T; [exists s0; auto|].
      destruct l as [|l']; [exists 0; auto|]. destruct (place_spec n items (S l') d 0 Hin ltac:(lia)) as [NN _]. contradiction. }
    destruct TS as [s0 [T1 T2]].
    destruct (agree_wc cval _ _ AG) as [wv WV].
    destruct (set_items_ok (S NS) NS NS (fun it0 st0 v0 => set_ref_ok (S NS) NS NS it0 st0 v0 ltac:(lia) ltac:(lia)) items (r_state a) v OKI IA IK AG)
      as [st' [ES [IA' [IK' [X' [C' U']]]]]].
    set (a1 := {| r_state := st'; r_strands := r_strands a ++ [(n, v)] |}).
    assert (SL : strand_len p n = l) by (unfold strand_len; rewrite AF; reflexivity).
    assert (P1 : Pst a1).
    { split; [exact IA' | split; [exact IK'|]]. intros m u Hm. unfold a1 in Hm. cbn [r_strands] in Hm.
      destruct (afind (r_strands a) m) as [u0|] eqn:Q.
      - rewrite (afind_app_some _ [(n, v)] m u0 Q) in Hm. inversion Hm; subst. apply RD, Q.
      - rewrite (afind_app_none _ [(n, v)] m Q) in Hm. simpl in Hm. destruct (String.eqb n m) eqn:E; [|discriminate].
        apply String.eqb_eq in E. subst m. inversion Hm; subst u. rewrite SL. exact RV. }
    destruct (IH a1 (fun x Hx => INC x (or_intror Hx)) P1) as [a' [EF [P' [X2 [AP QQ]]]]].
    exists a'. split.
    + cbn [fold_left]. unfold pr_step at 2. cbn [bind]. rewrite T1. cbn [bind]. rewrite T2. cbn [bind]. rewrite WV. fold NS. rewrite ES. cbn [bind]. exact EF.
    + split; [exact P'|]. split; [apply (ext_trans _ _ _ X' X2)|]. split.
      * intros m u Hm. apply AP. unfold a1. cbn [r_strands]. apply afind_app_some, Hm.
      * intros n0 items0 l0 d0 [H0|H0]; [|apply (QQ n0 items0 l0 d0 H0)]. inversion H0; subst n0 items0 l0 d0.
        destruct P' as [_ [_ RD']].
        assert (F1 : exists v1, afind (r_strands a1) n = Some v1).
        { unfold a1. cbn [r_strands]. destruct (afind (r_strands a) n) as [u0|] eqn:Q; [exists u0; apply afind_app_some, Q|].
          exists v. rewrite (afind_app_none _ _ _ Q). simpl. rewrite String.eqb_refl. reflexivity. }
        destruct F1 as [v1 F1]. pose proof (AP n v1 F1) as F2. pose proof (RD' n v1 F2) as R2. rewrite SL, RV in R2. inversion R2; subst v1.
        exists v. split; [exact F2 | split; [exact RV | split; [exact AG | apply (covered_ext _ _ _ X2 C')]]]. Qed.

Theorem process_results_ok : exists a, process_results p lay nts = OK a /\ InvA (r_state a) /\ InvK NS (r_state a) /\
  forall n items l d, In (n, (items, l, d)) (p_strands p) -> Qst a n items l.
Proof. rewrite process_results_fold.
  destruct (strands_fold (p_strands p) {| r_state := []; r_strands := [] |} (fun x H => H)) as [a [E [[IA [IK _]] [_ [_ Q]]]]].
  { split; [intros n u D; discriminate | split; [intros n u j D; discriminate | intros m v D; discriminate]]. }
  exists a. auto. Qed.

(* ---- the records ---- *)
Definition codes (v : list ascii) : Prop := Forall (fun c => compl_code c <> None) v.
Lemma compl_twice c c' : compl_code c = Some c' -> compl_code c' <> None.
Proof. destruct c as [[] [] [] [] [] [] [] []]; vm_compute; intros H; try discriminate; inversion H; discriminate. Qed.
Lemma map_compl_codes v : codes v -> exists wv, map_compl v = Some wv /\ codes wv /\ List.length wv = List.length v.
Proof. induction v as [|c v IH]; intros H; [exists []; repeat split; constructor|]. inversion H as [|? ? Hc Hv]; subst.
  destruct (IH Hv) as [wv [E [Cw L]]]. destruct (compl_code c) as [c'|] eqn:Q; [|contradiction].
  exists (c' :: wv). simpl. rewrite Q, E. split; [reflexivity | split; [constructor; [apply (compl_twice c c' Q) | exact Cw] | simpl; congruence]]. Qed.
Lemma codes_rev v : codes v -> codes (rev v). Proof. unfold codes. intros H. apply Forall_rev, H. Qed.
Lemma wc_codes_codes v : codes v -> exists wv, wc_codes v = Some wv /\ codes wv /\ List.length wv = List.length v.
Proof. intros H. destruct (map_compl_codes (rev v) (codes_rev v H)) as [wv [E [C L]]]. exists wv. rewrite rev_length in L. auto. Qed.
Lemma codes_bases bs : codes (map base_char bs).
Proof. unfold codes. apply Forall_forall. intros c Hc. apply in_map_iff in Hc. destruct Hc as [b [<- _]]. rewrite compl_base_char. discriminate. Qed.
Lemma agree_codes L v : agree L v -> codes v. Proof. intros [bs [-> _]]. apply codes_bases. Qed.
Lemma codes_app a b : codes a -> codes b -> codes (a ++ b). Proof. unfold codes. intros A B. apply Forall_app. auto. Qed.

(* templates are codes: they are the initial codes of declared nodes *)
Lemma template_codes k n t : nth_error (p_bases p) k = Some (n, t) -> codes t.
Proof. intros Hk. unfold codes. apply Forall_forall. intros c Hc. apply In_nth_error in Hc. destruct Hc as [i Hi].
  assert (Hin : In (DAux (2 * k) i, c) (d_nodes p so)).
  { unfold d_nodes. rewrite !in_app_iff. right. left. apply (base_nodes_has (p_bases p) 0 k n t i c Hk Hi). }
  pose proof (node_template p lay so g DOK SAME GOK _ _ Hin) as T.
  destruct (graph_ok_spec g GOK) as [_ [_ V0]].
  assert (K : In (enc p lay (DAux (2 * k) i)) (g_keys g)).
  { rewrite (keys_nodes p lay so g SAME GOK). apply in_map. unfold nodes. apply in_map_iff. exists (DAux (2 * k) i, c). auto. }
  specialize (V0 _ K). rewrite T in V0. destruct (group c) as [S0|] eqn:G; [|contradiction].
  destruct (compl_sound c S0 G) as [c' [Q _]]. rewrite Q. discriminate. Qed.

Fixpoint get_items (fuel : nat) (st : rstate) (its : list sref) : res (list ascii) :=
  match its with
  | [] => OK []
  | x :: rest => do a <- get_val fuel p st x; do b <- get_items fuel st rest; OK (a ++ b)
  end.
Lemma get_go_eq f st its :
  (fix go (its : list sref) : res (list ascii) :=
     match its with
     | [] => OK []
     | x :: rest => do a <- get_val f p st x; do b <- go rest; OK (a ++ b)
     end) its = get_items f st its.
Proof. induction its as [|x its IH]; [reflexivity|]. cbn [get_items]. rewrite IH. reflexivity. Qed.

Lemma get_val_ok st : InvA st -> forall f B it, S B <= f -> item_ok p B it -> exists v, get_val f p st it = OK v /\ codes v.
Proof. intros IA. induction f as [|f IH]; intros B it LF OKit; [lia|].
  assert (OR : forall (r : bool) (u : list ascii), codes u -> exists v : list ascii, (if r then match wc_codes u with Some w0 => OK w0 | None => Err "keyerror" end else OK u) = OK v /\ codes v).
  { intros r u Cu. destruct r; [|eauto]. destruct (wc_codes_codes u Cu) as [w0 [E [C _]]]. rewrite E. eauto. }
  destruct it as [n r|n r]; cbn [get_val].
  - destruct OKit as [k [t [E1 [E2 E3]]]]. destruct (designed st n) as [u|] eqn:D.
    + apply OR. apply (agree_codes (base_c p k)). apply (proj1 (IA n u D) k E1).
    + rewrite E3. apply OR. apply (template_codes k n t E2).
  - destruct OKit as [j [items [l [E1 [Lt [E2 E3]]]]]]. destruct (designed st n) as [u|] eqn:D.
    + apply OR. apply (agree_codes (nth j CT [])). apply (proj2 (IA n u D) j E1).
    + rewrite E3, get_go_eq. destruct (wf_sup p so WF j n items l E2) as [OKI _].
      assert (OKV : forall it, In it (view r items) -> item_ok p j it).
      { intros it Hit. unfold view in Hit. destruct r; [|apply OKI, Hit]. apply in_map_iff in Hit. destruct Hit as [it0 [<- H0]].
        apply item_ok_flip, OKI. apply in_rev. exact H0. }
      clear - IH OKV LF Lt. induction (view r items) as [|x its IHl]; [exists []; split; [reflexivity | constructor]|].
      destruct (IH j x ltac:(lia) (OKV x (or_introl eq_refl))) as [a [Ea Ca]]. destruct (IHl (fun y Hy => OKV y (or_intror Hy))) as [b [Eb Cb]].
      exists (a ++ b). cbn [get_items]. rewrite Ea, Eb. split; [reflexivity | apply codes_app; assumption]. Qed.

(* the records written after the strands have been processed *)
Section Out.
Variable a : results.
Hypothesis IAa : InvA (r_state a).
Let fuel := S (S (List.length (p_sups p))).
Definition one_rec (it : sref) (n : string) (acc : res (list (string * list ascii))) : res (list (string * list ascii)) :=
  do l <- acc; do v <- get_val fuel p (r_state a) it;
  match wc_codes v with Some w0 => OK (l ++ [(n, v); ((n ++ "*")%string, w0)]) | None => Err "keyerror" end.

Lemma one_fold {X} (mk : X -> sref) (nm : X -> string) (xs : list X) : forall l0,
  (forall x, In x xs -> exists v, get_val fuel p (r_state a) (mk x) = OK v /\ codes v) ->
  exists l1, fold_left (fun acc x => one_rec (mk x) (nm x) acc) xs (OK l0) = OK l1 /\ (forall e0, In e0 l0 -> In e0 l1) /\
    forall x, In x xs -> exists v w0, get_val fuel p (r_state a) (mk x) = OK v /\ wc_codes v = Some w0 /\ In (nm x, v) l1 /\ In ((nm x ++ "*")%string, w0) l1.
Proof. induction xs as [|x xs IH]; intros l0 H.
  - exists l0. split; [reflexivity | split; [auto | intros ? []]].
  - destruct (H x (or_introl eq_refl)) as [v [Ev Cv]]. destruct (wc_codes_codes v Cv) as [w0 [Ew _]].
    destruct (IH (l0 ++ [(nm x, v); ((nm x ++ "*")%string, w0)]) (fun y Hy => H y (or_intror Hy))) as [l1 [EF [INC REST]]].
    exists l1. split; [cbn [fold_left]; unfold one_rec at 2; cbn [bind]; rewrite Ev; cbn [bind]; rewrite Ew; exact EF|].
    split; [intros e0 He; apply INC, in_or_app; left; exact He|]. intros y [<-|Hy]; [|apply REST, Hy].
    exists v, w0. split; [exact Ev | split; [exact Ew | split; apply INC, in_or_app; right; [left | right; left]; reflexivity]]. Qed.
End Out.

Lemma fold_left_ext {X Y} (f h : X -> Y -> X) l : (forall x y, f x y = h x y) -> forall x0, fold_left f l x0 = fold_left h l x0.
Proof. intros E. induction l as [|y l IH]; intros x0; [reflexivity|]. simpl. rewrite E. apply IH. Qed.
Lemma Forall2_nth_inv {X Y} (P : X -> Y -> Prop) dx dy (l : list X) (l' : list Y) : Forall2 P l l' ->
  forall o, o < List.length l -> P (nth o l dx) (nth o l' dy).
Proof. intros H. induction H as [|x y l l' Hxy H IH]; intros o Ho; [simpl in Ho; lia|]. destruct o as [|o]; [exact Hxy|]. apply IH. simpl in Ho. lia. Qed.

Lemma base_item_ok k n t : nth_error (p_bases p) k = Some (n, t) -> forall r, item_ok p 0 (SB n r).
Proof. intros Hk r. pose proof (wf_base_idx p so WF k n t Hk) as BI. exists k, t. split; [exact BI | split; [exact Hk|]].
  unfold base_index in BI. destruct (index_of_spec (p_bases p) n 0 k BI) as [t' [_ [N A]]]. rewrite Nat.sub_0_r, Hk in N. inversion N; subst t'. exact A. Qed.
Lemma sup_item_ok j n items l : nth_error (p_sups p) j = Some (n, (items, l)) -> forall r, item_ok p (S j) (SS n r).
Proof. intros Hj r. pose proof (wf_sup_idx p so WF j n items l Hj) as SI. exists j, items, l. split; [exact SI | split; [lia | split; [exact Hj|]]].
  unfold sup_index in SI. destruct (index_of_spec (p_sups p) n 0 j SI) as [v' [_ [N A]]]. rewrite Nat.sub_0_r, Hj in N. inversion N; subst v'. exact A. Qed.
Lemma item_ok_le B1 B2 it : B1 <= B2 -> item_ok p B1 it -> item_ok p B2 it.
Proof. intros L. apply item_ok_mono. exact L. Qed.

(* C06, designer side: the designed string flows into consistent records *)
Theorem design_results_ok_wf : exists a recs, process_results p lay nts = OK a /\ output_records p a = OK recs /\
  (* every sequence and its complement have records of the declared length, reverse complements of one another *)
  (forall k n t, nth_error (p_bases p) k = Some (n, t) -> exists v wv, In (n, v) recs /\ In ((n ++ "*")%string, wv) recs /\
       wc_codes v = Some wv /\ List.length v = List.length t) /\
  (* every strand is what was read at its positions, and nucleotide by nucleotide the record of the base sequence it flattens to *)
  (forall n items l d, In (n, (items, l, d)) (p_strands p) -> exists vs, afind (r_strands a) n = Some vs /\
       read_positions nts (tstart_of lay n) l = OK vs /\
       forall o c par, o < l -> nth o (flat_map (ref_c p CT) items) (DAux 0 0, false) = (c, par) ->
         exists k i bn t v b, c = DAux (2 * k) i /\ nth_error (p_bases p) k = Some (bn, t) /\ In (bn, v) recs /\
                              nth_error v i = Some (base_char b) /\ nth_error vs o = Some (base_char (app_par par b))) /\
  (* every structure's record joins its strands *)
  (forall sn names sy len, In (sn, (names, sy, len)) (p_structs p) ->
       In (sn, join_plus (map (fun n => match afind (r_strands a) n with Some v => v | None => [] end) names)) recs).
Proof. destruct process_results_ok as [a [EP [IA [IK Q]]]]. exists a.
  set (structs := map (fun '(sn, (names, _, _)) => (sn, join_plus (map (fun n => match afind (r_strands a) n with Some v => v | None => [] end) names))) (p_structs p)).
  destruct (one_fold a (fun x : string * list ascii => SB (fst x) false) (fun x => fst x) (p_bases p) structs) as [l1 [F1 [INC1 R1]]].
  { intros [n t] Hin. apply In_nth_error in Hin. destruct Hin as [k Hk]. apply (get_val_ok _ IA _ 0); [lia | apply (base_item_ok k n t Hk)]. }
  destruct (one_fold a (fun x : string * (list sref * nat) => SS (fst x) false) (fun x => fst x) (p_sups p) l1) as [l2 [F2 [INC2 R2]]].
  { intros [n [items l]] Hin. apply In_nth_error in Hin. destruct Hin as [j Hj]. apply (get_val_ok _ IA _ (List.length (p_sups p))); [lia|].
    apply (item_ok_le (S j)); [|apply (sup_item_ok j n items l Hj)]. assert (j < List.length (p_sups p)) by (apply nth_error_Some; rewrite Hj; discriminate). lia. }
  exists l2. split; [exact EP|]. split.
  { unfold output_records. fold structs.
    rewrite (fold_left_ext _ (fun acc x => one_rec a (SB (fst x) false) (fst x) acc)) by (intros acc [n t]; reflexivity).
    rewrite F1. cbn [bind].
    rewrite (fold_left_ext _ (fun acc x => one_rec a (SS (fst x) false) (fst x) acc)) by (intros acc [n t]; reflexivity).
    exact F2. }
  assert (BREC : forall k n t, nth_error (p_bases p) k = Some (n, t) -> exists v wv, In (n, v) l2 /\ In ((n ++ "*")%string, wv) l2 /\ wc_codes v = Some wv /\
            get_val (S (S (List.length (p_sups p)))) p (r_state a) (SB n false) = OK v).
  { intros k n t Hk. destruct (R1 (n, t) (nth_error_In _ _ Hk)) as [v [wv [G [Wv [I1 I2]]]]]. exists v, wv. cbn [fst] in *. auto. }
  split; [|split].
  - intros k n t Hk. destruct (BREC k n t Hk) as [v [wv [I1 [I2 [Wv G]]]]]. exists v, wv. split; [exact I1 | split; [exact I2 | split; [exact Wv|]]].
    cbn [get_val] in G. destruct (base_item_ok k n t Hk false) as [k' [t' [B1 [B2 B3]]]].
    assert (k' = k) by (pose proof (wf_base_idx p so WF k n t Hk); congruence). subst k'. rewrite Hk in B2. inversion B2; subst t'.
    destruct (designed (r_state a) n) as [u|] eqn:D.
    + inversion G; subst v. pose proof (proj1 (IA n u D) k B1) as AG. rewrite (agree_length cval _ _ AG), base_c_length. unfold blen. rewrite Hk. reflexivity.
    + rewrite B3 in G. inversion G; subst v. congruence.
  - intros n items l d Hin. destruct (Q n items l d Hin) as [vs [F [RV [AG COV]]]]. exists vs. split; [exact F | split; [exact RV|]].
    intros o c par Ho EN. destruct (wf_strand p so WF n items l d Hin) as [_ [OKI EL]].
    assert (LL : List.length (flat_map (ref_c p CT) items) = l) by (rewrite (flat_ref_length p so WF _ items OKI); symmetry; exact EL).
    assert (INo : In (c, par) (flat_map (ref_c p CT) items)) by (rewrite <- EN; apply nth_In; rewrite LL; exact Ho).
    destruct (COV _ INo) as [k [i [bn [t [C1 [C2 [C3 C4]]]]]]]. cbn [fst] in C1. subst c.
    destruct (designed (r_state a) bn) as [u|] eqn:D; [|contradiction].
    pose proof (proj1 (IA bn u D) k (wf_base_idx p so WF k bn t C3)) as AGu. destruct AGu as [bu [-> FU]]. destruct AG as [bs [-> FS]].
    pose proof (Forall2_nth_inv _ (DAux 0 0, false) bA _ _ FU i ltac:(rewrite base_c_length; exact C2)) as RU.
    rewrite base_c_nth in RU by exact C2. unfold R in RU. cbn [fst snd app_par] in RU.
    assert (Ho2 : o < List.length (flat_map (ref_c p CT) items)) by (rewrite LL; exact Ho).
    pose proof (Forall2_nth_inv _ (DAux 0 0, false) bA _ _ FS o Ho2) as RS. unfold R in RS.
    match type of RS with cval (fst ?x) _ => replace x with (DAux (2 * k) i, par) in RS by (symmetry; exact EN) end. cbn [fst snd] in RS.
    pose proof (cval_fun _ _ _ RU RS) as EQ.
    destruct (BREC k bn t C3) as [v [wv [I1 [_ [_ G]]]]]. cbn [get_val] in G. rewrite D in G. inversion G; subst v.
    exists k, i, bn, t, (map base_char bu), (nth i bu bA). split; [reflexivity | split; [exact C3 | split; [exact I1 | split]]].
    + rewrite nth_error_map. pose proof (Forall2_len _ _ _ FU) as LU. rewrite base_c_length in LU.
      rewrite (nth_error_nth' bu bA) by lia. reflexivity.
    + rewrite nth_error_map. pose proof (Forall2_len _ _ _ FS) as LS. rewrite (nth_error_nth' bs bA) by (rewrite <- LS, LL; exact Ho).
      cbn [option_map]. rewrite EQ, app_par_invol. reflexivity.
  - intros sn names sy len Hin. apply INC2, INC1. unfold structs. apply in_map_iff. exists (sn, (names, sy, len)). auto. Qed.
End Results.

Definition design_results_ok p lay so g nts (SEED : seed p so = OK (lay, g)) (SOK : spec_okb p so = true) :=
  design_results_ok_wf p lay so g nts SEED (spec_okb_wf p so SOK).

(* ---- the hypothesis `fits` as an executable check, and a concrete document meeting every hypothesis ---- *)
Definition fitsb (nts : list ascii) (e w : list (option nat)) : bool :=
  forallb (fun i =>
    match nth_error e i with
    | Some (Some r) =>
        match nt_at nts i, nt_at nts r with
        | Some b, Some b' =>
            base_eqb b b' &&
            match nth_error w i with
            | Some (Some r') => match nt_at nts r' with Some b2 => base_eqb b2 (bcompl b) | None => false end
            | _ => true
            end
        | _, _ => false
        end
    | _ => true
    end) (seq 0 (List.length e)).
Lemma fitsb_fits nts e w : fitsb nts e w = true -> fits nts e w.
Proof. unfold fitsb. rewrite forallb_forall. intros H i r Hi.
  assert (Li : i < List.length e) by (apply nth_error_Some; rewrite Hi; discriminate).
  specialize (H i ltac:(apply in_seq; lia)). rewrite Hi in H.
  destruct (nt_at nts i) as [b|]; [|discriminate]. destruct (nt_at nts r) as [b'|]; [|discriminate].
  apply andb_prop in H. destruct H as [H1 H2]. apply base_eqb_eq in H1. subst b'. exists b. split; [reflexivity | split; [reflexivity|]].
  intros r' Hr'. rewrite Hr' in H2. destruct (nt_at nts r') as [b2|]; [|discriminate]. apply base_eqb_eq in H2. subst. reflexivity. Qed.

Local Open Scope string_scope.
Definition demo_nts (so : bool) : list ascii :=
  Base.Sexp.chars (if so then "ACGTA TACGT  TACGT ACGTA TACGT" else "ACGTA  TACGT").
Example demo_results_hypotheses : forall so, exists lay g e w s, seed demo_spec so = OK (lay, g) /\ spec_okb demo_spec so = true /\
  dgraph_ok demo_spec lay so = true /\ same_graph demo_spec lay so g = true /\ graph_ok g = true /\ place_okb demo_spec lay so = true /\
  get_constraints demo_spec so = DOk e w s /\ fits (demo_nts so) e w.
Proof. intros so. destruct so.
  - destruct (seed demo_spec true) as [[lay g]|k] eqn:E; [|vm_compute in E; discriminate].
    destruct (get_constraints demo_spec true) as [e w s| |k] eqn:A; try (vm_compute in A; discriminate).
    exists lay, g, e, w, s. split; [reflexivity|]. vm_compute in E. inversion E; subst. vm_compute in A. inversion A; subst.
    repeat split; try (vm_compute; reflexivity). apply fitsb_fits. vm_compute. reflexivity.
  - destruct (seed demo_spec false) as [[lay g]|k] eqn:E; [|vm_compute in E; discriminate].
    destruct (get_constraints demo_spec false) as [e w s| |k] eqn:A; try (vm_compute in A; discriminate).
    exists lay, g, e, w, s. split; [reflexivity|]. vm_compute in E. inversion E; subst. vm_compute in A. inversion A; subst.
    repeat split; try (vm_compute; reflexivity). apply fitsb_fits. vm_compute. reflexivity. Qed.
