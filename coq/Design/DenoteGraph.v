(* C04 / C15: the auxiliary nodes of Convert.get_constraints are faithful.  Every node of the
   declarative link graph (DGraph.v) has a canonical nucleotide - offset i of base sequence k, with
   an orientation - obtained by flattening super-sequences and strands; all links except the
   target base pairs and the `equal` statements relate a node to a node with the same canonical
   nucleotide; hence two nodes are connected (with a parity) exactly when their canonical
   nucleotides are connected (with the corresponding parity) by base pairs and equal statements. *)
From Coq Require Import List String Ascii Arith Bool Lia.
From PC Require Import Base.Codes Comp.Syntax Comp.Compile Comp.EmitProofs Design.Propagate Design.Designer Design.Contraction Design.DGraph.
Import ListNotations.
Local Open Scope list_scope.

Definition cnt := (dnode * bool)%type.
Definition flipc (c : cnt) : cnt := (fst c, negb (snd c)).
Definition rcl (l : list cnt) : list cnt := map flipc (rev l).
Lemma rcl_length l : List.length (rcl l) = List.length l. Proof. unfold rcl. rewrite map_length, rev_length. reflexivity. Qed.
Lemma nth_rcl l x d : x < List.length l -> nth x (rcl l) (flipc d) = flipc (nth (List.length l - 1 - x) l d).
Proof. intros H. unfold rcl. rewrite map_nth. f_equal. rewrite rev_nth by exact H. f_equal. lia. Qed.

(* ---- small arithmetic ---- *)
Lemma even_2k k : Nat.even (2 * k) = true.
Proof. replace (2 * k) with (0 + 2 * k) by lia. rewrite Nat.even_add_mul_2. reflexivity. Qed.
Lemma even_2k1 k : Nat.even (2 * k + 1) = false.
Proof. replace (2 * k + 1) with (1 + 2 * k) by lia. rewrite Nat.even_add_mul_2. reflexivity. Qed.
Lemma div_2k k : (2 * k) / 2 = k.
Proof. rewrite Nat.mul_comm. apply Nat.div_mul. lia. Qed.
Lemma div_2k1 k : (2 * k + 1) / 2 = k.
Proof. symmetry. apply (Nat.div_unique (2 * k + 1) 2 k 1); lia. Qed.


Section K.
Variable p : pspec.
Variable so : bool.                                   (* structure-oriented layout? *)
Let nbs := List.length (p_bases p).
Let NB := 2 * nbs.

Definition blen (k : nat) : nat := match nth_error (p_bases p) k with Some (_, t) => List.length t | None => 0 end.
Definition slen (j : nat) : nat := match nth_error (p_sups p) j with Some (_, (_, l)) => l | None => 0 end.
Definition base_c (k : nat) : list cnt := map (fun i => (DAux (2 * k) i, false)) (seq 0 (blen k)).

(* flattening of one reference, given the flattenings of the super-sequences defined so far *)
Definition ref_c (tbl : list (list cnt)) (it : sref) : list cnt :=
  match it with
  | SB n r => match base_index p n with Some k => if r then rcl (base_c k) else base_c k | None => [] end
  | SS n r => match sup_index p n with Some j => if r then rcl (nth j tbl []) else nth j tbl [] | None => [] end
  end.
Fixpoint build (ss : list (string * (list sref * nat))) (tbl : list (list cnt)) : list (list cnt) :=
  match ss with [] => tbl | (_, (items, _)) :: r => build r (tbl ++ [flat_map (ref_c tbl) items]) end.
Definition ctbl : list (list cnt) := build (p_sups p) [].

(* the canonical nucleotide of a node *)
Definition kap (nd : dnode) : cnt :=
  match nd with
  | DAux num x =>
      if Nat.ltb num NB then
        (if Nat.even num then (nd, false) else if Nat.ltb x (blen (num / 2)) then (DAux (num - 1) (blen (num / 2) - 1 - x), true) else (nd, false))
      else
        let j := (num - NB) / 2 in let cl := nth j ctbl [] in
        if Nat.even (num - NB) then nth x cl (nd, false) else if Nat.ltb x (List.length cl) then flipc (nth (List.length cl - 1 - x) cl (nd, true)) else (nd, false)
  | DPos n o =>
      if so then (nd, false) else
      match afind (p_strands p) n with
      | Some (items, _, _) => nth o (flat_map (ref_c ctbl) items) (nd, false)
      | None => (nd, false)
      end
  | DInst sn x =>
      if so then
        match walk_sym p (struct_names p sn) x with
        | Some (n, o) => match afind (p_strands p) n with
                         | Some (items, _, _) => nth o (flat_map (ref_c ctbl) items) (nd, false)
                         | None => (nd, false) end
        | None => (nd, false)
        end
      else (nd, false)
  end.

(* ---- well-formedness of the loaded specification (what load_spec guarantees), as hypotheses ---- *)
Definition item_ok (bound : nat) (it : sref) : Prop :=
  match it with
  | SB n _ => exists k t, base_index p n = Some k /\ nth_error (p_bases p) k = Some (n, t) /\ afind (p_bases p) n = Some t
  | SS n _ => exists j items l, sup_index p n = Some j /\ j < bound /\ nth_error (p_sups p) j = Some (n, (items, l)) /\
                                afind (p_sups p) n = Some (items, l)
  end.
Definition refs_total (items : list sref) : nat := fold_right (fun it a => sref_len p it + a) 0 items.
Record spec_wf : Prop := {
  wf_sup : forall j n items l, nth_error (p_sups p) j = Some (n, (items, l)) ->
      (forall it, In it items -> item_ok j it) /\ l = refs_total items;
  wf_strand : forall n items l d, In (n, (items, l, d)) (p_strands p) ->
      afind (p_strands p) n = Some (items, l, d) /\ (forall it, In it items -> item_ok (List.length (p_sups p)) it) /\ l = refs_total items;
  wf_sup_idx : forall j n items l, nth_error (p_sups p) j = Some (n, (items, l)) -> sup_index p n = Some j;
  wf_struct : so = true -> forall sn v, In (sn, v) (p_structs p) -> afind (p_structs p) sn = Some v;
  wf_placed : so = true -> forall n items l d, In (n, (items, l, d)) (p_strands p) -> l <> 0 -> first_inst_in p (p_structs p) n <> None;
  wf_base_idx : forall k n t, nth_error (p_bases p) k = Some (n, t) -> base_index p n = Some k;
  wf_disjoint : forall n, base_index p n <> None -> sup_index p n = None;
  wf_struct_len : so = true -> forall sn names s len, In (sn, (names, s, len)) (p_structs p) -> len = DGraph.total p names }.
Hypothesis WF : spec_wf.

(* ---- the table of flattenings ---- *)
Lemma build_app ss : forall tbl, exists X, build ss tbl = tbl ++ X /\ List.length X = List.length ss.
Proof. induction ss as [|[n [items l]] ss IH]; intros tbl; simpl.
  - exists []. rewrite app_nil_r. auto.
  - destruct (IH (tbl ++ [flat_map (ref_c tbl) items])) as [X [E L]]. exists (flat_map (ref_c tbl) items :: X).
    rewrite E, <- app_assoc. simpl. auto. Qed.
Lemma ctbl_length : List.length ctbl = List.length (p_sups p).
Proof. unfold ctbl. destruct (build_app (p_sups p) []) as [X [E L]]. rewrite E. simpl. exact L. Qed.

(* entry j of the table is the flattening of sup j's items over the first j entries *)
Lemma build_nth ss : forall tbl j n items l, nth_error ss j = Some (n, (items, l)) ->
  nth (List.length tbl + j) (build ss tbl) [] = flat_map (ref_c (firstn (List.length tbl + j) (build ss tbl))) items.
Proof. induction ss as [|[n0 [items0 l0]] ss IH]; intros tbl j n items l H; [destruct j; discriminate|].
  destruct j as [|j]; simpl in H.
  - inversion H; subst. simpl. rewrite Nat.add_0_r.
    destruct (build_app ss (tbl ++ [flat_map (ref_c tbl) items])) as [X [E _]]. rewrite E, <- app_assoc. simpl.
    rewrite app_nth2 by lia. rewrite Nat.sub_diag. simpl. rewrite firstn_app, firstn_all, Nat.sub_diag. simpl. rewrite app_nil_r. reflexivity.
  - simpl. specialize (IH (tbl ++ [flat_map (ref_c tbl) items0]) j n items l H). rewrite app_length in IH. simpl in IH.
    replace (List.length tbl + S j) with (List.length tbl + 1 + j) by lia. exact IH. Qed.
Lemma ctbl_nth j n items l : nth_error (p_sups p) j = Some (n, (items, l)) ->
  nth j ctbl [] = flat_map (ref_c (firstn j ctbl)) items.
Proof. intros H. apply (build_nth (p_sups p) [] j n items l H). Qed.

(* a reference to an earlier object reads the same from a prefix of the table *)
Lemma ref_c_prefix bound it : item_ok bound it -> bound <= List.length ctbl -> ref_c (firstn bound ctbl) it = ref_c ctbl it.
Proof. intros H B. destruct it as [n r|n r]; simpl; [reflexivity|].
  destruct H as [j [items [l [E [Lt _]]]]]. rewrite E.
  assert (Q : nth j (firstn bound ctbl) [] = nth j ctbl []).
  { rewrite <- (firstn_skipn bound ctbl) at 2. rewrite app_nth1; [reflexivity | rewrite firstn_length; lia]. }
  rewrite Q. reflexivity. Qed.

Lemma base_c_length k : List.length (base_c k) = blen k.
Proof. unfold base_c. rewrite map_length, seq_length. reflexivity. Qed.

(* lengths: the flattening of sup j has its declared length; a reference flattens to its length *)
Lemma lengths_upto : forall j, j <= List.length (p_sups p) ->
  (forall i n items l, i < j -> nth_error (p_sups p) i = Some (n, (items, l)) -> List.length (nth i ctbl []) = l).
Proof. induction j as [|j IH]; intros Hj i n items l Hi H; [lia|].
  destruct (Nat.eq_dec i j) as [->|NE]; [|apply (IH ltac:(lia) i n items l ltac:(lia) H)].
  rewrite (ctbl_nth j n items l H). destruct (wf_sup WF j n items l H) as [IT ->].
  clear H. induction items as [|it items IHi]; [reflexivity|]. simpl. rewrite app_length.
  rewrite IHi by (intros x Hx; apply IT; right; exact Hx). f_equal.
  pose proof (IT it (or_introl eq_refl)) as OK. destruct it as [m r|m r]; simpl in *.
  - destruct OK as [k [t [E1 [E2 E3]]]]. rewrite E1, E3. assert (B : blen k = List.length t) by (unfold blen; rewrite E2; reflexivity).
    destruct r; [rewrite rcl_length|]; rewrite base_c_length; exact B.
  - destruct OK as [j' [items' [l' [E1 [Lt [E2 E3]]]]]]. rewrite E1, E3.
    assert (Q : nth j' (firstn j ctbl) [] = nth j' ctbl []).
    { rewrite <- (firstn_skipn j ctbl) at 2. rewrite app_nth1; [reflexivity | rewrite firstn_length, ctbl_length; lia]. }
    destruct r; [rewrite rcl_length|]; rewrite Q; apply (IH ltac:(lia) j' m items' l' Lt E2). Qed.
Lemma sup_c_length j n items l : nth_error (p_sups p) j = Some (n, (items, l)) -> List.length (nth j ctbl []) = l.
Proof. intros H. assert (Lj : j < List.length (p_sups p)) by (apply nth_error_Some; rewrite H; discriminate).
  apply (lengths_upto (S j) ltac:(lia) j n items l ltac:(lia) H). Qed.
Lemma ref_c_length bound it : item_ok bound it -> List.length (ref_c ctbl it) = sref_len p it.
Proof. intros OK. destruct it as [m r|m r]; simpl in *.
  - destruct OK as [k [t [E1 [E2 E3]]]]. rewrite E1, E3. assert (B : blen k = List.length t) by (unfold blen; rewrite E2; reflexivity).
    destruct r; [rewrite rcl_length|]; rewrite base_c_length; exact B.
  - destruct OK as [j' [items' [l' [E1 [Lt [E2 E3]]]]]]. rewrite E1, E3.
    destruct r; [rewrite rcl_length|]; apply (sup_c_length j' m items' l' E2). Qed.

Lemma nth_flat_map_at {A B} (f : A -> list B) pre it post x d :
  x < List.length (f it) -> nth (List.length (flat_map f pre) + x) (flat_map f (pre ++ it :: post)) d = nth x (f it) d.
Proof. intros H. rewrite flat_map_app. simpl. rewrite app_nth2 by lia.
  replace (List.length (flat_map f pre) + x - List.length (flat_map f pre)) with x by lia. apply app_nth1, H. Qed.

Lemma flat_ref_length bound items : (forall it, In it items -> item_ok bound it) ->
  List.length (flat_map (ref_c ctbl) items) = refs_total items.
Proof. induction items as [|it items IH]; intros H; [reflexivity|]. simpl. rewrite app_length, IH by (intros x Hx; apply H; right; exact Hx).
  rewrite (ref_c_length bound it (H it (or_introl eq_refl))). reflexivity. Qed.

Lemma item_num bound it : item_ok bound it -> exists num, sref_num p it = Some num.
Proof. destruct it as [n r|n r]; simpl; intros H.
  - destruct H as [k [t [E _]]]. rewrite E. simpl. eauto.
  - destruct H as [j [items [l [E _]]]]. rewrite E. simpl. eauto. Qed.

Lemma base_c_nth k i d : i < blen k -> nth i (base_c k) d = (DAux (2 * k) i, false).
Proof. intros H. unfold base_c. rewrite (nth_indep _ d ((fun j => (DAux (2 * k) j, false)) 0)) by (rewrite map_length, seq_length; exact H).
  rewrite (map_nth (fun j => (DAux (2 * k) j, false))). rewrite seq_nth by exact H. reflexivity. Qed.

(* K1: offset x of a reference has the canonical nucleotide of offset x of the referenced object *)
Lemma ref_c_kap bound it num x d : item_ok bound it -> sref_num p it = Some num -> x < sref_len p it ->
  nth x (ref_c ctbl it) d = kap (DAux num x).
Proof. intros OK HN Hx. destruct it as [n r|n r]; cbn [item_ok sref_num sref_len ref_c] in *; unfold kap.
  - destruct OK as [k [t [E1 [E2 E3]]]]. rewrite E1 in *. rewrite E3 in Hx.
    assert (EN : num = 2 * k + (if r then 1 else 0)) by (cbn [option_map] in HN; congruence). subst num. clear HN.
    assert (B : blen k = List.length t) by (unfold blen; rewrite E2; reflexivity).
    assert (KL : k < nbs) by (apply nth_error_Some; rewrite E2; discriminate).
    destruct r.
    + replace (2 * k + 1 <? NB) with true by (symmetry; apply Nat.ltb_lt; unfold NB; lia).
      rewrite even_2k1, div_2k1. replace (2 * k + 1 - 1) with (2 * k) by lia.
      replace (x <? blen k) with true by (symmetry; apply Nat.ltb_lt; lia).
      rewrite (nth_indep _ d (flipc (DAux 0 0, false))) by (rewrite rcl_length, base_c_length; lia).
      rewrite nth_rcl by (rewrite base_c_length; lia). rewrite base_c_length, base_c_nth by lia. reflexivity.
    + rewrite Nat.add_0_r. replace (2 * k <? NB) with true by (symmetry; apply Nat.ltb_lt; unfold NB; lia).
      rewrite even_2k, base_c_nth by lia. reflexivity.
  - destruct OK as [j [items [l [E1 [Lt [E2 E3]]]]]]. rewrite E1 in *. rewrite E3 in Hx.
    assert (EN : num = 2 * List.length (p_bases p) + 2 * j + (if r then 1 else 0)) by (cbn [option_map] in HN; congruence). subst num. clear HN.
    pose proof (sup_c_length j n items l E2) as CL. fold nbs. fold NB.
    destruct r.
    + replace (NB + 2 * j + 1 <? NB) with false by (symmetry; apply Nat.ltb_ge; lia).
      replace (NB + 2 * j + 1 - NB) with (2 * j + 1) by lia. rewrite even_2k1, div_2k1.
      replace (x <? List.length (nth j ctbl [])) with true by (symmetry; apply Nat.ltb_lt; lia).
      rewrite (nth_indep _ d (flipc (DAux (NB + 2 * j + 1) x, true))) by (rewrite rcl_length; lia).
      rewrite nth_rcl by lia. reflexivity.
    + replace (NB + 2 * j + 0 <? NB) with false by (symmetry; apply Nat.ltb_ge; lia).
      replace (NB + 2 * j + 0 - NB) with (2 * j) by lia. rewrite even_2k, div_2k.
      apply nth_indep. lia. Qed.

(* ---- the links ---- *)
Definition mk (q : bool) (l : list dlink) : list (link dnode) := map (fun ab => (fst ab, snd ab, q)) l.
Definition base_lens : list nat := map (fun bt => List.length (snd bt)) (p_bases p).
Definition sup_lens : list nat := map (fun s => snd (snd s)) (p_sups p).
Definition S_links : list (link dnode) :=
  mk false (inst_links p so) ++ mk false (sup_item_links p) ++ mk false (strand_item_links p so) ++ mk true (view_links base_lens 0) ++ mk true (view_links sup_lens NB).
Definition R_links : list (link dnode) := mk false (equal_links p) ++ mk true (bond_links p so).

Lemma In_mk q l a b r : In (a, b, r) (mk q l) <-> r = q /\ In (a, b) l.
Proof. unfold mk. rewrite in_map_iff. split.
  - intros [[x y] [E H]]. simpl in E. inversion E; subst. auto.
  - intros [-> H]. exists (a, b). auto. Qed.

Lemma refs_total_app a b : refs_total (a ++ b) = refs_total a + refs_total b.
Proof. induction a as [|x a IH]; simpl; [reflexivity | rewrite IH; lia]. Qed.

(* which links the items of an object contribute *)
Lemma item_links_In bound items : (forall it, In it items -> item_ok bound it) -> forall offset target a b,
  In (a, b) (item_links p items offset target) <->
  exists pre it post num x, items = pre ++ it :: post /\ sref_num p it = Some num /\ x < sref_len p it /\
                            a = target (offset + refs_total pre + x) /\ b = DAux num x.
Proof. induction items as [|it items IH]; intros OK offset target a b.
  - simpl. split; [intros [] | intros [pre [it [post [num [x [E _]]]]]]; destruct pre; discriminate].
  - destruct (item_num bound it (OK it (or_introl eq_refl))) as [num HN]. cbn [item_links]. rewrite HN.
    rewrite in_app_iff, (IH (fun x Hx => OK x (or_intror Hx))). split.
    + intros [H|H].
      * apply in_map_iff in H. destruct H as [x [E Hx]]. inversion E; subst. apply in_seq in Hx.
        exists [], it, items, num, x. split; [reflexivity | split; [exact HN | split; [lia | split; [f_equal; simpl; lia | reflexivity]]]].
      * destruct H as [pre [it' [post [num' [x [E [A [B [C D]]]]]]]]]. exists (it :: pre), it', post, num', x. subst items.
        split; [reflexivity | split; [exact A | split; [exact B | split; [rewrite C; f_equal; simpl; lia | exact D]]]].
    + intros [pre [it' [post [num' [x [E [A [B [C D]]]]]]]]]. destruct pre as [|y pre]; simpl in E; inversion E; subst.
      * left. apply in_map_iff. exists x. rewrite HN in A. inversion A; subst. split; [simpl; f_equal; f_equal; lia | apply in_seq; lia].
      * right. exists pre, it', post, num', x. split; [reflexivity | split; [exact A | split; [exact B | split; [simpl; f_equal; lia | reflexivity]]]]. Qed.

Lemma view_links_In lens : forall num a b, In (a, b) (view_links lens num) <->
  exists i l x, nth_error lens i = Some l /\ x < l /\ a = DAux (num + 2 * i + 1) x /\ b = DAux (num + 2 * i) (l - x - 1).
Proof. induction lens as [|l lens IH]; intros num a b; simpl.
  - split; [intros [] | intros [i [l [x [H _]]]]; destruct i; discriminate].
  - rewrite in_app_iff, IH. split.
    + intros [H|H].
      * apply in_map_iff in H. destruct H as [x [E Hx]]. inversion E; subst. apply in_seq in Hx.
        exists 0, l, x. split; [reflexivity | split; [lia | split; f_equal; lia]].
      * destruct H as [i [l' [x [A [B [C D]]]]]]. exists (S i), l', x. split; [exact A | split; [exact B | split; [rewrite C; f_equal; lia | rewrite D; f_equal; lia]]].
    + intros [[|i] [l' [x [A [B [C D]]]]]]; simpl in A.
      * inversion A; subst. left. apply in_map_iff. exists x. split; [f_equal; f_equal; lia | apply in_seq; lia].
      * right. exists i, l', x. split; [exact A | split; [exact B | split; [rewrite C; f_equal; lia | rewrite D; f_equal; lia]]]. Qed.

Lemma flat_ref_prefix j items : (forall it, In it items -> item_ok j it) -> j <= List.length ctbl ->
  flat_map (ref_c (firstn j ctbl)) items = flat_map (ref_c ctbl) items.
Proof. intros H B. induction items as [|it items IH]; [reflexivity|]. simpl.
  rewrite (ref_c_prefix j it (H it (or_introl eq_refl)) B), IH by (intros x Hx; apply H; right; exact Hx). reflexivity. Qed.

Lemma item_ok_mono b1 b2 it : b1 <= b2 -> item_ok b1 it -> item_ok b2 it.
Proof. intros L. destruct it as [n r|n r]; simpl; [auto|]. intros [j [items [l [A [B C]]]]]. exists j, items, l. split; [exact A | split; [lia | exact C]]. Qed.

(* an item link relates two nodes with the same canonical nucleotide *)
Lemma item_link_kap bound items target a b :
  (forall it, In it items -> item_ok bound it) -> bound <= List.length (p_sups p) ->
  (forall o d, o < refs_total items -> kap (target o) = nth o (flat_map (ref_c ctbl) items) d) ->
  In (a, b) (item_links p items 0 target) -> kap a = kap b.
Proof. intros OK B HT H. apply (item_links_In bound items OK 0 target a b) in H.
  destruct H as [pre [it [post [num [x [E [A [Bx [-> ->]]]]]]]]]. subst items.
  assert (OKit : item_ok bound it) by (apply OK, in_or_app; right; left; reflexivity).
  assert (OKpre : forall y, In y pre -> item_ok bound y) by (intros y Hy; apply OK, in_or_app; left; exact Hy).
  rewrite (HT (0 + refs_total pre + x) (DAux 0 0, false)) by (rewrite refs_total_app; simpl; lia).
  rewrite <- (flat_ref_length bound pre OKpre). cbn [Nat.add].
  rewrite nth_flat_map_at by (rewrite (ref_c_length bound it OKit); exact Bx).
  apply (ref_c_kap bound it num x _ OKit A Bx). Qed.


(* ---- positions of structures (structure layout) ---- *)
Local Notation total := (DGraph.total p).
Lemma walk_sym_at pre n post x : x < strand_len p n -> walk_sym p (pre ++ n :: post) (total pre + x) = Some (n, x).
Proof. intros H. induction pre as [|m pre IH]; simpl.
  - destruct (Nat.leb_spec (strand_len p n) x); [lia | reflexivity].
  - destruct (Nat.leb_spec (strand_len p m) (strand_len p m + total pre + x)); [|lia].
    replace (strand_len p m + total pre + x - strand_len p m) with (total pre + x) by lia. exact IH. Qed.
Lemma walk_sym_spec names : forall x n o, walk_sym p names x = Some (n, o) ->
  exists pre post, names = pre ++ n :: post /\ x = total pre + o /\ o < strand_len p n.
Proof. induction names as [|m names IH]; intros x n o H; simpl in H; [discriminate|].
  destruct (Nat.leb_spec (strand_len p m) x) as [L|G].
  - destruct (IH _ n o H) as [pre [post [E [A B]]]]. exists (m :: pre), post. subst names. simpl. split; [reflexivity | split; [lia | exact B]].
  - inversion H; subst. exists [], names. simpl. auto. Qed.
Lemma occ_offset_spec names n : forall off0 off, occ_offset p names n off0 = Some off ->
  exists pre post, names = pre ++ n :: post /\ off = off0 + total pre.
Proof. induction names as [|m names IH]; intros off0 off H; simpl in H; [discriminate|].
  destruct (String.eqb m n) eqn:E.
  - apply String.eqb_eq in E. subst m. inversion H; subst. exists [], names. simpl. split; [reflexivity | lia].
  - destruct (IH _ _ H) as [pre [post [A B]]]. exists (m :: pre), post. subst names. simpl. split; [reflexivity | lia]. Qed.
Lemma occ_offset_complete names n : In n names -> forall off0, occ_offset p names n off0 <> None.
Proof. induction names as [|m names IH]; intros H off0; [destruct H|]. simpl. destruct (String.eqb m n) eqn:E; [discriminate|].
  destruct H as [H|H]; [subst; rewrite String.eqb_refl in E; discriminate | apply IH, H]. Qed.
Lemma first_inst_spec sts n sn off : first_inst_in p sts n = Some (sn, off) ->
  exists names s l pre post, In (sn, (names, s, l)) sts /\ names = pre ++ n :: post /\ off = total pre.
Proof. induction sts as [|[sn0 [[names0 s0] l0]] sts IH]; intros H; simpl in H; [discriminate|].
  destruct (occ_offset p names0 n 0) as [off0|] eqn:E.
  - inversion H; subst. destruct (occ_offset_spec _ _ _ _ E) as [pre [post [A B]]]. exists names0, s0, l0, pre, post.
    split; [left; reflexivity | split; [exact A | exact B]].
  - destruct (IH H) as [names [s [l [pre [post [A B]]]]]]. exists names, s, l, pre, post. split; [right; exact A | exact B]. Qed.
Lemma first_inst_complete sts n sn names s l : In (sn, (names, s, l)) sts -> In n names -> first_inst_in p sts n <> None.
Proof. induction sts as [|[sn0 [[names0 s0] l0]] sts IH]; intros H Hn; [destruct H|]. simpl.
  destruct (occ_offset p names0 n 0) eqn:E; [discriminate|]. destruct H as [H|H].
  - inversion H; subst. exfalso. apply (occ_offset_complete names n Hn 0 E).
  - apply IH; assumption. Qed.
Lemma occ_links_In sn names : forall offset a b, In (a, b) (occ_links p so sn names offset) <->
  exists pre n post x, names = pre ++ n :: post /\ x < strand_len p n /\ a = spos p so n x /\ b = DInst sn (offset + total pre + x).
Proof. induction names as [|m names IH]; intros offset a b; simpl.
  - split; [intros [] | intros [pre [n [post [x [E _]]]]]; destruct pre; discriminate].
  - rewrite in_app_iff, IH. split.
    + intros [H|H].
      * apply in_map_iff in H. destruct H as [x [E Hx]]. inversion E; subst. apply in_seq in Hx.
        exists [], m, names, x. simpl. split; [reflexivity | split; [lia | split; [reflexivity | f_equal; lia]]].
      * destruct H as [pre [n [post [x [E [A [B C]]]]]]]. exists (m :: pre), n, post, x. subst names. simpl.
        split; [reflexivity | split; [exact A | split; [exact B | rewrite C; f_equal; lia]]].
    + intros [pre [n [post [x [E [A [B C]]]]]]]. destruct pre as [|y pre]; simpl in E; inversion E; subst.
      * left. apply in_map_iff. exists x. split; [f_equal; simpl; f_equal; lia | apply in_seq; lia].
      * right. exists pre, n, post, x. split; [reflexivity | split; [exact A | split; [reflexivity | simpl; f_equal; lia]]]. Qed.

Lemma strand_len_entry n items l d : In (n, (items, l, d)) (p_strands p) -> strand_len p n = l.
Proof. intros H. unfold strand_len. destruct (wf_strand WF n items l d H) as [AF _]. rewrite AF. reflexivity. Qed.
Lemma strand_len_pos n x : x < strand_len p n -> exists items l d, In (n, (items, l, d)) (p_strands p) /\ l = strand_len p n.
Proof. unfold strand_len. destruct (afind (p_strands p) n) as [[[items l] d]|] eqn:AF; [|lia]. intros _.
  exists items, l, d. split; [apply (afind_Some_In _ _ _ AF) | reflexivity]. Qed.

(* a position of a structure has the canonical nucleotide of the strand position it is an occurrence of *)
Lemma kap_inst sn names s ls pre n post items l d x dd : so = true -> In (sn, (names, s, ls)) (p_structs p) ->
  names = pre ++ n :: post -> In (n, (items, l, d)) (p_strands p) -> x < l ->
  kap (DInst sn (total pre + x)) = nth x (flat_map (ref_c ctbl) items) dd.
Proof. intros SO Hs E Hn Hx. destruct (wf_strand WF n items l d Hn) as [AF [OK EL]]. unfold kap. rewrite SO.
  unfold struct_names. rewrite (wf_struct WF SO sn _ Hs). rewrite E.
  rewrite walk_sym_at by (rewrite (strand_len_entry n items l d Hn); exact Hx). rewrite AF.
  apply nth_indep. rewrite (flat_ref_length _ items OK). lia. Qed.
Lemma kap_spos n items l d o dd : In (n, (items, l, d)) (p_strands p) -> o < l ->
  kap (spos p so n o) = nth o (flat_map (ref_c ctbl) items) dd.
Proof. intros Hn Ho. destruct (wf_strand WF n items l d Hn) as [AF [OK EL]]. unfold spos. destruct so eqn:SO.
  - destruct (first_inst_in p (p_structs p) n) as [[sn off]|] eqn:FI; [|exfalso; apply (wf_placed WF SO n items l d Hn ltac:(lia) FI)].
    destruct (first_inst_spec _ _ _ _ FI) as [names [s [ls [pre [post [A [B ->]]]]]]].
    apply (kap_inst sn names s ls pre n post items l d o dd SO A B Hn Ho).
  - unfold kap. rewrite SO, AF. apply nth_indep. rewrite (flat_ref_length _ items OK). lia. Qed.

Theorem kap_struct a b q : In (a, b, q) S_links -> fst (kap a) = fst (kap b) /\ snd (kap a) = xorb (snd (kap b)) q.
Proof. unfold S_links. rewrite !in_app_iff, !In_mk. intros [[-> H]|[[-> H]|[[-> H]|[[-> H]|[-> H]]]]].
  - (* occurrences of strands in structures *)
    unfold inst_links in H. destruct so eqn:SO; [|destruct H]. apply in_flat_map in H. destruct H as [[sn [[names s] ls]] [Hs H]].
    rewrite <- SO in H. apply occ_links_In in H. destruct H as [pre [n [post [x [E [Hx [-> ->]]]]]]].
    destruct (strand_len_pos n x Hx) as [items [l [d [Hn EL]]]]. rewrite <- EL in Hx.
    rewrite (kap_spos n items l d x (DAux 0 0, false) Hn Hx). cbn [Nat.add].
    rewrite (kap_inst sn names s ls pre n post items l d x (DAux 0 0, false) SO Hs E Hn Hx). rewrite xorb_false_r. auto.
  - (* items of a super-sequence *)
    unfold sup_item_links in H. apply in_flat_map in H. destruct H as [[n [items l]] [Hin H]].
    apply In_nth_error in Hin. destruct Hin as [j Hj]. destruct (wf_sup WF j n items l Hj) as [OK ->].
    cbn [sref_num] in H. rewrite (wf_sup_idx WF j n items _ Hj) in H. cbn [option_map] in H. fold nbs in H. fold NB in H.
    assert (Lj : j < List.length (p_sups p)) by (apply nth_error_Some; rewrite Hj; discriminate).
    assert (E : kap a = kap b).
    { apply (item_link_kap j items (fun o => DAux (NB + 2 * j + 0) o) a b OK ltac:(lia)); [|exact H].
      intros o d Ho. unfold kap. replace (NB + 2 * j + 0 <? NB) with false by (symmetry; apply Nat.ltb_ge; lia).
      replace (NB + 2 * j + 0 - NB) with (2 * j) by lia. rewrite even_2k, div_2k, (ctbl_nth j n items _ Hj).
      rewrite (flat_ref_prefix j items OK ltac:(rewrite ctbl_length; lia)). apply nth_indep.
      rewrite (flat_ref_length j items OK). exact Ho. }
    rewrite E, xorb_false_r. auto.
  - (* items of a strand *)
    unfold strand_item_links in H. apply in_flat_map in H. destruct H as [[n [[items l] d]] [Hin H]].
    destruct (wf_strand WF n items l d Hin) as [AF [OK ->]].
    assert (E : kap a = kap b).
    { apply (item_link_kap (List.length (p_sups p)) items (fun o => spos p so n o) a b OK ltac:(lia)); [|exact H].
      intros o d0 Ho. apply (kap_spos n items _ d o d0 Hin Ho). }
    rewrite E, xorb_false_r. auto.
  - (* the reversed view of a base sequence *)
    apply view_links_In in H. destruct H as [i [l [x [Hl [Hx [-> ->]]]]]]. unfold base_lens in Hl. rewrite nth_error_map in Hl.
    destruct (nth_error (p_bases p) i) as [[bn t]|] eqn:Hb; [|discriminate]. simpl in Hl. inversion Hl; subst l.
    assert (KL : i < nbs) by (apply nth_error_Some; rewrite Hb; discriminate).
    assert (B : blen i = List.length t) by (unfold blen; rewrite Hb; reflexivity).
    unfold kap. cbn [Nat.add]. replace (2 * i + 1 <? NB) with true by (symmetry; apply Nat.ltb_lt; unfold NB; lia).
    replace (2 * i <? NB) with true by (symmetry; apply Nat.ltb_lt; unfold NB; lia).
    rewrite even_2k1, even_2k, div_2k1, B. replace (2 * i + 1 - 1) with (2 * i) by lia.
    replace (x <? List.length t) with true by (symmetry; apply Nat.ltb_lt; lia). cbn [fst snd xorb].
    split; [f_equal; lia | reflexivity].
  - (* the reversed view of a super-sequence *)
    apply view_links_In in H. destruct H as [i [l [x [Hl [Hx [-> ->]]]]]]. unfold sup_lens in Hl. rewrite nth_error_map in Hl.
    destruct (nth_error (p_sups p) i) as [[sn [items l']]|] eqn:Hs; [|discriminate]. simpl in Hl. inversion Hl; subst l'.
    pose proof (sup_c_length i sn items l Hs) as CL.
    unfold kap. replace (NB + 2 * i + 1 <? NB) with false by (symmetry; apply Nat.ltb_ge; lia).
    replace (NB + 2 * i <? NB) with false by (symmetry; apply Nat.ltb_ge; lia).
    replace (NB + 2 * i + 1 - NB) with (2 * i + 1) by lia. replace (NB + 2 * i - NB) with (2 * i) by lia.
    rewrite even_2k1, even_2k, div_2k1, div_2k, CL. replace (l - 1 - x) with (l - x - 1) by lia.
    replace (x <? l) with true by (symmetry; apply Nat.ltb_lt; lia).
    assert (X : l - x - 1 < List.length (nth i ctbl [])) by (rewrite CL; lia).
    rewrite (nth_indep (nth i ctbl []) ((DAux (NB + 2 * i + 1) x, true) : cnt) ((DAux (NB + 2 * i) (l - x - 1), false) : cnt) X).
    unfold flipc. cbn [fst snd]. split; [reflexivity | destruct (snd _); reflexivity]. Qed.

(* ---- every node reaches its canonical nucleotide through structural links ---- *)
Definition reach (a : dnode) : Prop := pconn dnode S_links a (snd (kap a)) (fst (kap a)).
Lemma reach_self a : kap a = (a, false) -> reach a.
Proof. intros E. unfold reach. rewrite E. constructor. Qed.
Lemma step_reach a b q : In (a, b, q) S_links -> reach b -> reach a.
Proof. intros H R. destruct (kap_struct a b q H) as [E1 E2]. unfold reach. rewrite E1, E2.
  assert (A : pconn dnode S_links a q b).
  { replace q with (xorb false q) by (destruct q; reflexivity). eapply pc_fwd; [constructor | exact H]. }
  pose proof (pconn_trans dnode S_links a q b A _ _ R) as T. rewrite xorb_comm. exact T. Qed.

Lemma split_at items : forall x, x < refs_total items ->
  exists pre it post x', items = pre ++ it :: post /\ x = refs_total pre + x' /\ x' < sref_len p it.
Proof. induction items as [|it items IH]; intros x Hx; simpl in Hx; [lia|].
  destruct (Nat.ltb_spec x (sref_len p it)) as [L|G].
  - exists [], it, items, x. simpl. auto.
  - destruct (IH (x - sref_len p it) ltac:(lia)) as [pre [it' [post [x' [E [A B]]]]]].
    exists (it :: pre), it', post, x'. subst items. simpl. split; [reflexivity | split; [lia | exact B]]. Qed.

Lemma odd_form n : Nat.even n = false -> exists m, n = 2 * m + 1.
Proof. intros E. rewrite <- Nat.negb_odd in E. apply negb_false_iff in E. apply Nat.odd_spec in E. exact E. Qed.
Lemma even_form n : Nat.even n = true -> exists m, n = 2 * m.
Proof. intros E. apply Nat.even_spec in E. exact E. Qed.

Lemma base_lens_nth k : k < nbs -> nth_error base_lens k = Some (blen k).
Proof. intros H. unfold base_lens, blen. rewrite nth_error_map. destruct (nth_error (p_bases p) k) as [[n t]|] eqn:E; [reflexivity|].
  apply nth_error_None in E. unfold nbs in H. lia. Qed.

Lemma reach_base num x : num < NB -> reach (DAux num x).
Proof. intros L. destruct (Nat.even num) eqn:Ev.
  - apply reach_self. unfold kap. replace (num <? NB) with true by (symmetry; apply Nat.ltb_lt; exact L). rewrite Ev. reflexivity.
  - destruct (odd_form num Ev) as [m ->]. destruct (Nat.ltb_spec x (blen m)) as [Lx|Gx].
    + apply (step_reach _ (DAux (0 + 2 * m) (blen m - x - 1)) true).
      * unfold S_links. rewrite !in_app_iff, !In_mk. right. right. right. left. split; [reflexivity|]. apply view_links_In.
        exists m, (blen m), x. split; [apply base_lens_nth; unfold NB in L; lia | split; [exact Lx | split; reflexivity]].
      * apply reach_self. unfold kap. replace (0 + 2 * m <? NB) with true by (symmetry; apply Nat.ltb_lt; lia).
        cbn [Nat.add]. rewrite even_2k. reflexivity.
    + apply reach_self. unfold kap. replace (2 * m + 1 <? NB) with true by (symmetry; apply Nat.ltb_lt; exact L).
      rewrite even_2k1, div_2k1. replace (x <? blen m) with false by (symmetry; apply Nat.ltb_ge; exact Gx). reflexivity. Qed.

Lemma sup_lens_nth j n items l : nth_error (p_sups p) j = Some (n, (items, l)) -> nth_error sup_lens j = Some l.
Proof. intros H. unfold sup_lens. rewrite nth_error_map, H. reflexivity. Qed.

Lemma item_reach bound it num x : item_ok bound it -> sref_num p it = Some num ->
  (forall j, j < bound -> (forall y, reach (DAux (NB + 2 * j) y)) /\ (forall y, reach (DAux (NB + 2 * j + 1) y))) ->
  reach (DAux num x).
Proof. intros OK HN IH. destruct it as [n r|n r]; cbn [item_ok sref_num] in *.
  - destruct OK as [k [t [E1 [E2 E3]]]]. rewrite E1 in HN. cbn [option_map] in HN.
    assert (KL : k < nbs) by (apply nth_error_Some; rewrite E2; discriminate).
    apply reach_base. unfold NB. destruct r; inversion HN; lia.
  - destruct OK as [j [items [l [E1 [Lt _]]]]]. rewrite E1 in HN. cbn [option_map] in HN. fold nbs in HN. fold NB in HN.
    destruct (IH j Lt) as [A B]. destruct r; inversion HN; [apply B | rewrite Nat.add_0_r; apply A]. Qed.

Lemma reach_sup : forall j, (forall y, reach (DAux (NB + 2 * j) y)) /\ (forall y, reach (DAux (NB + 2 * j + 1) y)).
Proof. intros j. induction j as [j IH] using lt_wf_ind.
  assert (KE : forall y, kap (DAux (NB + 2 * j) y) = nth y (nth j ctbl []) (DAux (NB + 2 * j) y, false)).
  { intros y. unfold kap. replace (NB + 2 * j <? NB) with false by (symmetry; apply Nat.ltb_ge; lia).
    replace (NB + 2 * j - NB) with (2 * j) by lia. rewrite even_2k, div_2k. reflexivity. }
  assert (KO : forall y, List.length (nth j ctbl []) <= y -> kap (DAux (NB + 2 * j + 1) y) = (DAux (NB + 2 * j + 1) y, false)).
  { intros y Hy. unfold kap. replace (NB + 2 * j + 1 <? NB) with false by (symmetry; apply Nat.ltb_ge; lia).
    replace (NB + 2 * j + 1 - NB) with (2 * j + 1) by lia. rewrite even_2k1, div_2k1.
    replace (y <? List.length (nth j ctbl [])) with false by (symmetry; apply Nat.ltb_ge; exact Hy). reflexivity. }
  destruct (nth_error (p_sups p) j) as [[n [items l]]|] eqn:Hj.
  - pose proof (sup_c_length j n items l Hj) as CL. destruct (wf_sup WF j n items l Hj) as [OK EL].
    assert (Ev : forall y, reach (DAux (NB + 2 * j) y)).
    { intros y. destruct (Nat.ltb_spec y l) as [Ly|Gy].
      - rewrite EL in Ly. destruct (split_at items y Ly) as [pre [it [post [x' [E [A B]]]]]].
        assert (OKit : item_ok j it) by (apply OK; rewrite E; apply in_or_app; right; left; reflexivity).
        destruct (item_num j it OKit) as [num HN].
        apply (step_reach _ (DAux num x') false).
        + unfold S_links. rewrite !in_app_iff, !In_mk. right. left. split; [reflexivity|]. unfold sup_item_links. apply in_flat_map.
          exists (n, (items, l)). split; [apply (nth_error_In _ _ Hj)|]. cbn [sref_num]. rewrite (wf_sup_idx WF j n items l Hj).
          cbn [option_map]. fold nbs. fold NB. apply (item_links_In j items OK).
          exists pre, it, post, num, x'. split; [exact E | split; [exact HN | split; [exact B | split; [f_equal; lia | reflexivity]]]].
        + apply (item_reach j it num x' OKit HN). intros j' Lj'. apply IH. exact Lj'.
      - apply reach_self. rewrite KE. apply nth_overflow. lia. }
    split; [exact Ev|]. intros y. destruct (Nat.ltb_spec y l) as [Ly|Gy].
    + apply (step_reach _ (DAux (NB + 2 * j) (l - y - 1)) true); [|apply Ev].
      unfold S_links. rewrite !in_app_iff, !In_mk. right. right. right. right. split; [reflexivity|]. apply view_links_In.
      exists j, l, y. split; [apply (sup_lens_nth j n items l Hj) | split; [exact Ly | split; reflexivity]].
    + apply reach_self. apply KO. lia.
  - assert (E : nth j ctbl [] = []) by (apply nth_overflow; rewrite ctbl_length; apply nth_error_None; exact Hj).
    split; intros y.
    + apply reach_self. rewrite KE, E. destruct y; reflexivity.
    + apply reach_self. apply KO. rewrite E. simpl. lia. Qed.

Lemma reach_aux num x : reach (DAux num x).
Proof. destruct (Nat.ltb_spec num NB) as [L|G]; [apply reach_base; exact L|].
  destruct (Nat.even (num - NB)) eqn:Ev.
  - destruct (even_form _ Ev) as [j Ej]. replace num with (NB + 2 * j) by lia. apply reach_sup.
  - destruct (odd_form _ Ev) as [j Ej]. replace num with (NB + 2 * j + 1) by lia. apply reach_sup. Qed.

Lemma step_reach_bwd a b q : In (b, a, q) S_links -> reach b -> reach a.
Proof. intros H R. destruct (kap_struct b a q H) as [E1 E2]. unfold reach.
  assert (A : pconn dnode S_links a q b).
  { replace q with (xorb false q) by (destruct q; reflexivity). eapply pc_bwd; [constructor | exact H]. }
  pose proof (pconn_trans dnode S_links a q b A _ _ R) as T. rewrite <- E1.
  replace (snd (kap a)) with (xorb q (snd (kap b))); [exact T|]. rewrite E2. destruct q, (snd (kap a)); reflexivity. Qed.

Lemma reach_spos n items l d o : In (n, (items, l, d)) (p_strands p) -> o < l -> reach (spos p so n o).
Proof. intros Hin Lo. destruct (wf_strand WF n items l d Hin) as [_ [OK EL]]. rewrite EL in Lo.
  destruct (split_at items o Lo) as [pre [it [post [x' [E [A B]]]]]].
  assert (OKit : item_ok (List.length (p_sups p)) it) by (apply OK; rewrite E; apply in_or_app; right; left; reflexivity).
  destruct (item_num _ it OKit) as [num HN].
  apply (step_reach _ (DAux num x') false); [|apply reach_aux].
  unfold S_links. rewrite !in_app_iff, !In_mk. right. right. left. split; [reflexivity|]. unfold strand_item_links. apply in_flat_map.
  exists (n, (items, l, d)). split; [exact Hin|]. apply (item_links_In _ items OK).
  exists pre, it, post, num, x'. split; [exact E | split; [exact HN | split; [exact B | split; [f_equal; lia | reflexivity]]]]. Qed.

Theorem kap_reach a : reach a.
Proof. destruct a as [n o|sn x|num x]; [| |apply reach_aux].
  - (* a strand position (strand layout) *)
    destruct so eqn:SO; [apply reach_self; unfold kap; rewrite SO; reflexivity|].
    destruct (afind (p_strands p) n) as [[[items l] d]|] eqn:AF.
    + pose proof (afind_Some_In _ _ _ AF) as Hin. destruct (wf_strand WF n items l d Hin) as [_ [OK EL]].
      destruct (Nat.ltb_spec o l) as [Lo|Go].
      * pose proof (reach_spos n items l d o Hin Lo) as R. unfold spos in R. rewrite SO in R. exact R.
      * apply reach_self. unfold kap. rewrite SO, AF. apply nth_overflow. rewrite (flat_ref_length _ items OK). lia.
    + apply reach_self. unfold kap. rewrite SO, AF. reflexivity.
  - (* a position of a structure (structure layout) *)
    destruct so eqn:SO; [|apply reach_self; unfold kap; rewrite SO; reflexivity].
    destruct (afind (p_structs p) sn) as [[[names s] ls]|] eqn:AS.
    + destruct (walk_sym p names x) as [[n o]|] eqn:W.
      * destruct (walk_sym_spec names x n o W) as [pre [post [E [-> Ho]]]].
        destruct (strand_len_pos n o Ho) as [items [l [d [Hn EL]]]]. rewrite <- EL in Ho.
        pose proof (afind_Some_In _ _ _ AS) as Hs.
        apply (step_reach_bwd _ (spos p so n o) false); [|apply (reach_spos n items l d o Hn Ho)].
        unfold S_links. rewrite !in_app_iff, !In_mk. left. split; [reflexivity|]. unfold inst_links. rewrite SO. apply in_flat_map.
        exists (sn, (names, s, ls)). split; [exact Hs|]. rewrite <- SO. apply occ_links_In.
        exists pre, n, post, o. split; [exact E | split; [rewrite <- EL; exact Ho | split; reflexivity]].
      * apply reach_self. unfold kap, struct_names. rewrite SO, AS, W. reflexivity.
    + apply reach_self. unfold kap, struct_names. rewrite SO, AS. reflexivity. Qed.

(* ---- contraction: connectivity in the declarative graph is connectivity of canonical nucleotides ---- *)
Definition Rc_links : list (link dnode) := Rc dnode kap R_links.
Theorem dgraph_contraction x q y :
  pconn dnode (S_links ++ R_links) x q y <->
  pconn dnode Rc_links (fst (kap x)) (xorb q (xorb (snd (kap x)) (snd (kap y)))) (fst (kap y)).
Proof. apply contraction; [apply kap_reach | apply kap_struct]. Qed.
End K.
