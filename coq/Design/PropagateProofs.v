(* Proofs for C07: the model of propagate_constraints returns exactly the parity closure.
   Ported from the design-round calibration spike; adds the assertion branch (never taken on
   symmetric, key-closed link graphs) and the link to the checked model [outerc]. *)
From Coq Require Import List Arith Bool Lia PeanoNat.
From PC Require Import Design.Propagate.
Import ListNotations.

Lemma mem_In x l : mem x l = true <-> In x l.
Proof. unfold mem. rewrite existsb_exists. split.
  - intros [y [Hy He]]. apply Nat.eqb_eq in He. subst. exact Hy.
  - intros H. exists x. split; [exact H | apply Nat.eqb_refl]. Qed.

Lemma add_In x y l : In y (add x l) <-> y = x \/ In y l.
Proof. unfold add. destruct (mem x l) eqn:E.
  - apply mem_In in E. split; [auto | intros [->|H]; auto].
  - rewrite in_app_iff. simpl. split; intros H; [destruct H as [H|[H|[]]]; auto | destruct H as [->|H]; auto]. Qed.

Lemma union_In m : forall l y, In y (union l m) <-> In y l \/ In y m.
Proof. induction m as [|x m IH]; intros l y; simpl.
  - tauto.
  - unfold union in *. simpl. rewrite IH, add_In. intuition congruence. Qed.

Lemma diff_In l m y : In y (diff l m) <-> In y l /\ ~ In y m.
Proof. unfold diff. rewrite filter_In. rewrite negb_true_iff. split.
  - intros [H1 H2]. split; auto. intros H3. apply mem_In in H3. congruence.
  - intros [H1 H2]. split; auto. destruct (mem y m) eqn:E; auto. apply mem_In in E. tauto. Qed.


Section Closure.
Variable eq wc : nat -> list nat.
Variable U : list nat.
Local Notation step_eq := (step_eq eq wc).
Local Notation step_wc := (step_wc eq wc).
Local Notation init := (init eq wc).

Inductive conn (x : nat) : bool -> nat -> Prop :=
| conn_refl : conn x false x
| conn_eq p y z : conn x p y -> In z (eq y) -> conn x p z
| conn_wc p y z : conn x p y -> In z (wc y) -> conn x (negb p) z.


(* the loop without the assertion, used as the proof-side reference *)
Fixpoint loop (fuel : nat) (s : st) : option st :=
  if finished s then Some s else
  match fuel with O => None | S f => loop f (step_wc (step_eq s)) end.

(* invariant *)
Record Inv (x : nat) (s : st) : Prop := {
  i_eqs : forall y, In y (eqs s) -> conn x false y;
  i_wcs : forall y, In y (wcs s) -> conn x true y;
  i_x : In x (eqs s);
  i_eqd : forall y, In y (eqd s) -> In y (eqs s) /\ (forall z, In z (eq y) -> In z (eqs s)) /\ (forall z, In z (wc y) -> In z (wcs s));
  i_wcd : forall y, In y (wcd s) -> In y (wcs s) /\ (forall z, In z (eq y) -> In z (wcs s)) /\ (forall z, In z (wc y) -> In z (eqs s)) }.

Lemma fold_union_In (f : nat -> list nat) fr : forall acc z,
  In z (fold_left (fun acc y => union acc (f y)) fr acc) <-> In z acc \/ exists y, In y fr /\ In z (f y).
Proof. induction fr as [|a fr IH]; intros acc z; simpl.
  - split; [auto | intros [H|[y [[] _]]]; auto].
  - rewrite IH, union_In. split.
    + intros [[H|H]|[y [H1 H2]]]; eauto.
    + intros [H|[y [[->|H1] H2]]]; eauto. Qed.

Lemma init_Inv x : Inv x (init x).
Proof. constructor; simpl.
  - intros y H. apply add_In in H. destruct H as [->|H]; [constructor|].
    apply union_In in H. destruct H as [[]|H]. eapply conn_eq; [constructor | exact H].
  - intros y H. apply union_In in H. destruct H as [[]|H].
    change true with (negb false). eapply conn_wc; [constructor | exact H].
  - apply add_In. auto.
  - intros y [].
  - intros y []. Qed.

Lemma step_eq_Inv x s : Inv x s -> Inv x (step_eq s).
Proof. intros [H1 H2 H3 H4 H5]. constructor; simpl.
  - intros y H. apply fold_union_In in H. destruct H as [H|[w [Hw Hy]]]; auto.
    apply diff_In in Hw. eapply conn_eq; [apply H1, Hw | exact Hy].
  - intros y H. apply fold_union_In in H. destruct H as [H|[w [Hw Hy]]]; auto.
    apply diff_In in Hw. change true with (negb false). eapply conn_wc; [apply H1, Hw | exact Hy].
  - apply fold_union_In. auto.
  - intros y H. apply union_In in H. destruct H as [H|H].
    + destruct (H4 y H) as [A [B C]]. repeat split.
      * apply fold_union_In; auto.
      * intros z Hz. apply fold_union_In. auto.
      * intros z Hz. apply fold_union_In. auto.
    + pose proof H as Hd. apply diff_In in H. destruct H as [A B]. repeat split.
      * apply fold_union_In; auto.
      * intros z Hz. apply fold_union_In. right. eauto.
      * intros z Hz. apply fold_union_In. right. eauto.
  - intros y H. destruct (H5 y H) as [A [B C]]. repeat split.
    + apply fold_union_In; auto.
    + intros z Hz. apply fold_union_In; auto.
    + intros z Hz. apply fold_union_In; auto. Qed.

Lemma step_wc_Inv x s : Inv x s -> Inv x (step_wc s).
Proof. intros [H1 H2 H3 H4 H5]. constructor; simpl.
  - intros y H. apply fold_union_In in H. destruct H as [H|[w [Hw Hy]]]; auto.
    apply diff_In in Hw. change false with (negb true). eapply conn_wc; [apply H2, Hw | exact Hy].
  - intros y H. apply fold_union_In in H. destruct H as [H|[w [Hw Hy]]]; auto.
    apply diff_In in Hw. eapply conn_eq; [apply H2, Hw | exact Hy].
  - apply fold_union_In. auto.
  - intros y H. destruct (H4 y H) as [A [B C]]. repeat split.
    + apply fold_union_In; auto.
    + intros z Hz. apply fold_union_In; auto.
    + intros z Hz. apply fold_union_In; auto.
  - intros y H. apply union_In in H. destruct H as [H|H].
    + destruct (H5 y H) as [A [B C]]. repeat split.
      * apply fold_union_In; auto.
      * intros z Hz. apply fold_union_In. auto.
      * intros z Hz. apply fold_union_In. auto.
    + pose proof H as Hd. apply diff_In in H. destruct H as [A B]. repeat split.
      * apply fold_union_In; auto.
      * intros z Hz. apply fold_union_In. right. eauto.
      * intros z Hz. apply fold_union_In. right. eauto. Qed.

Lemma loop_Inv x : forall fuel s s', Inv x s -> loop fuel s = Some s' -> Inv x s' /\ finished s' = true.
Proof. induction fuel as [|f IH]; intros s s' HI; simpl; destruct (finished s) eqn:F; intros H; try discriminate.
  - inversion H; subst; auto.
  - inversion H; subst; auto.
  - eapply IH; [|exact H]. apply step_wc_Inv, step_eq_Inv, HI. Qed.

Lemma finished_closed s : finished s = true ->
  (forall y, In y (eqs s) -> In y (eqd s)) /\ (forall y, In y (wcs s) -> In y (wcd s)).
Proof. unfold finished. destruct (diff (eqs s) (eqd s)) eqn:E1; [|discriminate].
  destruct (diff (wcs s) (wcd s)) eqn:E2; [|discriminate]. intros _. split; intros y Hy.
  - destruct (mem y (eqd s)) eqn:M; [apply mem_In, M|].
    assert (In y (diff (eqs s) (eqd s))) by (apply diff_In; split; auto; intros C; apply mem_In in C; congruence).
    rewrite E1 in H. destruct H.
  - destruct (mem y (wcd s)) eqn:M; [apply mem_In, M|].
    assert (In y (diff (wcs s) (wcd s))) by (apply diff_In; split; auto; intros C; apply mem_In in C; congruence).
    rewrite E2 in H. destruct H. Qed.

Theorem loop_exact x fuel s' : loop fuel (init x) = Some s' ->
  (forall y, In y (eqs s') <-> conn x false y) /\ (forall y, In y (wcs s') <-> conn x true y).
Proof. intros H. destruct (loop_Inv x fuel _ _ (init_Inv x) H) as [[H1 H2 H3 H4 H5] F].
  destruct (finished_closed _ F) as [C1 C2].
  assert (G : forall p y, conn x p y -> if p then In y (wcs s') else In y (eqs s')).
  { intros p y Hc. induction Hc as [|p y z Hc IH Hz|p y z Hc IH Hz].
    - exact H3.
    - destruct p; [apply (H5 y (C2 y IH)), Hz | apply (H4 y (C1 y IH)), Hz].
    - destruct p; simpl; [apply (H5 y (C2 y IH)), Hz | apply (H4 y (C1 y IH)), Hz]. }
  split; intros y; split; auto; intros Hc; [apply (G false y Hc) | apply (G true y Hc)]. Qed.


(* ---------- termination: fuel sufficiency ---------- *)
Lemma NoDup_app' (l m : list nat) : NoDup l -> NoDup m -> (forall y, In y l -> ~ In y m) -> NoDup (l ++ m).
Proof. induction l as [|a l IH]; simpl; intros Hl Hm Hd; auto.
  inversion Hl; subst. constructor.
  - rewrite in_app_iff. intros [H|H]; [auto | apply (Hd a); auto].
  - apply IH; auto. Qed.

Lemma add_NoDup x l : NoDup l -> NoDup (add x l).
Proof. intros H. unfold add. destruct (mem x l) eqn:E; auto.
  apply NoDup_app'; auto.
  - constructor; [intros []|constructor].
  - intros y Hy [<-|[]]. apply mem_In in Hy. congruence. Qed.

Lemma add_len x l : length l <= length (add x l) /\ (~ In x l -> length (add x l) = S (length l)).
Proof. unfold add. destruct (mem x l) eqn:E.
  - split; [lia|]. intros H. exfalso. apply H, mem_In, E.
  - rewrite app_length. simpl. split; lia. Qed.

Lemma union_NoDup m : forall l, NoDup l -> NoDup (union l m).
Proof. unfold union. induction m as [|x m IH]; intros l H; simpl; auto. apply IH, add_NoDup, H. Qed.

Lemma union_len m : forall l, length l <= length (union l m).
Proof. unfold union. induction m as [|x m IH]; intros l; simpl; auto.
  etransitivity; [apply (proj1 (add_len x l)) | apply IH]. Qed.

Lemma union_len_lt m : forall l, (exists x, In x m /\ ~ In x l) -> length l < length (union l m).
Proof. unfold union. induction m as [|a m IH]; intros l [x [Hx Hn]]; simpl in *; [destruct Hx|].
  destruct (Nat.eq_dec a x) as [->|Hne].
  - pose proof (proj2 (add_len x l) Hn). pose proof (union_len m (add x l)). unfold union in *. lia.
  - destruct Hx as [Hx|Hx]; [congruence|].
    assert (length (add a l) < length (fold_left (fun acc x0 => add x0 acc) m (add a l))).
    { apply IH. exists x. split; auto. rewrite add_In. intros [E|E]; [congruence | auto]. }
    pose proof (proj1 (add_len a l)). lia. Qed.

Hypothesis U_closed : forall y, In y U -> (forall z, In z (eq y) -> In z U) /\ (forall z, In z (wc y) -> In z U).

Record Bnd (s : st) : Prop := {
  b_eqs : forall y, In y (eqs s) -> In y U; b_wcs : forall y, In y (wcs s) -> In y U;
  b_eqd : forall y, In y (eqd s) -> In y (eqs s); b_wcd : forall y, In y (wcd s) -> In y (wcs s);
  b_nd1 : NoDup (eqd s); b_nd2 : NoDup (wcd s) }.

Lemma step_eq_Bnd s : Bnd s -> Bnd (step_eq s).
Proof. intros [H1 H2 H3 H4 H5 H6]. constructor; simpl; auto.
  - intros y H. apply fold_union_In in H. destruct H as [H|[w [Hw Hy]]]; auto.
    apply diff_In in Hw. destruct (U_closed w) as [UA UB]; [apply H1, Hw | auto].
  - intros y H. apply fold_union_In in H. destruct H as [H|[w [Hw Hy]]]; auto.
    apply diff_In in Hw. destruct (U_closed w) as [UA UB]; [apply H1, Hw | auto].
  - intros y H. apply fold_union_In. left. apply union_In in H. destruct H as [H|H]; auto.
    apply diff_In in H. tauto.
  - intros y H. apply fold_union_In. left. auto.
  - apply union_NoDup, H5. Qed.

Lemma step_wc_Bnd s : Bnd s -> Bnd (step_wc s).
Proof. intros [H1 H2 H3 H4 H5 H6]. constructor; simpl; auto.
  - intros y H. apply fold_union_In in H. destruct H as [H|[w [Hw Hy]]]; auto.
    apply diff_In in Hw. destruct (U_closed w) as [UA UB]; [apply H2, Hw | auto].
  - intros y H. apply fold_union_In in H. destruct H as [H|[w [Hw Hy]]]; auto.
    apply diff_In in Hw. destruct (U_closed w) as [UA UB]; [apply H2, Hw | auto].
  - intros y H. apply fold_union_In. left. auto.
  - intros y H. apply fold_union_In. left. apply union_In in H. destruct H as [H|H]; auto.
    apply diff_In in H. tauto.
  - apply union_NoDup, H6. Qed.

Definition donelen (s : st) := length (eqd s) + length (wcd s).

Lemma Bnd_bound s : Bnd s -> donelen s <= 2 * length U.
Proof. intros [H1 H2 H3 H4 H5 H6]. unfold donelen.
  assert (length (eqd s) <= length U) by (apply NoDup_incl_length; auto; intros y Hy; auto).
  assert (length (wcd s) <= length U) by (apply NoDup_incl_length; auto; intros y Hy; auto). lia. Qed.

Lemma step_progress s : finished s = false -> donelen s < donelen (step_wc (step_eq s)).
Proof. unfold finished, donelen. intros F. simpl.
  destruct (diff (eqs s) (eqd s)) as [|a fe] eqn:E1.
  - (* eq frontier empty: step_eq leaves the sets unchanged; wc frontier non-empty *)
    destruct (diff (wcs s) (wcd s)) as [|b fw] eqn:E2; [discriminate|].
    cbn [fold_left]. rewrite E2.
    assert (In b (diff (wcs s) (wcd s))) by (rewrite E2; left; auto). apply diff_In in H.
    assert (length (wcd s) < length (union (wcd s) (b :: fw))).
    { apply union_len_lt. exists b. split; [left; auto | tauto]. }
    unfold union in *. simpl in *. lia.
  - assert (In a (diff (eqs s) (eqd s))) by (rewrite E1; left; auto). apply diff_In in H.
    assert (length (eqd s) < length (union (eqd s) (a :: fe))).
    { apply union_len_lt. exists a. split; [left; auto | tauto]. }
    pose proof (union_len (diff (fold_left (fun acc y => union acc (wc y)) (a :: fe) (wcs s)) (wcd s)) (wcd s)).
    lia. Qed.

Lemma loop_terminates : forall fuel s, Bnd s -> 2 * length U - donelen s < fuel -> exists s', loop fuel s = Some s'.
Proof. induction fuel as [|f IH]; intros s HB Hf; [lia|]. simpl.
  destruct (finished s) eqn:F; [eauto|].
  apply IH.
  - apply step_wc_Bnd, step_eq_Bnd, HB.
  - pose proof (step_progress s F). pose proof (Bnd_bound _ (step_wc_Bnd _ (step_eq_Bnd _ HB))). lia. Qed.

Lemma init_Bnd x : In x U -> Bnd (init x).
Proof. intros Hx. constructor; simpl; try (intros y []); try constructor.
  - intros y H. apply add_In in H. destruct H as [->|H]; auto. apply union_In in H. destruct H as [[]|H].
    destruct (U_closed x Hx) as [UA UB]; auto.
  - intros y H. apply union_In in H. destruct H as [[]|H]. destruct (U_closed x Hx) as [UA UB]; auto. Qed.

Theorem closure_total_exact x : In x U -> exists s', loop (2 * length U + 1) (init x) = Some s' /\
  (forall y, In y (eqs s') <-> conn x false y) /\ (forall y, In y (wcs s') <-> conn x true y).
Proof. intros Hx. destruct (loop_terminates (2 * length U + 1) (init x) (init_Bnd x Hx)) as [s' Hs]; [lia|].
  exists s'. split; auto. eapply loop_exact, Hs. Qed.


(* ---------- symmetry / transitivity of conn (needs symmetric links) ---------- *)
Hypothesis eq_sym : forall y z, In z (eq y) -> In y (eq z).
Hypothesis wc_sym : forall y z, In z (wc y) -> In y (wc z).

Lemma conn_trans x p y : conn x p y -> forall q z, conn y q z -> conn x (xorb p q) z.
Proof. intros Hxy q z Hyz. induction Hyz as [|q w z Hyw IH Hz|q w z Hyw IH Hz].
  - rewrite xorb_false_r. exact Hxy.
  - eapply conn_eq; eauto.
  - replace (xorb p (negb q)) with (negb (xorb p q)) by (destruct p, q; reflexivity).
    eapply conn_wc; eauto. Qed.

Lemma conn_sym x p y : conn x p y -> conn y p x.
Proof. intros H. induction H as [|p y z Hxy IH Hz|p y z Hxy IH Hz].
  - constructor.
  - assert (S1 : conn z false y) by (eapply conn_eq; [constructor | apply eq_sym, Hz]).
    pose proof (conn_trans z false y S1 p x IH) as T. destruct p; exact T.
  - assert (S1 : conn z true y) by (change true with (negb false); eapply conn_wc; [constructor | apply wc_sym, Hz]).
    pose proof (conn_trans z true y S1 p x IH) as T. destruct p; exact T. Qed.

Lemma conn_shift x p y : conn x p y -> forall q z, conn y q z <-> conn x (xorb p q) z.
Proof. intros H q z. split.
  - apply conn_trans, H.
  - intros H2. pose proof (conn_trans y p x (conn_sym _ _ _ H) _ _ H2) as T.
    replace (xorb p (xorb p q)) with q in T by (destruct p, q; reflexivity). exact T. Qed.

(* ---------- outer loop over keys ---------- *)

(* ---------- the checked loop never asserts and agrees with [loop] ---------- *)
Local Notation loopc := (loopc eq wc U).
Local Notation outerc := (outerc eq wc U).

Definition good (m : tbl) : Prop := forall y E W, get m y = Some (E, W) ->
  (forall z, In z E <-> conn y false z) /\ (forall z, In z W <-> conn y true z) /\
  (forall z, In z E \/ In z W -> get m z <> None).

Lemma get_assign ys v : forall m y, get (assign m ys v) y = if mem y ys then Some v else get m y.
Proof. unfold assign. induction ys as [|a ys IH]; intros m y; simpl; auto.
  rewrite IH. simpl. unfold mem. simpl.
  destruct (existsb (Nat.eqb y) ys) eqn:E1; rewrite ?orb_true_r; auto.
  rewrite orb_false_r. rewrite (Nat.eqb_sym a y). destruct (Nat.eqb y a); auto. Qed.

Lemma fresh x m : good m -> get m x = None -> forall p y, conn x p y -> get m y = None.
Proof. intros G Hx p y Hc. destruct (get m y) as [[E W]|] eqn:Gy; auto. exfalso.
  destruct (G y E W Gy) as [HE [HW HF]]. pose proof (conn_sym _ _ _ Hc) as Hs.
  apply (HF x); [|exact Hx]. destruct p; [right; apply HW | left; apply HE]; exact Hs. Qed.

Lemma chk_true x m fr : (forall y, In y fr -> In y U /\ exists p, conn x p y) ->
  (forall p y, conn x p y -> get m y = None) -> chk U m fr = true.
Proof. unfold chk. intros H F. apply forallb_forall. intros y Hy. destruct (H y Hy) as [HU [p Hc]].
  rewrite (F p y Hc). rewrite (proj2 (mem_In y U) HU). reflexivity. Qed.

Lemma loopc_loop x m : (forall p y, conn x p y -> get m y = None) -> forall fuel s, Inv x s -> Bnd s ->
  loopc m fuel s = match loop fuel s with Some s' => LOk s' | None => LFuel end.
Proof. intros F. induction fuel as [|f IH]; intros s HI HB; cbn [Propagate.loopc loop];
  destruct (finished s) eqn:Fi; auto.
  rewrite (chk_true x m (diff (eqs s) (eqd s))); [| | exact F].
  - pose proof (step_eq_Inv x s HI) as HI1. pose proof (step_eq_Bnd s HB) as HB1.
    rewrite (chk_true x m (diff (wcs (step_eq s)) (wcd (step_eq s)))); [| | exact F].
    + apply IH; [apply step_wc_Inv, HI1 | apply step_wc_Bnd, HB1].
    + intros y Hy. apply diff_In in Hy. destruct Hy as [Hy _]. split; [apply (b_wcs _ HB1), Hy|].
      exists true. apply (i_wcs _ _ HI1), Hy.
  - intros y Hy. apply diff_In in Hy. destruct Hy as [Hy _]. split; [apply (b_eqs _ HB), Hy|].
    exists false. apply (i_eqs _ _ HI), Hy. Qed.

Lemma good_assign x m s' :
  (forall y, In y (eqs s') <-> conn x false y) -> (forall y, In y (wcs s') <-> conn x true y) ->
  good m -> good (assign (assign m (eqs s') (eqs s', wcs s')) (wcs s') (wcs s', eqs s')).
Proof. intros HE HW G y E W. rewrite !get_assign.
  assert (NN : forall z, (In z (eqs s') \/ In z (wcs s')) ->
     get (assign (assign m (eqs s') (eqs s', wcs s')) (wcs s') (wcs s', eqs s')) z <> None).
  { intros z Hz. rewrite !get_assign. destruct (mem z (wcs s')) eqn:M2; [discriminate|].
    destruct (mem z (eqs s')) eqn:M1; [discriminate|]. exfalso.
    destruct Hz as [Hz|Hz]; apply mem_In in Hz; congruence. }
  destruct (mem y (wcs s')) eqn:M2.
  - intros H. inversion H; subst. apply mem_In, HW in M2.
    split; [|split].
    + intros z. rewrite (conn_shift x true y M2). simpl. apply HW.
    + intros z. rewrite (conn_shift x true y M2). simpl. apply HE.
    + intros z Hz. apply NN. tauto.
  - destruct (mem y (eqs s')) eqn:M1.
    + intros H. inversion H; subst. apply mem_In, HE in M1.
      split; [|split].
      * intros z. rewrite (conn_shift x false y M1). simpl. apply HE.
      * intros z. rewrite (conn_shift x false y M1). simpl. apply HW.
      * intros z Hz. apply NN. tauto.
    + intros H. destruct (G y E W H) as [A [B C]]. split; [exact A | split; [exact B|]].
      intros z Hz. rewrite !get_assign. destruct (mem z (wcs s')); [discriminate|].
      destruct (mem z (eqs s')); [discriminate|]. apply C, Hz. Qed.

Lemma loopc_total_exact x m : In x U -> good m -> get m x = None ->
  exists s', loopc m (fuel0 U) (init x) = LOk s' /\
  (forall y, In y (eqs s') <-> conn x false y) /\ (forall y, In y (wcs s') <-> conn x true y).
Proof. intros Hx G Gx. destruct (closure_total_exact x Hx) as [s' [Hs HH]].
  exists s'. split; [|exact HH].
  rewrite (loopc_loop x m (fresh x m G Gx) (fuel0 U) (init x) (init_Inv x) (init_Bnd x Hx)).
  unfold fuel0. rewrite Hs. reflexivity. Qed.

Lemma outerc_good : forall ks m, (forall x, In x ks -> In x U) -> good m ->
  exists m', outerc ks m = OOk m' /\ good m' /\ (forall x, In x ks -> get m' x <> None) /\
             (forall y, get m y <> None -> get m' y <> None).
Proof. induction ks as [|x ks IH]; intros m HU G; cbn [Propagate.outerc].
  - exists m. split; [reflexivity | split; [exact G | split; [intros x [] | auto]]].
  - destruct (get m x) eqn:Gx.
    + destruct (IH m (fun y Hy => HU y (or_intror Hy)) G) as [m' [E [A [B C]]]].
      exists m'. split; [exact E | split; [exact A | split; [|exact C]]].
      intros y [Hxy|Hy]; auto. subst y. apply C. congruence.
    + destruct (loopc_total_exact x m (HU x (or_introl eq_refl)) G Gx) as [s' [Hs [HE HW]]].
      rewrite Hs.
      destruct (IH _ (fun y Hy => HU y (or_intror Hy)) (good_assign x m s' HE HW G)) as [m' [E [A [B C]]]].
      exists m'. split; [exact E | split; [exact A | split]].
      * intros y [Hxy|Hy]; auto. subst y. apply C. rewrite !get_assign.
        assert (M : mem x (eqs s') = true) by (apply mem_In, HE; constructor).
        destruct (mem x (wcs s')); [discriminate | rewrite M; discriminate].
      * intros y Hy. apply C. rewrite !get_assign.
        destruct (mem y (wcs s')); [discriminate|]. destruct (mem y (eqs s')); [discriminate | exact Hy]. Qed.

(* The model of propagate_constraints never runs out of fuel, never asserts, and returns for
   every key exactly its even-parity and odd-parity connected items. *)
Theorem propagate_exact : exists m, propagate eq wc U = OOk m /\
  forall x, In x U -> exists E W, get m x = Some (E, W) /\
    (forall z, In z E <-> conn x false z) /\ (forall z, In z W <-> conn x true z).
Proof. assert (G0 : good []) by (intros y E W H; discriminate).
  destruct (outerc_good U [] (fun _ H => H) G0) as [m [E [A [B _]]]].
  exists m. split; [exact E|]. intros x Hx.
  destruct (get m x) as [[Ex Wx]|] eqn:Gx; [|exfalso; apply (B x Hx Gx)].
  exists Ex, Wx. split; [reflexivity|]. destruct (A x Ex Wx Gx) as [P [Q _]]. split; assumption. Qed.

(* the table is defined on keys only *)
Lemma conn_U x : In x U -> forall p y, conn x p y -> In y U.
Proof. intros Hx p y H. induction H as [|p y z H IH Hz|p y z H IH Hz]; [exact Hx | apply (proj1 (U_closed y IH) z Hz) | apply (proj2 (U_closed y IH) z Hz)]. Qed.
Lemma outerc_dom : forall ks m m', (forall x, In x ks -> In x U) -> good m -> (forall y, get m y <> None -> In y U) ->
  outerc ks m = OOk m' -> forall y, get m' y <> None -> In y U.
Proof. induction ks as [|x ks IH]; intros m m' HU G D E; cbn [Propagate.outerc] in E.
  - inversion E; subst. exact D.
  - destruct (get m x) eqn:Gx.
    + apply (IH m m' (fun y Hy => HU y (or_intror Hy)) G D E).
    + destruct (loopc_total_exact x m (HU x (or_introl eq_refl)) G Gx) as [s' [Hs [HE HW]]]. rewrite Hs in E.
      apply (IH _ m' (fun y Hy => HU y (or_intror Hy)) (good_assign x m s' HE HW G)); [|exact E].
      intros y Hy. rewrite !get_assign in Hy. destruct (mem y (wcs s')) eqn:M1.
      * apply mem_In in M1. apply HW in M1. apply (conn_U x (HU x (or_introl eq_refl)) _ _ M1).
      * destruct (mem y (eqs s')) eqn:M2; [|apply D, Hy]. apply mem_In in M2. apply HE in M2. apply (conn_U x (HU x (or_introl eq_refl)) _ _ M2). Qed.
Theorem propagate_dom m : propagate eq wc U = OOk m -> forall y, get m y <> None -> In y U.
Proof. intros E. assert (G0 : good []) by (intros y E0 W H; discriminate).
  apply (outerc_dom U [] m (fun _ H => H) G0); [intros y H; exfalso; apply H; reflexivity | exact E]. Qed.

End Closure.

(* conn only depends on link membership, not on the order of adjacency lists *)
Lemma conn_ext eq wc eq' wc' :
  (forall y z, In z (eq y) <-> In z (eq' y)) -> (forall y z, In z (wc y) <-> In z (wc' y)) ->
  forall x p y, conn eq wc x p y -> conn eq' wc' x p y.
Proof. intros He Hw x p y H. induction H as [|p y z H IH Hz|p y z H IH Hz].
  - constructor.
  - eapply conn_eq; [exact IH | apply He, Hz].
  - eapply conn_wc; [exact IH | apply Hw, Hz]. Qed.

Definition wf_graph (eq wc : nat -> list nat) (U : list nat) : Prop :=
  (forall y, In y U -> (forall z, In z (eq y) -> In z U) /\ (forall z, In z (wc y) -> In z U)) /\
  (forall y z, In z (eq y) -> In y (eq z)) /\ (forall y z, In z (wc y) -> In y (wc z)).

(* Order independence: two runs over the same link graph, with the keys and every adjacency
   list enumerated in any other order, return the same sets for every key. *)
Theorem propagate_order_independent eq wc U eq' wc' U' :
  wf_graph eq wc U -> wf_graph eq' wc' U' ->
  (forall x, In x U <-> In x U') ->
  (forall y z, In z (eq y) <-> In z (eq' y)) -> (forall y z, In z (wc y) <-> In z (wc' y)) ->
  exists m m', propagate eq wc U = OOk m /\ propagate eq' wc' U' = OOk m' /\
    forall x, In x U -> exists E W E' W', get m x = Some (E, W) /\ get m' x = Some (E', W') /\
      (forall z, In z E <-> In z E') /\ (forall z, In z W <-> In z W').
Proof. intros [C1 [S1 T1]] [C2 [S2 T2]] HU He Hw.
  destruct (propagate_exact eq wc U C1 S1 T1) as [m [Hm P]].
  destruct (propagate_exact eq' wc' U' C2 S2 T2) as [m' [Hm' P']].
  exists m, m'. split; [exact Hm | split; [exact Hm'|]]. intros x Hx.
  destruct (P x Hx) as [E [W [G [A B]]]]. destruct (P' x (proj1 (HU x) Hx)) as [E' [W' [G' [A' B']]]].
  exists E, W, E', W'. split; [exact G | split; [exact G'|]].
  assert (X : forall p z, conn eq wc x p z <-> conn eq' wc' x p z).
  { intros p z. split; apply conn_ext; auto; intros; symmetry; auto. }
  split; intros z; [rewrite A, A' | rewrite B, B']; apply X. Qed.

(* non-vacuity: a 3-item graph with an eq link and a wc link satisfies the hypotheses *)
Definition ex_eq (y : nat) : list nat := match y with 0 => [1] | 1 => [0] | _ => [] end.
Definition ex_wc (y : nat) : list nat := match y with 1 => [2] | 2 => [1] | _ => [] end.
Example wf_example : wf_graph ex_eq ex_wc [0; 1; 2].
Proof. unfold wf_graph, ex_eq, ex_wc. split; [|split].
  - intros y Hy. simpl in Hy. destruct Hy as [<-|[<-|[<-|[]]]]; simpl; split; intros z Hz; intuition lia.
  - intros y z. destruct y as [|[|y]]; simpl; intros H; try tauto; destruct H as [<-|[]]; simpl; auto.
  - intros y z. destruct y as [|[|[|y]]]; simpl; intros H; try tauto; destruct H as [<-|[]]; simpl; auto.
Qed.
