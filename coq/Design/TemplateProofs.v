(* C04 / C05 / C15: template propagation of the designer model.  For every exact closure table:
   on success every node's code denotes exactly the intersection of the templates of everything
   forced equal to it and the complements of the templates of everything forced complementary
   to it; failure is reported exactly when some node is forced complementary to itself or some
   class has no common base; and success is equivalent to the existence of a nucleotide
   assignment satisfying every template and every link. *)
From Coq Require Import List String Ascii Arith Bool Lia.
From PC Require Import Base.Codes Base.Tables Comp.Syntax Comp.Compile Design.Propagate Design.PropagateProofs
  Design.Designer Design.DesignerProofs.
Import ListNotations.
Local Open Scope list_scope.

(* ---- base sets ---- *)
Definition bfull : bset := mk true true true true.
Definition gset (c : ascii) : bset := match group c with Some s => s | None => bfull end.

Lemma bmem_binter b x y : bmem b (binter x y) = bmem b x && bmem b y.
Proof. destruct b; reflexivity. Qed.
Lemma bmem_compl b s : bmem b (bset_compl s) = bmem (bcompl b) s.
Proof. destruct b; reflexivity. Qed.
Lemma bcompl_invol b : bcompl (bcompl b) = b. Proof. destruct b; reflexivity. Qed.
Lemma bempty_false s : bempty s = false <-> exists b, bmem b s = true.
Proof. destruct s as [a c g t]. unfold bempty. simpl. split.
  - intros H. apply negb_false_iff in H. destruct a; [exists bA; reflexivity|]. destruct c; [exists bC; reflexivity|].
    destruct g; [exists bG; reflexivity|]. destruct t; [exists bT; reflexivity | discriminate].
  - intros [[] H]; simpl in H; subst; apply negb_false_iff; rewrite ?orb_true_r; reflexivity. Qed.
Lemma bmem_fold b l : forall s, bmem b (fold_left binter l s) = bmem b s && forallb (bmem b) l.
Proof. induction l as [|x l IH]; intros s; simpl; [rewrite andb_true_r; reflexivity|].
  rewrite IH, bmem_binter, andb_assoc. reflexivity. Qed.
Lemma bempty_binter_l x y : bempty x = true -> bempty (binter x y) = true.
Proof. destruct x as [a c g t], y as [a' c' g' t']. unfold bempty. simpl. intros H. apply negb_true_iff in H.
  apply orb_false_iff in H. destruct H as [H ->]. apply orb_false_iff in H. destruct H as [H ->].
  apply orb_false_iff in H. destruct H as [-> ->]. reflexivity. Qed.
Lemma bempty_fold l : forall s, bempty s = true -> bempty (fold_left binter l s) = true.
Proof. induction l as [|x l IH]; intros s H; simpl; [exact H | apply IH, bempty_binter_l, H]. Qed.

(* ---- one intersection step of propagate_templates ---- *)
Definition tstep (acc : option ascii * bool) (c : ascii) : option ascii * bool :=
  match acc with
  | (Some a, _) => match code_inter a c with IOk r => (Some r, true) | IEmpty => (None, true) | IKeyErr => (None, false) end
  | bad => bad end.

Lemma tstep_none b c : tstep (None, b) c = (None, b). Proof. reflexivity. Qed.
Lemma fold_tstep_none b cs : fold_left tstep cs (None, b) = (None, b).
Proof. induction cs as [|c cs IH]; simpl; [reflexivity | exact IH]. Qed.

Lemma tstep_spec a ga b0 c gc : group a = Some ga -> group c = Some gc ->
  (bempty (binter ga gc) = false -> exists r, tstep (Some a, b0) c = (Some r, true) /\ group r = Some (binter ga gc)) /\
  (bempty (binter ga gc) = true -> tstep (Some a, b0) c = (None, true)).
Proof. intros Ha Hc. split; intros E.
  - destruct (inter_closed a c ga gc Ha Hc E) as [r [H1 [H2 _]]]. exists r. unfold tstep. rewrite H1. auto.
  - unfold tstep, code_inter. rewrite Ha, Hc, E. reflexivity. Qed.

Lemma fold_tstep cs : forall a ga b0, group a = Some ga -> bempty ga = false -> (forall c, In c cs -> group c <> None) ->
  let S := fold_left binter (map gset cs) ga in
  (bempty S = false -> exists r b, fold_left tstep cs (Some a, b0) = (Some r, b) /\ group r = Some S) /\
  (bempty S = true -> fold_left tstep cs (Some a, b0) = (None, true)).
Proof. induction cs as [|c cs IH]; intros a ga b0 Ha NE V; cbn [fold_left map].
  - split; [intros _; exists a, b0; auto | intros H; rewrite NE in H; discriminate].
  - destruct (group c) as [gc|] eqn:Hc; [|exfalso; apply (V c (or_introl eq_refl)), Hc].
    assert (G : gset c = gc) by (unfold gset; rewrite Hc; reflexivity). rewrite G.
    destruct (tstep_spec a ga b0 c gc Ha Hc) as [T1 T2].
    destruct (bempty (binter ga gc)) eqn:E.
    + rewrite (T2 eq_refl), fold_tstep_none. split; [|intros _; reflexivity].
      intros H. rewrite (bempty_fold _ _ E) in H. discriminate.
    + destruct (T1 eq_refl) as [r [-> Hr]].
      apply (IH r (binter ga gc) true Hr E (fun c' H' => V c' (or_intror H'))). Qed.

Lemma group_nonempty c s : group c = Some s -> bempty s = false.
Proof. assert (H : forall c, match group c with Some s => negb (bempty s) | None => true end = true)
    by (apply ascii_forall; vm_compute; reflexivity).
  intros Hc. specialize (H c). rewrite Hc in H. apply negb_true_iff, H. Qed.

(* ---- the template table ---- *)
Lemma st_of_set st ys c : forall x, In x (map fst st) -> st_of (st_set st ys c) x = if mem x ys then c else st_of st x.
Proof. unfold st_of, st_set. induction st as [|[k v] st IH]; intros x Hx; [destruct Hx|]. simpl.
  destruct (mem k ys) eqn:M; simpl; destruct (Nat.eqb k x) eqn:Q.
  - apply Nat.eqb_eq in Q. subst. rewrite M. reflexivity.
  - apply IH. destruct Hx as [Hx|Hx]; [simpl in Hx; subst; rewrite Nat.eqb_refl in Q; discriminate | exact Hx].
  - apply Nat.eqb_eq in Q. subst. rewrite M. reflexivity.
  - apply IH. destruct Hx as [Hx|Hx]; [simpl in Hx; subst; rewrite Nat.eqb_refl in Q; discriminate | exact Hx]. Qed.
Lemma st_set_keys st ys c : map fst (st_set st ys c) = map fst st.
Proof. unfold st_set. induction st as [|[k v] st IH]; simpl; [reflexivity|]. rewrite IH. destruct (mem k ys); reflexivity. Qed.

Definition foldE (st : list (nat * ascii)) (E : list nat) (a0 : option ascii * bool) :=
  fold_left (fun acc y => tstep acc (st_of st y)) E a0.
Definition foldW (st : list (nat * ascii)) (W : list nat) (a1 : option ascii * bool) :=
  fold_left (fun acc y => match compl_code (st_of st y) with Some c => tstep acc c | None => (None, false) end) W a1.

Lemma templates_cons m x ks st done : templates m (x :: ks) st done =
  if mem x done then templates m ks st done else
  match get m x with
  | None => (None, false)
  | Some (E, W) =>
      if mem x W then (None, true) else
      match foldW st W (foldE st E (Some (st_of st x), true)) with
      | (Some a, _) => match compl_code a with
                       | Some ca => templates m ks (st_set (st_set st E a) W ca) (union (union done E) W)
                       | None => (None, false) end
      | (None, b) => (None, b)
      end
  end.
Proof. reflexivity. Qed.

Lemma fold_left_map_f {A B C} (f : A -> B -> A) (g : C -> B) l : forall a, fold_left (fun acc y => f acc (g y)) l a = fold_left f (map g l) a.
Proof. induction l as [|x l IH]; intros a; simpl; [reflexivity | apply IH]. Qed.

Definition ccode (c : ascii) : ascii := match compl_code c with Some c' => c' | None => c end.
Lemma foldW_valid st W a1 : (forall y, In y W -> group (st_of st y) <> None) ->
  foldW st W a1 = fold_left tstep (map (fun y => ccode (st_of st y)) W) a1.
Proof. unfold foldW. revert a1. induction W as [|y W IH]; intros a1 V; simpl; [reflexivity|].
  destruct (group (st_of st y)) as [s|] eqn:G; [|exfalso; apply (V y (or_introl eq_refl)), G].
  destruct (compl_sound _ _ G) as [c' [H1 H2]].
  assert (Q : ccode (st_of st y) = c') by (unfold ccode; rewrite H1; reflexivity). rewrite H1, Q. apply IH. intros z Hz. apply V. right. exact Hz. Qed.
Lemma gset_ccode c : group c <> None -> group (ccode c) <> None /\ gset (ccode c) = bset_compl (gset c).
Proof. intros V. destruct (group c) as [s|] eqn:G; [|contradiction]. destruct (compl_sound _ _ G) as [c' [H1 H2]].
  unfold ccode, gset. rewrite H1, H2, G. split; [discriminate | reflexivity]. Qed.

Section Templates.
Variable g : cgraph.
Variable m : tbl.
Hypothesis GC : graph_closed g = true.
Hypothesis Hm : forall x, In x (g_keys g) -> exists E W, get m x = Some (E, W) /\
    (forall z, In z E <-> gconn g x false z) /\ (forall z, In z W <-> gconn g x true z).
Variable st0 : list (nat * ascii).
Hypothesis SK : map fst st0 = g_keys g.
Hypothesis V0 : forall x, In x (g_keys g) -> group (st_of st0 x) <> None.

Definition sem0 (y : nat) : bset := gset (st_of st0 y).
(* the bases a node may take: in every template of its equality class, and complementary to a
   base of every template of its complementary class *)
Definition in_class (x : nat) (b : base) : Prop :=
  (forall y, gconn g x false y -> bmem b (sem0 y) = true) /\
  (forall y, gconn g x true y -> bmem (bcompl b) (sem0 y) = true).

Lemma csym x p y : gconn g x p y -> gconn g y p x.
Proof. apply conn_sym; intros a b; apply adj_sym. Qed.
Lemma cshift x p y : gconn g x p y -> forall q z, gconn g y q z <-> gconn g x (xorb p q) z.
Proof. apply conn_shift; intros a b; apply adj_sym. Qed.
Lemma conn_keys x p y : In x (g_keys g) -> gconn g x p y -> In y (g_keys g).
Proof. intros Hx H. induction H as [|p y z H IH Hz|p y z H IH Hz]; [exact Hx | |];
  destruct (graph_closed_spec g GC y IH) as [A B]; [apply A, Hz | apply B, Hz]. Qed.

Lemma in_class_shift x p y b : gconn g x p y -> (in_class y b <-> in_class x (if p then bcompl b else b)).
Proof. intros C. unfold in_class. destruct p.
  - rewrite bcompl_invol. split; intros [A B]; split; intros z Hz.
    + apply B. apply (cshift x true y C true z). exact Hz.
    + apply A. apply (cshift x true y C false z). exact Hz.
    + apply B. apply (cshift x true y C false z) in Hz. exact Hz.
    + apply A. apply (cshift x true y C true z) in Hz. exact Hz.
  - split; intros [A B]; split; intros z Hz.
    + apply A. apply (cshift x false y C false z). exact Hz.
    + apply B. apply (cshift x false y C true z). exact Hz.
    + apply A. apply (cshift x false y C false z) in Hz. exact Hz.
    + apply B. apply (cshift x false y C true z) in Hz. exact Hz. Qed.

Definition cset (E W : list nat) (x : nat) : bset :=
  fold_left binter (map (fun y => gset (ccode (st_of st0 y))) W) (fold_left binter (map sem0 E) (sem0 x)).

Lemma cset_mem x E W b : In x (g_keys g) ->
  (forall z, In z E <-> gconn g x false z) -> (forall z, In z W <-> gconn g x true z) ->
  (bmem b (cset E W x) = true <-> in_class x b).
Proof. intros Hx HE HW. unfold cset. rewrite !bmem_fold, !andb_true_iff, !forallb_forall. unfold in_class. split.
  - intros [[A B] C]. split.
    + intros y Hy. apply B. apply in_map_iff. exists y. split; [reflexivity | apply HE, Hy].
    + intros y Hy. assert (Q : bmem b (gset (ccode (st_of st0 y))) = true).
      { apply C. apply in_map_iff. exists y. split; [reflexivity | apply HW, Hy]. }
      destruct (gset_ccode (st_of st0 y) (V0 y (conn_keys x true y Hx Hy))) as [_ G]. rewrite G, bmem_compl in Q. exact Q.
  - intros [A B]. split; [split|].
    + apply A. constructor.
    + intros s Hs. apply in_map_iff in Hs. destruct Hs as [y [<- Hy]]. apply A, HE, Hy.
    + intros s Hs. apply in_map_iff in Hs. destruct Hs as [y [<- Hy]]. apply HW in Hy.
      destruct (gset_ccode (st_of st0 y) (V0 y (conn_keys x true y Hx Hy))) as [_ G]. rewrite G, bmem_compl. apply B, Hy. Qed.

Record TI (st : list (nat * ascii)) (done : list nat) : Prop := {
  ti_un : forall x, In x (g_keys g) -> ~ In x done -> st_of st x = st_of st0 x;
  ti_done : forall d, In d done -> In d (g_keys g) /\ exists s, group (st_of st d) = Some s /\ bempty s = false /\
                                                   forall b, bmem b s = true <-> in_class d b;
  ti_closed : forall d p y, In d done -> gconn g d p y -> In y done;
  ti_keys : map fst st = g_keys g }.

Lemma TI_init : TI st0 [].
Proof. constructor; [reflexivity | intros d [] | intros d p y [] | exact SK]. Qed.

(* one class processed: what the two folds compute *)
Lemma class_fold st done x E W : TI st done -> In x (g_keys g) -> ~ In x done ->
  (forall z, In z E <-> gconn g x false z) -> (forall z, In z W <-> gconn g x true z) ->
  (bempty (cset E W x) = false -> exists a b, foldW st W (foldE st E (Some (st_of st x), true)) = (Some a, b) /\ group a = Some (cset E W x)) /\
  (bempty (cset E W x) = true -> foldW st W (foldE st E (Some (st_of st x), true)) = (None, true)).
Proof. intros [T1 T2 T3 T4] Hx Nx HE HW.
  assert (ND : forall p y, gconn g x p y -> ~ In y done).
  { intros p y C Hy. apply Nx. apply (T3 y p x Hy). apply csym, C. }
  assert (U : forall p y, gconn g x p y -> st_of st y = st_of st0 y).
  { intros p y C. apply T1; [apply (conn_keys x p y Hx C) | apply (ND p y C)]. }
  assert (EE : map (st_of st) E = map (st_of st0) E).
  { apply map_ext_in. intros y Hy. apply (U false y), HE, Hy. }
  assert (WW : map (fun y => ccode (st_of st y)) W = map (fun y => ccode (st_of st0 y)) W).
  { apply map_ext_in. intros y Hy. rewrite (U true y); [reflexivity | apply HW, Hy]. }
  assert (VW : forall y, In y W -> group (st_of st y) <> None).
  { intros y Hy. apply HW in Hy. rewrite (U true y Hy). apply V0, (conn_keys x true y Hx Hy). }
  rewrite (foldW_valid st W _ VW), WW. unfold foldE. rewrite (fold_left_map_f tstep (st_of st) E), EE.
  rewrite (U false x (conn_refl _ _ x)).
  destruct (group (st_of st0 x)) as [sx|] eqn:Gx; [|exfalso; apply (V0 x Hx), Gx].
  assert (SX : sem0 x = sx) by (unfold sem0, gset; rewrite Gx; reflexivity).
  assert (VE : forall c, In c (map (st_of st0) E) -> group c <> None).
  { intros c Hc. apply in_map_iff in Hc. destruct Hc as [y [<- Hy]]. apply V0, (conn_keys x false y Hx), HE, Hy. }
  assert (VW' : forall c, In c (map (fun y => ccode (st_of st0 y)) W) -> group c <> None).
  { intros c Hc. apply in_map_iff in Hc. destruct Hc as [y [<- Hy]]. apply gset_ccode, V0, (conn_keys x true y Hx), HW, Hy. }
  destruct (fold_tstep (map (st_of st0) E) (st_of st0 x) sx true Gx (group_nonempty _ _ Gx) VE) as [F1 F2].
  cbv zeta in F1, F2. rewrite map_map in F1, F2.
  unfold cset, sem0. unfold sem0 in SX. rewrite SX.
  set (S1 := fold_left binter (map (fun y => gset (st_of st0 y)) E) sx) in *.
  destruct (bempty S1) eqn:E1.
  - rewrite (F2 eq_refl), fold_tstep_none. split; [|intros _; reflexivity].
    intros H. rewrite (bempty_fold _ _ E1) in H. discriminate.
  - destruct (F1 eq_refl) as [r [b [-> Hr]]].
    destruct (fold_tstep (map (fun y => ccode (st_of st0 y)) W) r S1 b Hr E1 VW') as [G1 G2].
    cbv zeta in G1, G2. rewrite map_map in G1, G2. split; [exact G1 | exact G2]. Qed.

Lemma class_disjoint x y : ~ gconn g x true x -> gconn g x false y -> ~ gconn g x true y.
Proof. intros N A B. apply N. pose proof (proj1 (cshift x false y A true x)) as T. simpl in T.
  apply csym in B. pose proof (proj1 (cshift x false y A true x) B). exact H. Qed.

Lemma templates_step st done x E W a ca : TI st done -> In x (g_keys g) -> ~ In x done ->
  (forall z, In z E <-> gconn g x false z) -> (forall z, In z W <-> gconn g x true z) ->
  mem x W = false -> group a = Some (cset E W x) -> bempty (cset E W x) = false -> compl_code a = Some ca ->
  TI (st_set (st_set st E a) W ca) (union (union done E) W).
Proof. intros T Hx Nx HE HW MW Ga NE Ca. pose proof T as [T1 T2 T3 T4].
  assert (NX : ~ gconn g x true x) by (intros C; apply HW in C; apply mem_In in C; congruence).
  assert (ND : forall p y, gconn g x p y -> ~ In y done).
  { intros p y C Hy. apply Nx. apply (T3 y p x Hy). apply csym, C. }
  assert (KS : forall y, In y (g_keys g) -> In y (map fst (st_set st E a))) by (intros y Hy; rewrite st_set_keys, T4; exact Hy).
  assert (KS0 : forall y, In y (g_keys g) -> In y (map fst st)) by (intros y Hy; rewrite T4; exact Hy).
  assert (ST : forall y, In y (g_keys g) -> st_of (st_set (st_set st E a) W ca) y = if mem y W then ca else if mem y E then a else st_of st y).
  { intros y Hy. rewrite (st_of_set _ W ca y (KS y Hy)), (st_of_set st E a y (KS0 y Hy)). reflexivity. }
  destruct (compl_sound a _ Ga) as [ca' [Ca' Gca]]. rewrite Ca in Ca'. inversion Ca'; subst ca'. clear Ca'.
  constructor.
  - intros y Hy Ny. rewrite (ST y Hy).
    destruct (mem y W) eqn:M1; [exfalso; apply Ny, union_In; right; apply mem_In, M1|].
    destruct (mem y E) eqn:M2; [exfalso; apply Ny, union_In; left; apply union_In; right; apply mem_In, M2|].
    apply T1; [exact Hy|]. intros Hd. apply Ny, union_In. left. apply union_In. left. exact Hd.
  - intros d Hd. apply union_In in Hd. destruct Hd as [Hd|Hd]; [apply union_In in Hd; destruct Hd as [Hd|Hd]|].
    + destruct (T2 d Hd) as [Kd [s [G1 [G2 G3]]]]. split; [exact Kd|]. exists s. rewrite (ST d Kd).
      destruct (mem d W) eqn:M1; [exfalso; apply mem_In, HW in M1; exact (ND true d M1 Hd)|].
      destruct (mem d E) eqn:M2; [exfalso; apply mem_In, HE in M2; exact (ND false d M2 Hd)|]. auto.
    + pose proof (proj1 (HE d) Hd) as C. pose proof (conn_keys x false d Hx C) as Kd. split; [exact Kd|].
      exists (cset E W x). rewrite (ST d Kd).
      destruct (mem d W) eqn:M1; [exfalso; apply mem_In, HW in M1; exact (class_disjoint x d NX C M1)|].
      assert (M2 : mem d E = true) by (apply mem_In, Hd). rewrite M2. split; [exact Ga | split; [exact NE|]].
      intros b. rewrite (cset_mem x E W b Hx HE HW). symmetry. apply (in_class_shift x false d b C).
    + pose proof (proj1 (HW d) Hd) as C. pose proof (conn_keys x true d Hx C) as Kd. split; [exact Kd|].
      exists (bset_compl (cset E W x)). rewrite (ST d Kd).
      assert (M1 : mem d W = true) by (apply mem_In, Hd). rewrite M1. split; [exact Gca|]. split.
      * apply bempty_false in NE. destruct NE as [b Hb]. apply bempty_false. exists (bcompl b). rewrite bmem_compl, bcompl_invol. exact Hb.
      * intros b. rewrite bmem_compl, (cset_mem x E W (bcompl b) Hx HE HW). symmetry. apply (in_class_shift x true d b C).
  - intros d p y Hd C. apply union_In in Hd. destruct Hd as [Hd|Hd]; [apply union_In in Hd; destruct Hd as [Hd|Hd]|].
    + apply union_In. left. apply union_In. left. apply (T3 d p y Hd C).
    + apply HE in Hd. apply (cshift x false d Hd p y) in C. simpl in C.
      apply union_In. destruct p; [right; apply HW, C | left; apply union_In; right; apply HE, C].
    + apply HW in Hd. apply (cshift x true d Hd p y) in C. simpl in C.
      apply union_In. destruct p; simpl in C; [left; apply union_In; right; apply HE, C | right; apply HW, C].
  - rewrite !st_set_keys. exact T4. Qed.

Lemma templates_ok : forall ks st done st' b, (forall x, In x ks -> In x (g_keys g)) -> TI st done ->
  templates m ks st done = (Some st', b) ->
  exists done', TI st' done' /\ (forall x, In x ks -> In x done') /\ (forall d, In d done -> In d done').
Proof. induction ks as [|x ks IH]; intros st done st' b HK T H.
  - simpl in H. inversion H; subst. exists done. split; [exact T | split; [intros x [] | auto]].
  - rewrite templates_cons in H. assert (HK' : forall y, In y ks -> In y (g_keys g)) by (intros y Hy; apply HK; right; exact Hy).
    destruct (mem x done) eqn:Md.
    + destruct (IH st done st' b HK' T H) as [done' [A [B C]]]. exists done'. split; [exact A | split; [|exact C]].
      intros y [<-|Hy]; [apply C, mem_In, Md | apply B, Hy].
    + assert (Nx : ~ In x done) by (intros Hd; apply mem_In in Hd; congruence).
      pose proof (HK x (or_introl eq_refl)) as Hx. destruct (Hm x Hx) as [E [W [G [HE HW]]]]. rewrite G in H.
      destruct (mem x W) eqn:MW; [discriminate|].
      destruct (class_fold st done x E W T Hx Nx HE HW) as [F1 F2].
      destruct (bempty (cset E W x)) eqn:NE; [rewrite (F2 eq_refl) in H; discriminate|].
      destruct (F1 eq_refl) as [a [b' [Fa Ga]]]. rewrite Fa in H.
      destruct (compl_code a) as [ca|] eqn:Ca; [|discriminate].
      pose proof (templates_step st done x E W a ca T Hx Nx HE HW MW Ga NE Ca) as T'.
      destruct (IH _ _ st' b HK' T' H) as [done' [A [B C]]]. exists done'. split; [exact A | split].
      * intros y [<-|Hy]; [|apply B, Hy]. apply C, union_In. left. apply union_In. right. apply HE. constructor.
      * intros d Hd. apply C, union_In. left. apply union_In. left. exact Hd. Qed.

Lemma templates_fail : forall ks st done bb, (forall x, In x ks -> In x (g_keys g)) -> TI st done ->
  templates m ks st done = (None, bb) ->
  bb = true /\ exists x, In x (g_keys g) /\ (gconn g x true x \/ forall b, ~ in_class x b).
Proof. induction ks as [|x ks IH]; intros st done bb HK T H.
  - simpl in H. discriminate.
  - rewrite templates_cons in H. assert (HK' : forall y, In y ks -> In y (g_keys g)) by (intros y Hy; apply HK; right; exact Hy).
    destruct (mem x done) eqn:Md; [apply (IH st done bb HK' T H)|].
    assert (Nx : ~ In x done) by (intros Hd; apply mem_In in Hd; congruence).
    pose proof (HK x (or_introl eq_refl)) as Hx. destruct (Hm x Hx) as [E [W [G [HE HW]]]]. rewrite G in H.
    destruct (mem x W) eqn:MW.
    + inversion H; subst. split; [reflexivity|]. exists x. split; [exact Hx|]. left. apply HW, mem_In, MW.
    + destruct (class_fold st done x E W T Hx Nx HE HW) as [F1 F2].
      destruct (bempty (cset E W x)) eqn:NE.
      * rewrite (F2 eq_refl) in H. inversion H; subst. split; [reflexivity|]. exists x. split; [exact Hx|]. right.
        intros b Hb. apply (cset_mem x E W b Hx HE HW) in Hb.
        assert (X : bempty (cset E W x) = false) by (apply bempty_false; exists b; exact Hb). congruence.
      * destruct (F1 eq_refl) as [a [b' [Fa Ga]]]. rewrite Fa in H.
        destruct (compl_sound a _ Ga) as [ca [Ca _]]. rewrite Ca in H.
        apply (IH _ _ bb HK' (templates_step st done x E W a ca T Hx Nx HE HW MW Ga NE Ca) H). Qed.

(* ---- the theorems ---- *)
Theorem templates_exact st' b : templates m (g_keys g) st0 [] = (Some st', b) ->
  forall x, In x (g_keys g) -> exists s, group (st_of st' x) = Some s /\ bempty s = false /\
                                         forall c, bmem c s = true <-> in_class x c.
Proof. intros H x Hx. destruct (templates_ok (g_keys g) st0 [] st' b (fun y Hy => Hy) TI_init H) as [done' [T [A _]]].
  destruct (ti_done _ _ T x (A x Hx)) as [_ R]. exact R. Qed.

Theorem templates_reports bb : templates m (g_keys g) st0 [] = (None, bb) ->
  bb = true /\ exists x, In x (g_keys g) /\ (gconn g x true x \/ forall b, ~ in_class x b).
Proof. intros H. apply (templates_fail (g_keys g) st0 [] bb (fun y Hy => Hy) TI_init H). Qed.

(* ---- satisfiability ---- *)
Definition sat (a : nat -> base) : Prop :=
  (forall x, In x (g_keys g) -> bmem (a x) (sem0 x) = true) /\
  (forall x y, In (x, y) (g_eq g) -> a x = a y) /\
  (forall x y, In (x, y) (g_wc g) -> a x = bcompl (a y)).

Lemma sat_conn a : sat a -> forall x p y, gconn g x p y -> a y = if p then bcompl (a x) else a x.
Proof. intros [_ [SE SW]] x p y H. induction H as [|p y z H IH Hz|p y z H IH Hz].
  - reflexivity.
  - apply adj_In in Hz. destruct Hz as [Hz|Hz]; [rewrite <- (SE _ _ Hz) | rewrite (SE _ _ Hz)]; exact IH.
  - apply adj_In in Hz. assert (Q : a z = bcompl (a y)).
    { destruct Hz as [Hz|Hz]; [rewrite (SW _ _ Hz), bcompl_invol; reflexivity | apply (SW _ _ Hz)]. }
    rewrite Q, IH. destruct p; simpl; [apply bcompl_invol | reflexivity]. Qed.

Lemma bcompl_neq b : bcompl b <> b. Proof. destruct b; discriminate. Qed.

Theorem sat_succeeds a : sat a -> exists st' b, templates m (g_keys g) st0 [] = (Some st', b).
Proof. intros S. destruct (templates m (g_keys g) st0 []) as [[st'|] b] eqn:T; [eauto|]. exfalso.
  destruct (templates_reports b T) as [_ [x [Hx [C|C]]]].
  - pose proof (sat_conn a S x true x C) as Q. simpl in Q. symmetry in Q. exact (bcompl_neq _ Q).
  - apply (C (a x)). destruct S as [SD SL]. split; intros y Hy.
    + rewrite <- (sat_conn a (conj SD SL) x false y Hy). apply SD, (conn_keys x false y Hx Hy).
    + pose proof (sat_conn a (conj SD SL) x true y Hy) as Q. simpl in Q. rewrite <- Q. apply SD, (conn_keys x true y Hx Hy). Qed.

Fixpoint lmin (l : list nat) : option nat :=
  match l with [] => None | x :: r => match lmin r with Some y => Some (Nat.min x y) | None => Some x end end.
Lemma lmin_spec l r : lmin l = Some r <-> In r l /\ forall z, In z l -> r <= z.
Proof. revert r. induction l as [|x l IH]; intros r; simpl.
  - split; [discriminate | intros [[] _]].
  - destruct (lmin l) as [y|] eqn:M.
    + destruct (proj1 (IH y) eq_refl) as [A B]. split.
      * intros H. inversion H; subst. destruct (Nat.min_dec x y) as [Q|Q]; rewrite Q.
        -- split; [left; reflexivity|]. intros z [<-|Hz]; [lia|]. specialize (B z Hz). lia.
        -- split; [right; exact A|]. intros z [<-|Hz]; [lia | apply B, Hz].
      * intros [Hin Hmin]. f_equal. assert (r <= x) by (apply Hmin; left; reflexivity).
        assert (r <= y) by (apply Hmin; right; exact A). destruct Hin as [<-|Hin]; [lia|]. specialize (B r Hin). lia.
    + assert (L : l = []) by (destruct l as [|z l']; [reflexivity | simpl in M; destruct (lmin l'); discriminate]). subst l. split.
      * intros H. inversion H; subst. split; [left; reflexivity | intros z [<-|[]]; lia].
      * intros [[<-|[]] _]. reflexivity. Qed.
Lemma lmin_ext l1 l2 : (forall z, In z l1 <-> In z l2) -> lmin l1 = lmin l2.
Proof. intros H. destruct (lmin l1) as [r|] eqn:E1.
  - symmetry. apply lmin_spec. apply lmin_spec in E1. destruct E1 as [A B]. split; [apply H, A | intros z Hz; apply B, H, Hz].
  - destruct (lmin l2) as [r|] eqn:E2; [|reflexivity]. apply lmin_spec in E2. destruct E2 as [A B].
    assert (X : lmin l1 = Some r) by (apply lmin_spec; split; [apply H, A | intros z Hz; apply B, H, Hz]). congruence. Qed.
Lemma lmin_some l x : In x l -> exists r, lmin l = Some r.
Proof. destruct l as [|y l]; [intros [] | intros _; simpl; destruct (lmin l); eauto]. Qed.

Definition pick (s : bset) : base := match bset_list s with b :: _ => b | [] => bA end.
Lemma pick_mem s : bempty s = false -> bmem (pick s) s = true.
Proof. destruct s as [[] [] [] []]; intros H; try reflexivity; discriminate. Qed.
Lemma bset_ext s t : (forall b, bmem b s = bmem b t) -> s = t.
Proof. intros H. destruct s as [a c g' t'], t as [a2 c2 g2 t2]. pose proof (H bA). pose proof (H bC). pose proof (H bG). pose proof (H bT).
  simpl in *. subst. reflexivity. Qed.
Lemma bset_compl_invol s : bset_compl (bset_compl s) = s. Proof. destruct s; reflexivity. Qed.

Section Assign.
Variable st' : list (nat * ascii).
Variable bfin : bool.
Hypothesis OKT : templates m (g_keys g) st0 [] = (Some st', bfin).

Definition fset (x : nat) : bset := gset (st_of st' x).
Definition assignment (x : nat) : base :=
  match get m x with
  | Some (E, W) =>
      match lmin E, lmin W with
      | Some e, Some w => if Nat.ltb e w then pick (fset x) else bcompl (pick (bset_compl (fset x)))
      | _, _ => pick (fset x)
      end
  | None => bA
  end.

Lemma fset_spec x : In x (g_keys g) -> bempty (fset x) = false /\ forall c, bmem c (fset x) = true <-> in_class x c.
Proof. intros Hx. destruct (templates_exact st' bfin OKT x Hx) as [s [G [NE M]]]. unfold fset, gset. rewrite G. auto. Qed.

Lemma no_self x : In x (g_keys g) -> ~ gconn g x true x.
Proof. intros Hx. apply (odd_cycle_reported g m Hm st0 st' bfin OKT x Hx). Qed.

Lemma fset_shift x p y : In x (g_keys g) -> gconn g x p y -> fset y = if p then bset_compl (fset x) else fset x.
Proof. intros Hx C. pose proof (conn_keys x p y Hx C) as Hy. apply bset_ext. intros b.
  destruct (fset_spec x Hx) as [_ Mx]. destruct (fset_spec y Hy) as [_ My].
  apply eq_true_iff_eq. rewrite My, (in_class_shift x p y b C). destruct p; [rewrite bmem_compl|]; symmetry; apply Mx. Qed.

Lemma assignment_shift x p y : In x (g_keys g) -> gconn g x p y ->
  assignment y = if p then bcompl (assignment x) else assignment x.
Proof. intros Hx C. pose proof (conn_keys x p y Hx C) as Hy.
  destruct (Hm x Hx) as [Ex [Wx [Gx [HEx HWx]]]]. destruct (Hm y Hy) as [Ey [Wy [Gy [HEy HWy]]]].
  pose proof (fset_shift x p y Hx C) as FS. unfold assignment. rewrite Gx, Gy.
  destruct (lmin_some Ex x (proj2 (HEx x) (conn_refl _ _ x))) as [ex Lex].
  destruct p; cbv iota in FS; rewrite FS.
  - assert (Q1 : lmin Ey = lmin Wx).
    { apply lmin_ext. intros z. rewrite HEy, HWx. apply (cshift x true y C false z). }
    assert (Q2 : lmin Wy = lmin Ex).
    { apply lmin_ext. intros z. rewrite HWy, HEx. apply (cshift x true y C true z). }
    rewrite Q1, Q2, Lex. destruct (lmin_some Wx y (proj2 (HWx y) C)) as [wx Lwx]. rewrite Lwx.
    assert (NEQ : ex <> wx).
    { intros ->. apply lmin_spec in Lex, Lwx. destruct Lex as [A _]. destruct Lwx as [B _].
      apply HEx in A. apply HWx in B. exact (class_disjoint x wx (no_self x Hx) A B). }
    destruct (Nat.ltb_spec ex wx) as [L1|L1]; destruct (Nat.ltb_spec wx ex) as [L2|L2]; try lia.
    + rewrite bset_compl_invol. reflexivity.
    + rewrite bcompl_invol. reflexivity.
  - assert (Q1 : lmin Ey = lmin Ex).
    { apply lmin_ext. intros z. rewrite HEy, HEx. apply (cshift x false y C false z). }
    assert (Q2 : lmin Wy = lmin Wx).
    { apply lmin_ext. intros z. rewrite HWy, HWx. apply (cshift x false y C true z). }
    rewrite Q1, Q2. reflexivity. Qed.

Lemma assignment_in_class x : In x (g_keys g) -> in_class x (assignment x).
Proof. intros Hx. destruct (fset_spec x Hx) as [NE M]. destruct (Hm x Hx) as [E [W [G [HE HW]]]].
  unfold assignment. rewrite G.
  assert (P1 : in_class x (pick (fset x))) by (apply M, pick_mem, NE).
  assert (P2 : in_class x (bcompl (pick (bset_compl (fset x))))).
  { apply M. rewrite <- bmem_compl. apply pick_mem. apply bempty_false in NE. destruct NE as [b Hb].
    apply bempty_false. exists (bcompl b). rewrite bmem_compl, bcompl_invol. exact Hb. }
  destruct (lmin E); [|exact P1]. destruct (lmin W); [|exact P1]. destruct (Nat.ltb _ _); assumption. Qed.

Theorem success_sat : sat assignment.
Proof. split; [|split].
  - intros x Hx. apply (assignment_in_class x Hx). constructor.
  - intros x y H. pose proof GC as GC'. unfold graph_closed in GC'. apply andb_prop in GC'. destruct GC' as [G1 _].
    rewrite forallb_forall in G1. specialize (G1 _ H). simpl in G1. apply andb_prop in G1. destruct G1 as [Kx _]. apply mem_In in Kx.
    assert (C : gconn g x false y) by (eapply conn_eq; [constructor | apply adj_In; left; exact H]).
    symmetry. apply (assignment_shift x false y Kx C).
  - intros x y H. pose proof GC as GC'. unfold graph_closed in GC'. apply andb_prop in GC'. destruct GC' as [_ G2].
    rewrite forallb_forall in G2. specialize (G2 _ H). simpl in G2. apply andb_prop in G2. destruct G2 as [Kx _]. apply mem_In in Kx.
    assert (C : gconn g x true y) by (change true with (negb false); eapply conn_wc; [constructor | apply adj_In; left; exact H]).
    rewrite (assignment_shift x true y Kx C), bcompl_invol. reflexivity. Qed.
End Assign.

(* constraint generation fails (for this reason) exactly when no assignment exists *)
Theorem templates_succeed_iff_sat : (exists st' b, templates m (g_keys g) st0 [] = (Some st', b)) <-> exists a, sat a.
Proof. split.
  - intros [st' [b H]]. exists (assignment st'). apply (success_sat st' b H).
  - intros [a S]. apply (sat_succeeds a S). Qed.
End Templates.

(* ---- the checked hypotheses on the seeded graph, as one boolean ---- *)
Fixpoint nat_list_eqb (a b : list nat) : bool :=
  match a, b with [], [] => true | x :: a', y :: b' => Nat.eqb x y && nat_list_eqb a' b' | _, _ => false end.
Lemma nat_list_eqb_eq a : forall b, nat_list_eqb a b = true -> a = b.
Proof. induction a as [|x a IH]; intros [|y b] H; try discriminate; [reflexivity|]. simpl in H. apply andb_prop in H.
  destruct H as [H1 H2]. apply Nat.eqb_eq in H1. subst. f_equal. apply IH, H2. Qed.
Definition graph_ok (g : cgraph) : bool :=
  graph_closed g && nat_list_eqb (map fst (g_st g)) (g_keys g) &&
  forallb (fun x => match group (st_of (g_st g) x) with Some _ => true | None => false end) (g_keys g).
Lemma graph_ok_spec g : graph_ok g = true ->
  graph_closed g = true /\ map fst (g_st g) = g_keys g /\ (forall x, In x (g_keys g) -> group (st_of (g_st g) x) <> None).
Proof. unfold graph_ok. intros H. apply andb_prop in H. destruct H as [H H3]. apply andb_prop in H. destruct H as [H1 H2].
  split; [exact H1 | split; [apply nat_list_eqb_eq, H2|]]. intros x Hx. rewrite forallb_forall in H3. specialize (H3 x Hx).
  destruct (group _); [discriminate | discriminate]. Qed.

Lemma group_injective c1 c2 s : group c1 = Some s -> group c2 = Some s -> c1 = c2.
Proof. assert (H : forall a b, match group a, group b with
      | Some ga, Some gb => if bset_eqb ga gb then Ascii.eqb a b else true | _, _ => true end = true)
    by (apply ascii_forall2; vm_compute; reflexivity).
  intros H1 H2. specialize (H c1 c2). rewrite H1, H2 in H.
  assert (Q : bset_eqb s s = true) by (destruct s as [[] [] [] []]; reflexivity). rewrite Q in H. apply Ascii.eqb_eq, H. Qed.

(* ---- Convert.get_constraints as a whole ---- *)
Section Whole.
Variable p : pspec.
Variable so : bool.
Variable lay : layout.
Variable g : cgraph.
Hypothesis SEED : seed p so = OK (lay, g).
Hypothesis GOK : graph_ok g = true.

Let GC := proj1 (graph_ok_spec g GOK).
Let SK := proj1 (proj2 (graph_ok_spec g GOK)).
Let V0 := proj2 (proj2 (graph_ok_spec g GOK)).

Definition gsat (a : nat -> base) : Prop := sat g (g_st g) a.
Definition gclass (x : nat) (b : base) : Prop := in_class g (g_st g) x b.

Lemma gc_cases : exists m, propagate (adj (g_eq g)) (adj (g_wc g)) (g_keys g) = OOk m /\
  (forall x, In x (g_keys g) -> exists E W, get m x = Some (E, W) /\
     (forall z, In z E <-> gconn g x false z) /\ (forall z, In z W <-> gconn g x true z)).
Proof. apply closure_exact, GC. Qed.

(* failure for this reason happens exactly when no nucleotide assignment satisfies the document *)
Theorem over_iff_unsat : get_constraints p so = DOver <-> ~ exists a, gsat a.
Proof. unfold get_constraints. rewrite SEED. destruct gc_cases as [m [PM Hm]]. rewrite PM.
  pose proof (templates_succeed_iff_sat g m GC Hm (g_st g) SK V0) as IFF.
  destruct (templates m (g_keys g) (g_st g) []) as [[st'|] b] eqn:T.
  - split; [discriminate|]. intros N. exfalso. apply N. apply IFF. eauto.
  - destruct (templates_reports g m GC Hm (g_st g) SK V0 b T) as [-> _]. split; [|reflexivity].
    intros _ S. apply IFF in S. destruct S as [st' [b' S]]. discriminate. Qed.

(* no other failure is possible once the graph has been seeded *)
Theorem seeded_total : get_constraints p so = DOver \/ exists e w s, get_constraints p so = DOk e w s.
Proof. unfold get_constraints. rewrite SEED. destruct gc_cases as [m [PM Hm]]. rewrite PM.
  destruct (templates m (g_keys g) (g_st g) []) as [[st'|] b] eqn:T; [right; eauto|].
  destruct (templates_reports g m GC Hm (g_st g) SK V0 b T) as [-> _]. left. reflexivity. Qed.

(* the template array: at every initialised position exactly the class intersection *)
Theorem template_clause e w s : get_constraints p so = DOk e w s -> forall i, i < List.length s ->
  (In i (g_keys g) -> exists c S, nth_error s i = Some (Some c) /\ group c = Some S /\ bempty S = false /\
                                  forall b, bmem b S = true <-> gclass i b) /\
  (~ In i (g_keys g) -> nth_error s i = Some None).
Proof. unfold get_constraints. rewrite SEED. destruct gc_cases as [m [PM Hm]]. rewrite PM.
  destruct (templates m (g_keys g) (g_st g) []) as [[st'|] b] eqn:T; [|destruct b; discriminate].
  intros H. inversion H; subst e w s. clear H. intros i Hi. rewrite map_length, seq_length in Hi.
  rewrite nth_error_map. rewrite (nth_error_nth' _ 0) by (rewrite seq_length; exact Hi). rewrite seq_nth by exact Hi. simpl.
  split; intros Ki.
  - assert (M : mem i (g_keys g) = true) by (apply mem_In, Ki). rewrite M.
    destruct (templates_exact g m GC Hm (g_st g) SK V0 st' b T i Ki) as [S [G1 [G2 G3]]].
    exists (st_of st' i), S. auto.
  - destruct (mem i (g_keys g)) eqn:M; [apply mem_In in M; contradiction | reflexivity]. Qed.

(* positions forced equal carry identical codes, positions forced complementary complementary codes *)
Theorem template_codes_agree e w s : get_constraints p so = DOk e w s -> forall i j ci cj,
  In i (g_keys g) -> nth_error s i = Some (Some ci) -> nth_error s j = Some (Some cj) ->
  (gconn g i false j -> ci = cj) /\ (gconn g i true j -> compl_code ci = Some cj).
Proof. intros H i j ci cj Ki Ni Nj.
  assert (Li : i < List.length s) by (apply nth_error_Some; rewrite Ni; discriminate).
  assert (Lj : j < List.length s) by (apply nth_error_Some; rewrite Nj; discriminate).
  destruct (proj1 (template_clause e w s H i Li) Ki) as [ci' [Si [A1 [A2 [A3 A4]]]]]. rewrite Ni in A1. inversion A1; subst ci'.
  assert (KJ : forall q, gconn g i q j -> In j (g_keys g)) by (intros q C; apply (conn_keys g GC i q j Ki C)).
  split; intros C.
  - destruct (proj1 (template_clause e w s H j Lj) (KJ _ C)) as [cj' [Sj [B1 [B2 [B3 B4]]]]]. rewrite Nj in B1. inversion B1; subst cj'.
    assert (Q : Sj = Si).
    { apply bset_ext. intros b. apply eq_true_iff_eq. rewrite B4, A4. unfold gclass. apply (in_class_shift g (g_st g) i false j b C). }
    subst Sj. apply (group_injective ci cj Si A2 B2).
  - destruct (proj1 (template_clause e w s H j Lj) (KJ _ C)) as [cj' [Sj [B1 [B2 [B3 B4]]]]]. rewrite Nj in B1. inversion B1; subst cj'.
    destruct (compl_sound ci Si A2) as [cc [C1 C2]]. rewrite C1. f_equal.
    assert (Q : Sj = bset_compl Si).
    { apply bset_ext. intros b. apply eq_true_iff_eq. rewrite B4, bmem_compl, A4. unfold gclass. apply (in_class_shift g (g_st g) i true j b C). }
    subst Sj. apply (group_injective cc cj _ C2 B2). Qed.
End Whole.
