(* Strand-oriented layout, no per-case hypothesis: for every document the loader accepts and every
   graph seed builds from it, the graph is the declarative one, its nodes are laid out injectively,
   its links join declared nodes and its templates are codes - so the denotation theorems
   (C04), the document-level satisfiability theorem (C15) and the designer side of C06 hold of every
   loaded document. *)
From Coq Require Import List String Ascii Arith Bool Lia.
From PC Require Import Base.Codes Comp.Syntax Comp.Compile Comp.EmitProofs Design.Propagate Design.PropagateProofs Design.Designer Design.DesignerProofs
  Design.TemplateProofs Design.Contraction Design.DGraph Design.DenoteGraph Design.DenoteTie Design.DenoteSat Design.Results Design.ResultsProofs
  Design.LoadProofs Design.SeedProofs Design.LayoutProofs Design.ContractProofs SSM.Contract.
Import ListNotations.
Local Open Scope list_scope.

Lemma nat_list_eqb_refl l : nat_list_eqb l l = true.
Proof. induction l as [|x l IH]; [reflexivity|]. simpl. rewrite Nat.eqb_refl. exact IH. Qed.

Section Loaded.
Variable ls : list pline.
Variable p : pspec.
Variable lay : layout.
Variable g : cgraph.
Hypothesis LOAD : load_spec ls pspec0 = OK p.
Hypothesis SEED : seed p false = OK (lay, g).

Let LIp : LI p := load_spec_LI ls pspec0 p LI_empty LOAD.
Lemma loaded_layout : lay = build_layout p false. Proof. apply (seed_graph p lay g SEED). Qed.
Lemma loaded_wf : spec_wf p false. Proof. apply (load_spec_wf ls p LOAD). Qed.
Lemma loaded_same : same_graph p lay false g = true. Proof. apply seed_same_graph, SEED. Qed.
Lemma loaded_dgraph : dgraph_ok p lay false = true. Proof. rewrite loaded_layout. apply dgraph_ok_strand, LIp. Qed.
Lemma loaded_place : place_okb p lay false = true. Proof. rewrite loaded_layout. apply place_ok_strand, LIp. Qed.

Lemma loaded_graph_ok : graph_ok g = true.
Proof. destruct (seed_graph p lay g SEED) as [EL [ES [EE [EW EK]]]]. rewrite <- EL in ES, EE, EW.
  assert (KN : g_keys g = map (enc p lay) (nodes p false)).
  { rewrite EK, ES. unfold nodes. rewrite !map_map. reflexivity. }
  assert (ND : NoDup (map fst (g_st g))).
  { rewrite <- EK, KN. apply sincr_NoDup. rewrite EL. apply nodes_sincr, LIp. }
  assert (CL : forall l, (forall a b, In (a, b) l -> In (a, b) (dlinks p false)) ->
               forallb (fun '(a, b) => mem a (g_keys g) && mem b (g_keys g)) (enc_links p lay l) = true).
  { intros l Hl. apply forallb_forall. intros [a b] H. unfold enc_links in H. apply in_map_iff in H. destruct H as [[x y] [E Hin]]. simpl in E. inversion E; subst.
    destruct (links_valid p LIp x y (Hl x y Hin)) as [A B]. rewrite KN.
    rewrite (proj2 (mem_In _ _) (in_map _ _ _ A)), (proj2 (mem_In _ _) (in_map _ _ _ B)). reflexivity. }
  pose proof (CL (d_eq p false) (fun a b H => in_or_app _ _ _ (or_introl H))) as C1. rewrite <- EE in C1.
  pose proof (CL (d_wc p false) (fun a b H => in_or_app _ _ _ (or_intror H))) as C2. rewrite <- EW in C2.
  unfold graph_ok, graph_closed. rewrite C1, C2.
  rewrite EK, nat_list_eqb_refl. cbn [andb]. apply forallb_forall. intros k Hk. rewrite <- EK, KN in Hk. apply in_map_iff in Hk. destruct Hk as [nd [<- Hnd]].
  unfold nodes in Hnd. apply in_map_iff in Hnd. destruct Hnd as [[nd' c] [E Hin]]. simpl in E. subst nd'.
  assert (ST : st_of (g_st g) (enc p lay nd) = c).
  { apply (st_of_In _ _ _ ND). rewrite ES. apply in_map_iff. exists (nd, c). auto. }
  rewrite ST. destruct (d_nodes_In p false nd c Hin) as [->|[k0 [n [t [i [A [B _]]]]]]]; [reflexivity|].
  pose proof (li_tpl p LIp n t (nth_error_In _ _ A)) as VT. unfold valid_template in VT. rewrite forallb_forall in VT.
  specialize (VT c (nth_error_In _ _ B)). destruct (group c); [reflexivity | discriminate]. Qed.

(* C04: the auxiliary nodes are faithful, for every loaded document *)
Theorem loaded_graph_denotes x q y : In x (nodes p false) -> In y (nodes p false) ->
  (gconn g (enc p lay x) q (enc p lay y) <->
   pconn dnode (Rc_links p false) (fst (kap p false x)) (xorb q (xorb (snd (kap p false x)) (snd (kap p false y)))) (fst (kap p false y))).
Proof. apply (seeded_graph_denotes_wf p lay false g loaded_wf loaded_dgraph loaded_same). Qed.

(* C15: over-constraint is reported exactly when the document is unsatisfiable *)
Theorem loaded_over_iff_document_unsat : get_constraints p false = DOver <-> ~ doc_sat p false.
Proof. apply (over_iff_document_unsat_wf p false lay g SEED loaded_graph_ok loaded_wf loaded_dgraph loaded_same). Qed.
Theorem loaded_total : get_constraints p false = DOver \/ exists e w s, get_constraints p false = DOk e w s.
Proof. apply (seeded_total p false lay g SEED loaded_graph_ok). Qed.
End Loaded.

(* C06, designer side, for every loaded document and every string that fits its arrays *)
Definition loaded_design_results_ok ls p lay g nts (LOAD : load_spec ls pspec0 = OK p) (SEED : seed p false = OK (lay, g)) :=
  design_results_ok_wf p lay false g nts SEED (loaded_wf ls p LOAD) (loaded_dgraph ls p lay g LOAD SEED) (loaded_same p lay g SEED)
    (loaded_graph_ok ls p lay g LOAD SEED) (loaded_place ls p lay g LOAD SEED).

(* C05: the files written for a loaded document satisfy the spuriousSSM input contract *)
Theorem loaded_files_contract ls p lay g e w s : load_spec ls pspec0 = OK p -> seed p false = OK (lay, g) ->
  get_constraints p false = DOk e w s -> contract_ok (map eq_map e) (map wc_map w) (map st_map s) = true.
Proof. intros L S A. apply (files_contract p false lay g S (loaded_graph_ok ls p lay g L S) e w s A). Qed.

(* a document that the loader accepts either has no graph (an internal error of seed) or is covered *)
Theorem design_arrays_cases ls : (exists k, design_arrays ls false = DErr k) \/
  exists p lay g, load_spec ls pspec0 = OK p /\ seed p false = OK (lay, g) /\
    (design_arrays ls false = DOver \/ exists e w s, design_arrays ls false = DOk e w s).
Proof. unfold design_arrays. destruct (load_spec ls pspec0) as [p|k] eqn:L; [|left; eauto].
  destruct (seed p false) as [[lay g]|k] eqn:S; [|left; exists k; unfold get_constraints; rewrite S; reflexivity].
  right. exists p, lay, g. split; [reflexivity | split; [exact S | apply (loaded_total ls p lay g L S)]]. Qed.
