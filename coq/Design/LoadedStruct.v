(* Structure-oriented layout, no per-case hypothesis: for every document the loader accepts and
   every graph seed builds from it in the structure layout, the graph is the declarative one, its
   nodes are laid out injectively, its links join declared nodes and its templates are codes - so
   the denotation theorems (C04), the document-level satisfiability theorem (C15), the file contract
   (C05) and the designer side of C06 hold of every loaded document in this layout too.  Seed
   succeeds in this layout exactly when every strand with nucleotides occurs in a structure. *)
From Coq Require Import List String Ascii Arith Bool Lia.
From PC Require Import Base.Codes Comp.Syntax Comp.Compile Comp.EmitProofs Design.Propagate Design.PropagateProofs Design.Designer Design.DesignerProofs
  Design.TemplateProofs Design.Contraction Design.DGraph Design.DenoteGraph Design.DenoteTie Design.DenoteSat Design.Results Design.ResultsProofs
  Design.LoadProofs Design.SeedProofs Design.LayoutProofs Design.ContractProofs Design.Loaded Design.SeedTotal Design.StructLayout Design.StructSeed Design.StructTotal SSM.Contract.
Import ListNotations.
Local Open Scope list_scope.

Section LoadedStruct.
Variable ls : list pline.
Variable p : pspec.
Variable lay : layout.
Variable g : cgraph.
Hypothesis LOAD : load_spec ls pspec0 = OK p.
Hypothesis SEED : seed p true = OK (lay, g).

Let LIp : LI p := load_spec_LI ls pspec0 p LI_empty LOAD.
Let LBp : LB p := load_spec_LB ls pspec0 p LB_empty LOAD.
Lemma sloaded_placed : placed p. Proof. apply (seed_placed p lay g LIp SEED). Qed.
Lemma sloaded_bonds sn names sy len bs x y : In (sn, (names, sy, len)) (p_structs p) -> get_bonds sy = OK bs -> In (x, y) bs -> x < len /\ y < len.
Proof. intros Hin GB Hxy. destruct (LBp sn names sy len Hin) as [bs' [GB' BB]]. rewrite GB in GB'. inversion GB'; subst bs'. apply (BB x y Hxy). Qed.
Lemma sloaded_layout : lay = build_layout p true. Proof. apply (seed_graph_struct p LIp lay g SEED). Qed.
Lemma sloaded_wf : spec_wf p true. Proof. apply (load_spec_wf_struct ls p LOAD sloaded_placed). Qed.
Lemma sloaded_same : same_graph p lay true g = true. Proof. apply (seed_same_graph_struct p lay g LIp SEED). Qed.
Lemma sloaded_dgraph : dgraph_ok p lay true = true. Proof. rewrite sloaded_layout. apply (dgraph_ok_struct p LIp sloaded_placed sloaded_bonds). Qed.
Lemma sloaded_place : place_okb p lay true = true. Proof. rewrite sloaded_layout. apply (place_ok_struct p LIp sloaded_placed). Qed.

Lemma sloaded_graph_ok : graph_ok g = true.
Proof. pose proof sloaded_placed as PLC. pose proof sloaded_bonds as BRC.
  destruct (seed_graph_struct p LIp lay g SEED) as [EL [ES [EE [EW [EK _]]]]]. rewrite <- EL in ES, EE, EW.
  assert (KN : g_keys g = map (enc p lay) (nodes p true)).
  { rewrite EK, ES. unfold nodes. rewrite !map_map. reflexivity. }
  assert (ND : NoDup (map fst (g_st g))).
  { rewrite <- EK, KN. apply sincr_NoDup. rewrite EL. apply nodes_sincr_struct, LIp. }
  assert (CL : forall l, (forall a b, In (a, b) l -> In (a, b) (dlinks p true)) ->
               forallb (fun '(a, b) => mem a (g_keys g) && mem b (g_keys g)) (enc_links p lay l) = true).
  { intros l Hl. apply forallb_forall. intros [a b] H. unfold enc_links in H. apply in_map_iff in H. destruct H as [[x y] [E Hin]]. simpl in E. inversion E; subst.
    destruct (links_valid_struct p LIp PLC BRC x y (Hl x y Hin)) as [A B]. rewrite KN.
    rewrite (proj2 (mem_In _ _) (in_map _ _ _ A)), (proj2 (mem_In _ _) (in_map _ _ _ B)). reflexivity. }
  pose proof (CL (d_eq p true) (fun a b H => in_or_app _ _ _ (or_introl H))) as C1. rewrite <- EE in C1.
  pose proof (CL (d_wc p true) (fun a b H => in_or_app _ _ _ (or_intror H))) as C2. rewrite <- EW in C2.
  unfold graph_ok, graph_closed. rewrite C1, C2.
  rewrite EK, nat_list_eqb_refl. cbn [andb]. apply forallb_forall. intros k Hk. rewrite <- EK, KN in Hk. apply in_map_iff in Hk. destruct Hk as [nd [<- Hnd]].
  unfold nodes in Hnd. apply in_map_iff in Hnd. destruct Hnd as [[nd' c] [E Hin]]. simpl in E. subst nd'.
  assert (ST : st_of (g_st g) (enc p lay nd) = c).
  { apply (st_of_In _ _ _ ND). rewrite ES. apply in_map_iff. exists (nd, c). auto. }
  rewrite ST. destruct (d_nodes_In p true nd c Hin) as [->|[k0 [n [t [i [A [B _]]]]]]]; [reflexivity|].
  pose proof (li_tpl p LIp n t (nth_error_In _ _ A)) as VT. unfold valid_template in VT. rewrite forallb_forall in VT.
  specialize (VT c (nth_error_In _ _ B)). destruct (group c); [reflexivity | discriminate]. Qed.

(* C04: the auxiliary nodes are faithful, for every loaded document (structure layout) *)
Theorem sloaded_graph_denotes x q y : In x (nodes p true) -> In y (nodes p true) ->
  (gconn g (enc p lay x) q (enc p lay y) <->
   pconn dnode (Rc_links p true) (fst (kap p true x)) (xorb q (xorb (snd (kap p true x)) (snd (kap p true y)))) (fst (kap p true y))).
Proof. apply (seeded_graph_denotes_wf p lay true g sloaded_wf sloaded_dgraph sloaded_same). Qed.

(* C15: over-constraint is reported exactly when the document is unsatisfiable (structure layout) *)
Theorem sloaded_over_iff_document_unsat : get_constraints p true = DOver <-> ~ doc_sat p true.
Proof. apply (over_iff_document_unsat_wf p true lay g SEED sloaded_graph_ok sloaded_wf sloaded_dgraph sloaded_same). Qed.
Theorem sloaded_total : get_constraints p true = DOver \/ exists e w s, get_constraints p true = DOk e w s.
Proof. apply (seeded_total p true lay g SEED sloaded_graph_ok). Qed.
End LoadedStruct.

(* C06, designer side, for every loaded document and every string that fits its arrays (structure layout) *)
Definition sloaded_design_results_ok ls p lay g nts (LOAD : load_spec ls pspec0 = OK p) (SEED : seed p true = OK (lay, g)) :=
  design_results_ok_wf p lay true g nts SEED (sloaded_wf ls p lay g LOAD SEED) (sloaded_dgraph ls p lay g LOAD SEED) (sloaded_same ls p lay g LOAD SEED)
    (sloaded_graph_ok ls p lay g LOAD SEED) (sloaded_place ls p lay g LOAD SEED).

(* C05: the files written for a loaded document satisfy the spuriousSSM input contract (structure layout) *)
Theorem sloaded_files_contract ls p lay g e w s : load_spec ls pspec0 = OK p -> seed p true = OK (lay, g) ->
  get_constraints p true = DOk e w s -> contract_ok (map eq_map e) (map wc_map w) (map st_map s) = true.
Proof. intros L S A. apply (files_contract p true lay g S (sloaded_graph_ok ls p lay g L S) e w s A). Qed.

(* every document in either layout: an error, or a graph covered by the theorems above *)
Theorem design_arrays_cases_struct ls : (exists k, design_arrays ls true = DErr k) \/
  exists p lay g, load_spec ls pspec0 = OK p /\ seed p true = OK (lay, g) /\
    (design_arrays ls true = DOver \/ exists e w s, design_arrays ls true = DOk e w s).
Proof. unfold design_arrays. destruct (load_spec ls pspec0) as [p|k] eqn:L; [|left; eauto].
  destruct (seed p true) as [[lay g]|k] eqn:S; [|left; exists k; unfold get_constraints; rewrite S; reflexivity].
  right. exists p, lay, g. split; [reflexivity | split; [exact S | apply (sloaded_total ls p lay g L S)]]. Qed.

(* structure layout: a loaded document all of whose strands with nucleotides occur in a structure gets the
   report or arrays; seed fails on a loaded document only for a strand that occurs in no structure *)
Theorem sloaded_design_total ls p : load_spec ls pspec0 = OK p -> placed p ->
  design_arrays ls true = DOver \/ exists e w s, design_arrays ls true = DOk e w s.
Proof. intros L PL. unfold design_arrays. rewrite L.
  destruct (seed_total_struct p (load_spec_LI ls pspec0 p LI_empty L) (load_spec_LB ls pspec0 p LB_empty L) PL) as [g S].
  apply (sloaded_total ls p _ g L S). Qed.
