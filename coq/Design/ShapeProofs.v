(* What load_spec builds, line by line: every definition line of a loaded document has its entry in
   the specification, with its items classified (sequence / super-sequence) as in the final tables. *)
From Coq Require Import List String Ascii Arith Bool Lia.
From PC Require Import Base.Codes Comp.Syntax Comp.Compile Comp.EmitProofs Comp.CompileProofs Comp.OrderProofs Design.Designer Design.DGraph Design.DenoteGraph Design.DenoteTie Design.LoadProofs.
Import ListNotations.
Local Open Scope list_scope.

Definition grows (p1 p : pspec) : Prop :=
  (exists x, p_bases p = p_bases p1 ++ x) /\ (exists x, p_sups p = p_sups p1 ++ x) /\
  (exists x, p_strands p = p_strands p1 ++ x) /\ (exists x, p_structs p = p_structs p1 ++ x).
Lemma grows_refl p : grows p p. Proof. repeat split; exists []; rewrite app_nil_r; reflexivity. Qed.
Lemma grows_trans a b c : grows a b -> grows b c -> grows a c.
Proof. intros [[x1 A1] [[x2 A2] [[x3 A3] [x4 A4]]]] [[y1 B1] [[y2 B2] [[y3 B3] [y4 B4]]]].
  repeat split; [exists (x1 ++ y1); rewrite B1, A1, app_assoc | exists (x2 ++ y2); rewrite B2, A2, app_assoc | exists (x3 ++ y3); rewrite B3, A3, app_assoc | exists (x4 ++ y4); rewrite B4, A4, app_assoc]; reflexivity. Qed.
Lemma load_line_grows p l p' : load_line p l = OK p' -> grows p p'.
Proof. intros H. destruct l as [n t len|n items len|d n items len|opt n names s|lo hi ins outs|items]; simpl in H.
  - destruct (negb _); [discriminate|]. destruct (_ || _); [discriminate|]. inversion H; subst. repeat split; cbn; eauto; exists []; rewrite app_nil_r; reflexivity.
  - destruct (_ || _); [discriminate|]. destruct (get_seqs p items); [|discriminate]. inversion H; subst. repeat split; cbn; eauto; exists []; rewrite app_nil_r; reflexivity.
  - destruct (ahas _ n); [discriminate|]. destruct (get_seqs p items); [|discriminate]. inversion H; subst. repeat split; cbn; eauto; exists []; rewrite app_nil_r; reflexivity.
  - destruct (ahas _ n); [discriminate|]. destruct (strand_lens_of p names) as [lens|]; [|discriminate]. simpl in H. destruct (get_bonds s); [|discriminate]. simpl in H.
    destruct (Comp.Struct.structure_ok s lens); [|discriminate]. inversion H; subst. repeat split; cbn; eauto; exists []; rewrite app_nil_r; reflexivity.
  - inversion H; subst. apply grows_refl.
  - destruct (get_seqs p items) as [rs|]; [|discriminate]. simpl in H. destruct rs; [discriminate|]. destruct (forallb _ _); [|discriminate]. inversion H; subst.
    repeat split; cbn; exists []; rewrite app_nil_r; reflexivity. Qed.
Lemma load_spec_grows ls : forall p p', load_spec ls p = OK p' -> grows p p'.
Proof. induction ls as [|l ls IH]; intros p p' H; simpl in H; [inversion H; apply grows_refl|].
  destruct (load_line p l) as [p1|] eqn:E; [|discriminate]. apply (grows_trans _ p1); [apply (load_line_grows _ _ _ E) | apply (IH _ _ H)]. Qed.

(* the entries a document leaves in the specification *)
Record shape (ls : list pline) (p : pspec) : Prop := {
  sh_seq : forall n k len, In (PSeq n k len) ls -> In (n, k) (p_bases p);
  sh_sup : forall n items len, In (PSup n items len) ls -> exists p1 rs, grows p1 p /\ get_seqs p1 items = OK rs /\ In (n, (rs, refs_len p1 rs)) (p_sups p);
  sh_strand : forall d n items len, In (PStrand d n items len) ls -> exists p1 rs, grows p1 p /\ get_seqs p1 items = OK rs /\ In (n, (rs, refs_len p1 rs, d)) (p_strands p);
  sh_struct : forall o n ss s, In (PStruct o n ss s) ls -> exists len, In (n, (ss, s, len)) (p_structs p) }.

Lemma in_grow {X} (a x : list X) e : In e a -> In e (a ++ x). Proof. intros H. apply in_or_app. left. exact H. Qed.
Theorem load_spec_shape ls : forall p p', load_spec ls p = OK p' -> shape ls p'.
Proof. induction ls as [|l ls IH]; intros p p' H; simpl in H.
  - constructor; intros; contradiction.
  - destruct (load_line p l) as [p1|] eqn:E; [|discriminate]. simpl in H. pose proof (IH p1 p' H) as [S1 S2 S3 S4].
    pose proof (load_spec_grows ls p1 p' H) as [[xb GB] [[xs GS] [[xt GT] [xu GU]]]].
    pose proof (grows_trans _ _ _ (load_line_grows p l p1 E) (load_spec_grows ls p1 p' H)) as GP.
    constructor.
    + intros n k len [Hl|Hin]; [|apply (S1 n k len Hin)]. subst l. simpl in E. destruct (negb _); [discriminate|]. destruct (_ || _); [discriminate|]. inversion E; subst p1.
      rewrite GB. cbn. apply in_grow, in_or_app. right. left. reflexivity.
    + intros n items len [Hl|Hin]; [|apply (S2 n items len Hin)]. subst l. simpl in E. destruct (_ || _); [discriminate|].
      destruct (get_seqs p items) as [rs|] eqn:G; [|discriminate]. inversion E; subst p1. exists p, rs. split; [exact GP | split; [exact G|]].
      rewrite GS. cbn. apply in_grow, in_or_app. right. left. reflexivity.
    + intros d n items len [Hl|Hin]; [|apply (S3 d n items len Hin)]. subst l. simpl in E. destruct (ahas _ n); [discriminate|].
      destruct (get_seqs p items) as [rs|] eqn:G; [|discriminate]. inversion E; subst p1. exists p, rs. split; [exact GP | split; [exact G|]].
      rewrite GT. cbn. apply in_grow, in_or_app. right. left. reflexivity.
    + intros o n ss s [Hl|Hin]; [|apply (S4 o n ss s Hin)]. subst l. simpl in E. destruct (ahas _ n); [discriminate|].
      destruct (strand_lens_of p ss) as [lens|]; [|discriminate]. simpl in E. destruct (get_bonds s); [|discriminate]. simpl in E.
      destruct (Comp.Struct.structure_ok s lens); [|discriminate]. inversion E; subst p1. eexists. rewrite GU. cbn. apply in_grow, in_or_app. right. left. reflexivity. Qed.

(* the classification of items does not change as the tables grow *)
Definition classify (p : pspec) (items : list (string * bool)) : list sref :=
  map (fun '(m, st) => if ahas (p_bases p) m then SB m st else SS m st) items.
Lemma get_seqs_classify p items rs : get_seqs p items = OK rs ->
  rs = classify p items /\ forall m st, In (m, st) items -> ahas (p_bases p) m = true \/ ahas (p_sups p) m = true.
Proof. revert rs. induction items as [|[m st] items IH]; intros rs H; simpl in H; [inversion H; split; [reflexivity | intros ? ? []]|].
  destruct (ahas (p_bases p) m) eqn:AB.
  - destruct (get_seqs p items) as [rest|]; [|discriminate]. simpl in H. inversion H; subst. destruct (IH rest eq_refl) as [E D]. split.
    + simpl. rewrite AB, <- E. reflexivity.
    + intros m' st' [Hq|Hin]; [inversion Hq; subst; auto | apply (D m' st' Hin)].
  - destruct (ahas (p_sups p) m) eqn:AS; [|discriminate]. destruct (get_seqs p items) as [rest|]; [|discriminate]. simpl in H. inversion H; subst.
    destruct (IH rest eq_refl) as [E D]. split.
    + simpl. rewrite AB, <- E. reflexivity.
    + intros m' st' [Hq|Hin]; [inversion Hq; subst; auto | apply (D m' st' Hin)]. Qed.
Lemma classify_grows p1 p items : grows p1 p -> LI p ->
  (forall m st, In (m, st) items -> ahas (p_bases p1) m = true \/ ahas (p_sups p1) m = true) -> classify p items = classify p1 items.
Proof. intros [[xb GB] [[xs GS] _]] I D. unfold classify. apply map_ext_in. intros [m st] Hin. destruct (D m st Hin) as [A|A].
  - rewrite A. rewrite GB, ahas_app, A. reflexivity.
  - assert (NB : ahas (p_bases p) m = false).
    { destruct (ahas (p_bases p) m) eqn:Q; [|reflexivity]. exfalso. apply ahas_true_In in Q. apply ahas_true_In in A.
      apply (NoDup_app_disj _ _ (li_nd_seq p I) m Q). rewrite GS, map_app. apply in_or_app. left. exact A. }
    rewrite NB. destruct (ahas (p_bases p1) m) eqn:Q; [|reflexivity]. rewrite GB, ahas_app, Q in NB. discriminate. Qed.
Lemma refs_len_grows p1 p rs : grows p1 p -> (forall it, In it rs -> iok p1 (List.length (p_sups p1)) it) -> refs_len p rs = refs_len p1 rs.
Proof. intros [GB [GS _]] H. rewrite !refs_len_total. apply (refs_total_grow p1 p GB GS _ rs H). Qed.
