(* The graph `seed` returns is the declarative graph of DGraph.v (strand layout): every phase of
   seed appends exactly the nodes and links the declarative lists name, in the same order. *)
From Coq Require Import List String Ascii Arith Bool Lia.
From PC Require Import Base.Codes Comp.Syntax Comp.Compile Comp.EmitProofs Design.Designer Design.DGraph Design.DenoteGraph Design.DenoteTie.
Import ListNotations.
Local Open Scope list_scope.

Definition gext (g : cgraph) (st : list (nat * ascii)) (eq wc : list (nat * nat)) : cgraph :=
  {| g_keys := g_keys g ++ map fst st; g_st := g_st g ++ st; g_eq := g_eq g ++ eq; g_wc := g_wc g ++ wc |}.
Lemma gext_gext g a b c a' b' c' : gext (gext g a b c) a' b' c' = gext g (a ++ a') (b ++ b') (c ++ c').
Proof. unfold gext. simpl. rewrite map_app, !app_assoc. reflexivity. Qed.
Lemma gext_nil g : gext g [] [] [] = g.
Proof. destruct g. unfold gext. simpl. rewrite !app_nil_r. reflexivity. Qed.
Lemma g_init_ext g x c : g_init g x c = gext g [(x, c)] [] [].
Proof. unfold g_init, gext. simpl. rewrite !app_nil_r. reflexivity. Qed.
Lemma g_add_eq_ext g x y : g_add_eq g x y = gext g [] [(x, y)] [].
Proof. unfold g_add_eq, gext. simpl. rewrite !app_nil_r. reflexivity. Qed.
Lemma g_add_wc_ext g x y : g_add_wc g x y = gext g [] [] [(x, y)].
Proof. unfold g_add_wc, gext. simpl. rewrite !app_nil_r. reflexivity. Qed.

(* plain folds *)
Lemma fold_init {X} (f : X -> nat) (c : X -> ascii) l : forall g,
  fold_left (fun g x => g_init g (f x) (c x)) l g = gext g (map (fun x => (f x, c x)) l) [] [].
Proof. induction l as [|x l IH]; intros g; simpl; [symmetry; apply gext_nil|]. rewrite IH, g_init_ext, gext_gext. reflexivity. Qed.
Lemma fold_add_eq {X} (f h : X -> nat) l : forall g,
  fold_left (fun g x => g_add_eq g (f x) (h x)) l g = gext g [] (map (fun x => (f x, h x)) l) [].
Proof. induction l as [|x l IH]; intros g; simpl; [symmetry; apply gext_nil|]. rewrite IH, g_add_eq_ext, gext_gext. reflexivity. Qed.
Lemma fold_view {X} (f h k : X -> nat) l : forall g,
  fold_left (fun g x => g_add_wc (g_init g (f x) Nc) (h x) (k x)) l g =
  gext g (map (fun x => (f x, Nc)) l) [] (map (fun x => (h x, k x)) l).
Proof. induction l as [|x l IH]; intros g; simpl; [symmetry; apply gext_nil|]. rewrite IH, g_init_ext, g_add_wc_ext, !gext_gext. reflexivity. Qed.

Lemma fold_gext {X} (F : cgraph -> X -> cgraph) A B C l :
  (forall g x, F g x = gext g (A x) (B x) (C x)) ->
  forall g, fold_left F l g = gext g (flat_map A l) (flat_map B l) (flat_map C l).
Proof. intros H. induction l as [|x l IH]; intros g; simpl; [symmetry; apply gext_nil|]. rewrite IH, H, gext_gext. reflexivity. Qed.

(* monadic folds: an error is absorbing; a successful step extends the graph *)
Lemma fold_err {X} (F : res cgraph -> X -> res cgraph) l k : (forall k x, F (Err k) x = Err k) -> fold_left F l (Err k) = Err k.
Proof. intros H. induction l as [|x l IH]; simpl; [reflexivity|]. rewrite H. exact IH. Qed.
Lemma fold_gext_res {X} (F : res cgraph -> X -> res cgraph) A B C l :
  (forall k x, F (Err k) x = Err k) ->
  (forall g x g', In x l -> F (OK g) x = OK g' -> g' = gext g (A x) (B x) (C x)) ->
  forall g g', fold_left F l (OK g) = OK g' -> g' = gext g (flat_map A l) (flat_map B l) (flat_map C l).
Proof. intros HE H. induction l as [|x l IH]; intros g g' E; simpl in E.
  - inversion E. symmetry. apply gext_nil.
  - destruct (F (OK g) x) as [g1|k] eqn:Q; [|rewrite (fold_err F l k HE) in E; discriminate].
    rewrite (H g x g1 (or_introl eq_refl) Q) in E. rewrite (IH (fun g0 y g2 Hy => H g0 y g2 (or_intror Hy)) _ g' E). simpl. rewrite gext_gext. reflexivity. Qed.

Section Seed.
Variable p : pspec.
Variable lay : layout.
Local Notation encn := (enc p lay).

(* ---- positions of structures ---- *)
Lemma walk_index_sym names : forall x base i, walk_index p names x base false (l_tstart lay) = Some i ->
  exists n o, walk_sym p names x = Some (n, o) /\ i = encn (DPos n o).
Proof. induction names as [|n names IH]; intros x base i H; cbn [walk_index] in H; [discriminate|].
  cbn [walk_sym]. unfold strand_len at 1. match type of H with context [Nat.leb ?a x] => destruct (Nat.leb a x) end; [apply (IH _ _ _ H)|].
  destruct (afind (l_tstart lay) n) as [s0|] eqn:A; [|discriminate]. inversion H; subst. exists n, x. split; [reflexivity|].
  simpl. unfold tstart_of. rewrite A. reflexivity. Qed.

(* ---- items of an object ---- *)
Lemma items_links_ext items : forall offset target dt g g', (forall o, target o = encn (dt o)) ->
  items_links lay p items offset target g = OK g' ->
  g' = gext g [] (enc_links p lay (item_links p items offset dt)) [].
Proof. induction items as [|it items IH]; intros offset target dt g g' HT H; simpl in H.
  - inversion H. symmetry. apply gext_nil.
  - simpl. destruct (sref_num p it) as [num|]; [|discriminate].
    rewrite (fold_add_eq (fun x => target (offset + x)) (fun x => aux lay p num x)) in H.
    rewrite (IH _ _ dt _ _ HT H), gext_gext. simpl. f_equal. unfold enc_links. rewrite map_app, map_map. f_equal.
    apply map_ext. intros x. simpl. rewrite HT. reflexivity. Qed.

Lemma flat_map_nil {X Y} (l : list X) : flat_map (fun _ : X => @nil Y) l = [].
Proof. induction l; simpl; auto. Qed.
Lemma map_flat_map {X Y Z} (f : Y -> Z) (h : X -> list Y) l : map f (flat_map h l) = flat_map (fun x => map f (h x)) l.
Proof. induction l as [|x l IH]; simpl; [reflexivity|]. rewrite map_app, IH. reflexivity. Qed.
Lemma flat_map_ext_in {X Y} (f h : X -> list Y) l : (forall x, In x l -> f x = h x) -> flat_map f l = flat_map h l.
Proof. induction l as [|x l IH]; intros H; simpl; [reflexivity|]. rewrite (H x (or_introl eq_refl)), IH; [reflexivity|]. intros y Hy. apply H. right. exact Hy. Qed.

Local Notation encnode := (fun nc : dnode * ascii => (encn (fst nc), snd nc)).

(* phase 1: the strand positions *)
Lemma phase1 :
  fold_left (fun g '(n, (_, len, _)) =>
      let s := match afind (l_tstart lay) n with Some s => s | None => 0 end in
      fold_left (fun g x => g_init g (s + x) Nc) (seq 0 len) g) (p_strands p) g0 =
  gext g0 (map encnode (pos_nodes p false)) [] [].
Proof. rewrite (fold_gext _ (fun '(n, (_, len, _)) => map (fun x => (tstart_of lay n + x, Nc)) (seq 0 len)) (fun _ => []) (fun _ => [])).
  - rewrite !flat_map_nil. f_equal. unfold pos_nodes. rewrite map_flat_map. apply flat_map_ext_in. intros [n [[its len] d]] _.
    rewrite map_map. reflexivity.
  - intros g [n [[its len] d]]. cbv zeta. rewrite (fold_init (fun x => match afind (l_tstart lay) n with Some s => s | None => 0 end + x) (fun _ => Nc)). reflexivity. Qed.

(* phase 2: the base pairs of the target structures *)
Lemma phase2 g g' :
  fold_left (fun rg '(sn, (names, s, _)) =>
      do g <- rg; do bs <- get_bonds s;
      fold_left (fun rg '(x, y) => do g <- rg;
           match struct_index lay p false sn names x, struct_index lay p false sn names y with
           | Some x2, Some y2 => OK (g_add_wc g x2 y2)
           | _, _ => Err "bond-index" end) bs (OK g))
      (p_structs p) (OK g) = OK g' ->
  g' = gext g [] [] (enc_links p lay (bond_links p false)).
Proof. intros H.
  apply (fold_gext_res _ (fun _ => []) (fun _ => [])
     (fun '(sn, (names, s, _)) => enc_links p lay match get_bonds s with
        | OK bs => flat_map (fun '(x, y) => match walk_sym p names x, walk_sym p names y with
                                             | Some (n1, o1), Some (n2, o2) => [(DPos n1 o1, DPos n2 o2)] | _, _ => [] end) bs
        | Err _ => [] end)) in H.
  - rewrite !flat_map_nil in H. rewrite H. f_equal. unfold bond_links, enc_links. rewrite map_flat_map. apply flat_map_ext_in. intros [sn [[names s] l]] _. reflexivity.
  - intros k [sn [[names s] l]]. reflexivity.
  - intros g1 [sn [[names s] l]] g2 _ E. cbn [bind] in E. destruct (get_bonds s) as [bs|k]; [|discriminate]. cbn [bind] in E.
    apply (fold_gext_res _ (fun _ => []) (fun _ => [])
       (fun '(x, y) => enc_links p lay match walk_sym p names x, walk_sym p names y with
                                       | Some (n1, o1), Some (n2, o2) => [(DPos n1 o1, DPos n2 o2)] | _, _ => [] end)) in E.
    + rewrite !flat_map_nil in E. rewrite E. f_equal. unfold enc_links. rewrite map_flat_map. apply flat_map_ext_in. intros [x y] _. reflexivity.
    + intros k [x y]. reflexivity.
    + intros g3 [x y] g4 _ E2. cbn [bind] in E2. unfold struct_index in E2.
      destruct (walk_index p names x _ false (l_tstart lay)) as [x2|] eqn:WX; [|discriminate].
      destruct (walk_index p names y _ false (l_tstart lay)) as [y2|] eqn:WY; [|discriminate].
      destruct (walk_index_sym names x _ x2 WX) as [n1 [o1 [S1 ->]]]. destruct (walk_index_sym names y _ y2 WY) as [n2 [o2 [S2 ->]]].
      inversion E2. rewrite S1, S2, g_add_wc_ext. reflexivity. Qed.

(* phase 3: sequences, super-sequences and their reversed views *)
Lemma fold_template num t : forall g x0,
  fold_left (fun '(g, x) c => (g_init g (aux lay p num x) c, S x)) t (g, x0) =
  (gext g (map (fun xc => (aux lay p num (fst xc), snd xc)) (combine (seq x0 (List.length t)) t)) [] [], x0 + List.length t).
Proof. induction t as [|c t IH]; intros g x0; simpl; [rewrite gext_nil, Nat.add_0_r; reflexivity|].
  rewrite IH, g_init_ext, gext_gext. simpl. f_equal. lia. Qed.

Lemma phase3_bases bs : forall g num,
  fold_left (fun '(g, num) '(_, t) =>
      let l := List.length t in
      let ga := fold_left (fun '(g, x) c => (g_init g (aux lay p num x) c, S x)) t (g, 0) in
      let gb := fold_left (fun g x => g_add_wc (g_init g (aux lay p (S num) x) Nc) (aux lay p (S num) x) (aux lay p num (l - x - 1))) (seq 0 l) (fst ga) in
      (gb, S (S num))) bs (g, num) =
  (gext g (map encnode (base_nodes bs num)) [] (enc_links p lay (view_links (map (fun bt => List.length (snd bt)) bs) num)), num + 2 * List.length bs).
Proof. induction bs as [|[n t] bs IH]; intros g num; simpl; [rewrite gext_nil; f_equal; lia|].
  rewrite fold_template. cbn [fst]. rewrite (fold_view (fun x => aux lay p (S num) x) (fun x => aux lay p (S num) x) (fun x => aux lay p num (List.length t - x - 1))).
  rewrite IH, !gext_gext. f_equal; [|lia]. simpl. f_equal.
  - rewrite !map_app, !map_map. reflexivity.
  - unfold enc_links. rewrite map_app, map_map. reflexivity. Qed.

Lemma phase3_sups ss : forall g num,
  fold_left (fun '(g, num) '(_, (_, l)) =>
      let ga := fold_left (fun g x => g_init g (aux lay p num x) Nc) (seq 0 l) g in
      let gb := fold_left (fun g x => g_add_wc (g_init g (aux lay p (S num) x) Nc) (aux lay p (S num) x) (aux lay p num (l - x - 1))) (seq 0 l) ga in
      (gb, S (S num))) ss (g, num) =
  (gext g (map encnode (sup_nodes ss num)) [] (enc_links p lay (view_links (map (fun s => snd (snd s)) ss) num)), num + 2 * List.length ss).
Proof. induction ss as [|[n [its l]] ss IH]; intros g num; simpl; [rewrite gext_nil; f_equal; lia|].
  rewrite (fold_init (fun x => aux lay p num x) (fun _ => Nc)).
  rewrite (fold_view (fun x => aux lay p (S num) x) (fun x => aux lay p (S num) x) (fun x => aux lay p num (l - x - 1))).
  rewrite IH, !gext_gext. f_equal; [|lia]. simpl. f_equal.
  - rewrite !map_app, !map_map. reflexivity.
  - unfold enc_links. rewrite map_app, map_map. reflexivity. Qed.

(* phase 4: equal statements *)
Lemma phase4 g g' :
  fold_left (fun rg eqlist =>
      do g <- rg;
      match eqlist with
      | [] => OK g
      | first :: rest =>
          match sref_num p first with
          | None => Err "internal-unnumbered"
          | Some n0 =>
              fold_left (fun rg s => do g <- rg;
                  match sref_num p s with
                  | Some n1 => OK (fold_left (fun g x => g_add_eq g (aux lay p n0 x) (aux lay p n1 x)) (seq 0 (sref_len p s)) g)
                  | None => Err "internal-unnumbered" end) rest (OK g)
          end
      end) (p_equals p) (OK g) = OK g' ->
  g' = gext g [] (enc_links p lay (equal_links p)) [].
Proof. intros H.
  apply (fold_gext_res _ (fun _ => []) (fun eqlist => enc_links p lay
     match eqlist with
     | [] => []
     | first :: rest => match sref_num p first with
                        | None => []
                        | Some n0 => flat_map (fun s => match sref_num p s with
                                                        | Some n1 => map (fun x => (DAux n0 x, DAux n1 x)) (seq 0 (sref_len p s))
                                                        | None => [] end) rest end end) (fun _ => [])) in H.
  - rewrite !flat_map_nil in H. rewrite H. f_equal. unfold equal_links, enc_links. rewrite map_flat_map. reflexivity.
  - intros k x. reflexivity.
  - intros g1 eqlist g2 _ E. cbn [bind] in E. destruct eqlist as [|first rest]; [inversion E; symmetry; apply gext_nil|].
    destruct (sref_num p first) as [n0|]; [|discriminate].
    apply (fold_gext_res _ (fun _ => []) (fun s => enc_links p lay match sref_num p s with
                 | Some n1 => map (fun x => (DAux n0 x, DAux n1 x)) (seq 0 (sref_len p s)) | None => [] end) (fun _ => [])) in E.
    + rewrite !flat_map_nil in E. rewrite E. f_equal. unfold enc_links. rewrite map_flat_map. reflexivity.
    + intros k x. reflexivity.
    + intros g3 s0 g4 _ E2. cbn [bind] in E2. destruct (sref_num p s0) as [n1|]; [|discriminate]. inversion E2.
      rewrite (fold_add_eq (fun x => aux lay p n0 x) (fun x => aux lay p n1 x)). f_equal. unfold enc_links. rewrite map_map. reflexivity. Qed.

(* phase 5: the items of super-sequences *)
Lemma phase5 g g' :
  fold_left (fun rg '(n, (items, _)) =>
      do g <- rg;
      match sref_num p (SS n false) with
      | Some num => items_links lay p items 0 (fun o => aux lay p num o) g
      | None => Err "internal-unnumbered" end) (p_sups p) (OK g) = OK g' ->
  g' = gext g [] (enc_links p lay (sup_item_links p)) [].
Proof. intros H.
  apply (fold_gext_res _ (fun _ => []) (fun '(n, (items, _)) => enc_links p lay
     match sref_num p (SS n false) with Some num => item_links p items 0 (fun o => DAux num o) | None => [] end) (fun _ => [])) in H.
  - rewrite !flat_map_nil in H. rewrite H. f_equal. unfold sup_item_links, enc_links. rewrite map_flat_map. apply flat_map_ext_in. intros [n [items l]] _. reflexivity.
  - intros k [n [items l]]. reflexivity.
  - intros g1 [n [items l]] g2 _ E. cbn [bind] in E. destruct (sref_num p (SS n false)) as [num|]; [|discriminate].
    apply (items_links_ext items 0 (fun o => aux lay p num o) (fun o => DAux num o) g1 g2 (fun o => eq_refl) E). Qed.

(* phase 6: the items of strands *)
Lemma item_links_zero items : forall offset dt, forallb (fun it => Nat.eqb (sref_len p it) 0) items = true -> item_links p items offset dt = [].
Proof. induction items as [|it items IH]; intros offset dt H; [reflexivity|]. simpl in H. apply andb_prop in H. destruct H as [H1 H2].
  apply Nat.eqb_eq in H1. simpl. destruct (sref_num p it); [|reflexivity]. rewrite H1. simpl. apply IH, H2. Qed.
Lemma phase6 g g' :
  fold_left (fun rg '(n, (items, _, _)) =>
      do g <- rg;
      match afind (l_tstart lay) n with
      | Some s => items_links lay p items 0 (fun o => s + o) g
      | None => if forallb (fun it => Nat.eqb (sref_len p it) 0) items then OK g
                else if false then Err "strand-not-in-structure" else Err "internal" end) (p_strands p) (OK g) = OK g' ->
  g' = gext g [] (enc_links p lay (strand_item_links p false)) [].
Proof. intros H.
  apply (fold_gext_res _ (fun _ => []) (fun '(n, (items, _, _)) => enc_links p lay (item_links p items 0 (fun o => DPos n o))) (fun _ => [])) in H.
  - rewrite !flat_map_nil in H. rewrite H. f_equal. unfold strand_item_links, enc_links. rewrite map_flat_map. apply flat_map_ext_in. intros [n [[items l] d]] _. reflexivity.
  - intros k [n [[items l] d]]. reflexivity.
  - intros g1 [n [[items l] d]] g2 _ E. cbn [bind] in E. destruct (afind (l_tstart lay) n) as [s0|] eqn:A.
    + apply (items_links_ext items 0 (fun o => s0 + o) (fun o => DPos n o) g1 g2); [|exact E]. intros o. simpl. unfold tstart_of. rewrite A. reflexivity.
    + destruct (forallb _ items) eqn:Z; [|discriminate]. inversion E. rewrite (item_links_zero items 0 _ Z). symmetry. apply gext_nil. Qed.

End Seed.

Section SeedStrand.
Variable p : pspec.
Let lay := build_layout p false.
Local Notation encn := (enc p lay).
Local Notation encnode := (fun nc : dnode * ascii => (encn (fst nc), snd nc)).
Theorem seed_graph lay' g : seed p false = OK (lay', g) ->
  lay' = lay /\ g_st g = map encnode (d_nodes p false) /\ g_eq g = enc_links p lay (d_eq p false) /\ g_wc g = enc_links p lay (d_wc p false) /\
  g_keys g = map fst (g_st g).
Proof. unfold seed. cbv zeta. change (build_layout p false) with lay. intros H. cbn [bind] in H.
  pose proof (phase1 p lay) as P1. cbv zeta in P1. rewrite P1 in H. clear P1.
  match type of H with (do g3 <- ?e; _) = _ => destruct e as [g3|k] eqn:P2; [|discriminate] end. cbn [bind] in H.
  apply (phase2 p lay) in P2. subst g3.
  pose proof (phase3_bases p lay (p_bases p)) as P3. cbv zeta in P3. rewrite P3 in H. clear P3.
  pose proof (phase3_sups p lay (p_sups p)) as P3. cbv zeta in P3. rewrite P3 in H. clear P3.
  match type of H with (do g6 <- ?e; _) = _ => destruct e as [g6|k] eqn:P4; [|discriminate] end. cbn [bind] in H.
  apply (phase4 p lay) in P4. subst g6.
  match type of H with (do g7 <- ?e; _) = _ => destruct e as [g7|k] eqn:P5; [|discriminate] end. cbn [bind] in H.
  apply (phase5 p lay) in P5. subst g7.
  match type of H with (do g8 <- ?e; _) = _ => destruct e as [g8|k] eqn:P6; [|discriminate] end. cbn [bind] in H.
  apply (phase6 p lay) in P6. subst g8. inversion H; subst lay' g. clear H. rewrite !gext_gext. split; [reflexivity|]. cbn [gext g_st g_eq g_wc g0].
  unfold d_nodes, d_eq, d_wc, inst_links, nb, enc_links. rewrite !map_app, !app_nil_r. simpl. repeat split; try reflexivity. rewrite !map_app. reflexivity. Qed.
End SeedStrand.

(* ---- the boolean used by the denotation theorems follows ---- *)
Lemma pairs_eqb_refl l : pairs_eqb l l = true.
Proof. induction l as [|[x y] l IH]; [reflexivity|]. simpl. rewrite !Nat.eqb_refl. exact IH. Qed.
Lemma nodes_eqb_refl l : nodes_eqb l l = true.
Proof. induction l as [|[x c] l IH]; [reflexivity|]. simpl. rewrite Nat.eqb_refl, Ascii.eqb_refl. exact IH. Qed.
Theorem seed_same_graph p lay g : seed p false = OK (lay, g) -> same_graph p lay false g = true.
Proof. intros H. destruct (seed_graph p lay g H) as [-> [E1 [E2 [E3 _]]]]. unfold same_graph. rewrite E1, E2, E3, nodes_eqb_refl, !pairs_eqb_refl. reflexivity. Qed.
