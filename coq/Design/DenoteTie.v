(* C04 / C15: from the graph `seed` returns to the denotation of the document.  When the seeded
   graph equals the declarative graph of DGraph.v (same_graph, a boolean evaluated per case) and the
   loaded specification is well formed (spec_okb) and the node encoding is strictly increasing with
   every link between declared nodes (dgraph_ok), connectivity in the seeded graph between two
   nodes is connectivity of their canonical nucleotides under the document's equal statements and
   base pairs. *)
From Coq Require Import List String Ascii Arith Bool Lia.
From PC Require Import Base.Codes Comp.Syntax Comp.Compile Comp.EmitProofs Design.Propagate Design.PropagateProofs Design.Designer Design.DesignerProofs
  Design.Contraction Design.DGraph Design.DenoteGraph.
Import ListNotations.
Local Open Scope list_scope.

(* ---- A: closure connectivity over adjacency functions = parity connectivity over the link list ---- *)
Definition nlinks (E W : list (nat * nat)) : list (link nat) :=
  map (fun ab => (fst ab, snd ab, false)) E ++ map (fun ab => (fst ab, snd ab, true)) W.
Lemma In_nlinks E W a b q : In (a, b, q) (nlinks E W) <-> (q = false /\ In (a, b) E) \/ (q = true /\ In (a, b) W).
Proof. unfold nlinks. rewrite in_app_iff, !in_map_iff. split.
  - intros [[[x y] [H I]]|[[x y] [H I]]]; simpl in H; inversion H; subst; auto.
  - intros [[-> H]|[-> H]]; [left | right]; exists (a, b); auto. Qed.
Lemma conn_pconn E W x q z : conn (adj E) (adj W) x q z <-> pconn nat (nlinks E W) x q z.
Proof. split; intros H.
  - induction H as [|q y z C IH Hz|q y z C IH Hz].
    + constructor.
    + apply adj_In in Hz. rewrite <- (xorb_false_r q). destruct Hz as [Hz|Hz].
      * eapply pc_fwd; [exact IH | apply In_nlinks; left; auto].
      * eapply pc_bwd; [exact IH | apply In_nlinks; left; auto].
    + apply adj_In in Hz. replace (negb q) with (xorb q true) by (destruct q; reflexivity). destruct Hz as [Hz|Hz].
      * eapply pc_fwd; [exact IH | apply In_nlinks; right; auto].
      * eapply pc_bwd; [exact IH | apply In_nlinks; right; auto].
  - induction H as [|q y z r C IH Hz|q y z r C IH Hz].
    + constructor.
    + apply In_nlinks in Hz. destruct Hz as [[-> Hz]|[-> Hz]].
      * rewrite xorb_false_r. eapply conn_eq; [exact IH | apply adj_In; left; exact Hz].
      * replace (xorb q true) with (negb q) by (destruct q; reflexivity). eapply conn_wc; [exact IH | apply adj_In; left; exact Hz].
    + apply In_nlinks in Hz. destruct Hz as [[-> Hz]|[-> Hz]].
      * rewrite xorb_false_r. eapply conn_eq; [exact IH | apply adj_In; right; exact Hz].
      * replace (xorb q true) with (negb q) by (destruct q; reflexivity). eapply conn_wc; [exact IH | apply adj_In; right; exact Hz]. Qed.

(* ---- B: transfer of connectivity along an encoding that is injective on the declared nodes ---- *)
Section Transfer.
Variables A B : Type.
Variable f : A -> B.
Variable V : A -> Prop.
Variable L : list (link A).
Hypothesis f_inj : forall x y, V x -> V y -> f x = f y -> x = y.
Hypothesis L_valid : forall a b q, In (a, b, q) L -> V a /\ V b.
Definition f3 (l : link A) : link B := let '(a, b, q) := l in (f a, f b, q).

Lemma transfer_fwd x q b : V x -> pconn B (map f3 L) (f x) q b -> exists y, V y /\ b = f y /\ pconn A L x q y.
Proof. intros Vx H. remember (f x) as fx eqn:Efx. induction H as [|q w z r C IH Hz|q w z r C IH Hz].
  - exists x. split; [exact Vx | split; [exact Efx | constructor]].
  - destruct IH as [y [Vy [Ew Py]]]. apply in_map_iff in Hz. destruct Hz as [[[a b'] r'] [E Hin]]. simpl in E. inversion E; subst.
    destruct (L_valid a b' r Hin) as [Va Vb]. assert (a = y) by (apply f_inj; auto). subst a.
    exists b'. split; [exact Vb | split; [reflexivity | eapply pc_fwd; eauto]].
  - destruct IH as [y [Vy [Ew Py]]]. apply in_map_iff in Hz. destruct Hz as [[[a b'] r'] [E Hin]]. simpl in E. inversion E; subst.
    destruct (L_valid a b' r Hin) as [Va Vb]. assert (b' = y) by (apply f_inj; auto). subst b'.
    exists a. split; [exact Va | split; [reflexivity | eapply pc_bwd; eauto]]. Qed.
Lemma transfer_bwd x q y : pconn A L x q y -> pconn B (map f3 L) (f x) q (f y).
Proof. intros H. induction H as [|q w z r C IH Hz|q w z r C IH Hz].
  - constructor.
  - eapply pc_fwd; [exact IH|]. apply in_map_iff. exists (w, z, r). auto.
  - eapply pc_bwd; [exact IH|]. apply in_map_iff. exists (z, w, r). auto. Qed.
Theorem transfer x q y : V x -> V y -> (pconn B (map f3 L) (f x) q (f y) <-> pconn A L x q y).
Proof. intros Vx Vy. split; [|apply transfer_bwd]. intros H. destruct (transfer_fwd x q (f y) Vx H) as [y' [Vy' [E P]]].
  assert (y = y') by (apply f_inj; auto). subst y'. exact P. Qed.
End Transfer.

(* ---- boolean checks, each proved sound ---- *)
Definition dnode_eqb (a b : dnode) : bool :=
  match a, b with
  | DPos n o, DPos m u => String.eqb n m && Nat.eqb o u
  | DInst n o, DInst m u => String.eqb n m && Nat.eqb o u
  | DAux n x, DAux m y => Nat.eqb n m && Nat.eqb x y
  | _, _ => false
  end.
Lemma dnode_eqb_eq a b : dnode_eqb a b = true <-> a = b.
Proof. destruct a as [n o|n o|n x], b as [m u|m u|m y]; simpl; try (split; discriminate).
  - rewrite andb_true_iff, String.eqb_eq, Nat.eqb_eq. split; [intros [-> ->]; reflexivity | intros E; inversion E; auto].
  - rewrite andb_true_iff, String.eqb_eq, Nat.eqb_eq. split; [intros [-> ->]; reflexivity | intros E; inversion E; auto].
  - rewrite andb_true_iff, !Nat.eqb_eq. split; [intros [-> ->]; reflexivity | intros E; inversion E; auto]. Qed.
Definition memd (a : dnode) (l : list dnode) : bool := existsb (dnode_eqb a) l.
Lemma memd_In a l : memd a l = true -> In a l.
Proof. unfold memd. rewrite existsb_exists. intros [b [H E]]. apply dnode_eqb_eq in E. subst. exact H. Qed.

Fixpoint sincr (l : list nat) : bool :=
  match l with
  | a :: (b :: _) as r => Nat.ltb a b && sincr r
  | _ => true
  end.
Lemma sincr_lt l : sincr l = true -> forall a r, l = a :: r -> forall b, In b r -> a < b.
Proof. induction l as [|a0 l IH]; intros H a r E b Hb; [discriminate|]. inversion E; subst. destruct r as [|c r]; [destruct Hb|].
  cbn [sincr] in H. apply andb_prop in H. destruct H as [H1 H2]. apply Nat.ltb_lt in H1. destruct Hb as [->|Hb]; [exact H1|].
  pose proof (IH H2 c r eq_refl b Hb). lia. Qed.
Lemma sincr_inj {X} (f : X -> nat) (l : list X) : sincr (map f l) = true -> forall x y, In x l -> In y l -> f x = f y -> x = y.
Proof. induction l as [|a l IH]; intros H x y Hx Hy E; [destruct Hx|].
  assert (T : sincr (map f l) = true).
  { cbn [map sincr] in H. destruct (map f l) eqn:M; [reflexivity|]. apply andb_prop in H. apply H. }
  pose proof (sincr_lt _ H (f a) (map f l) eq_refl) as LT.
  destruct Hx as [->|Hx], Hy as [->|Hy]; [reflexivity | | | apply IH; auto].
  - specialize (LT (f y) (in_map f _ _ Hy)). lia.
  - specialize (LT (f x) (in_map f _ _ Hx)). lia. Qed.

Lemma pairs_eqb_eq a : forall b, pairs_eqb a b = true -> a = b.
Proof. induction a as [|[x y] a IH]; intros [|[u w] b] H; simpl in H; try discriminate; [reflexivity|].
  apply andb_prop in H. destruct H as [H H3]. apply andb_prop in H. destruct H as [H1 H2].
  apply Nat.eqb_eq in H1. apply Nat.eqb_eq in H2. subst. f_equal. apply IH, H3. Qed.
Lemma nodes_eqb_eq a : forall b, nodes_eqb a b = true -> a = b.
Proof. induction a as [|[x c] a IH]; intros [|[u d] b] H; simpl in H; try discriminate; [reflexivity|].
  apply andb_prop in H. destruct H as [H H3]. apply andb_prop in H. destruct H as [H1 H2].
  apply Nat.eqb_eq in H1. apply Ascii.eqb_eq in H2. subst. f_equal. apply IH, H3. Qed.

Section Tie.
Variable p : pspec.
Variable lay : layout.
Variable so : bool.
Definition nodes : list dnode := map fst (d_nodes p so).
Definition dlinks : list dlink := d_eq p so ++ d_wc p so.
Definition dgraph_ok : bool :=
  sincr (map (enc p lay) nodes) && forallb (fun ab => memd (fst ab) nodes && memd (snd ab) nodes) dlinks.

(* every strand position sits where the layout says, inside the arrays, and is the node process_results reads *)
Definition place_okb : bool :=
  forallb (fun '(n, (_, l, _)) =>
     (Nat.eqb l 0 || match afind (l_tstart lay) n with Some _ => true | None => false end) &&
     forallb (fun o => Nat.eqb (enc p lay (spos p so n o)) (tstart_of lay n + o) && Nat.ltb (tstart_of lay n + o) (l_npos lay)) (seq 0 l))
    (p_strands p).

(* the loaded specification is well formed *)
Definition item_okb (bound : nat) (it : sref) : bool :=
  match it with
  | SB n _ => match base_index p n with Some _ => true | None => false end
  | SS n _ => match sup_index p n with Some j => Nat.ltb j bound | None => false end
  end.
Fixpoint nodup_str (l : list string) : bool :=
  match l with [] => true | a :: r => negb (existsb (String.eqb a) r) && nodup_str r end.
Fixpoint sups_okb (ss : list (string * (list sref * nat))) (j : nat) : bool :=
  match ss with
  | [] => true
  | (_, (items, l)) :: r => forallb (item_okb j) items && Nat.eqb l (refs_total p items) && sups_okb r (S j)
  end.
Definition spec_okb : bool :=
  nodup_str (map fst (p_sups p)) && nodup_str (map fst (p_strands p)) && sups_okb (p_sups p) 0 &&
  forallb (fun '(_, (items, l, _)) => forallb (item_okb (List.length (p_sups p))) items && Nat.eqb l (refs_total p items)) (p_strands p) &&
  (if so then nodup_str (map fst (p_structs p)) &&
              forallb (fun '(n, (_, l, _)) => Nat.eqb l 0 || match first_inst_in p (p_structs p) n with Some _ => true | None => false end) (p_strands p) &&
              forallb (fun '(_, (names, _, len)) => Nat.eqb len (total p names)) (p_structs p)
   else true) &&
  nodup_str (map fst (p_bases p) ++ map fst (p_sups p)).
End Tie.

Lemma NoDup_app_l {X} (a b : list X) : NoDup (a ++ b) -> NoDup a.
Proof. induction a as [|x a IH]; intros H; [constructor|]. inversion H; subst. constructor; [intros C; apply H2, in_or_app; left; exact C | apply IH; assumption]. Qed.
Lemma NoDup_app_disj {X} (a b : list X) : NoDup (a ++ b) -> forall x, In x a -> In x b -> False.
Proof. induction a as [|y a IH]; intros H x Ha Hb; [destruct Ha|]. inversion H; subst. destruct Ha as [->|Ha].
  - apply H2, in_or_app. right. exact Hb.
  - apply (IH H3 x Ha Hb). Qed.
Lemma nodup_str_NoDup l : nodup_str l = true -> NoDup l.
Proof. induction l as [|a l IH]; simpl; intros H; [constructor|]. apply andb_prop in H. destruct H as [H1 H2].
  constructor; [|apply IH, H2]. intros C. apply negb_true_iff in H1. assert (T : existsb (String.eqb a) l = true).
  { apply existsb_exists. exists a. split; [exact C | apply String.eqb_refl]. } congruence. Qed.

Lemma index_of_spec {V} (t : list (string * V)) n : forall k0 k, index_of (map fst t) n k0 = Some k ->
  exists v, k0 <= k /\ nth_error t (k - k0) = Some (n, v) /\ afind t n = Some v.
Proof. induction t as [|[m v] t IH]; intros k0 k H; simpl in H; [discriminate|].
  destruct (String.eqb m n) eqn:E.
  - apply String.eqb_eq in E. subst m. inversion H; subst. exists v. rewrite Nat.sub_diag. simpl. rewrite String.eqb_refl. auto.
  - destruct (IH (S k0) k H) as [v' [L [N A]]]. exists v'. split; [lia|]. replace (k - k0) with (S (k - S k0)) by lia. simpl.
    rewrite E. auto. Qed.
Lemma index_of_nth (l : list string) n : NoDup l -> forall k0 j, nth_error l j = Some n -> index_of l n k0 = Some (k0 + j).
Proof. intros ND. induction ND as [|a l NI ND IH]; intros k0 j H; [destruct j; discriminate|].
  destruct j as [|j]; simpl in H.
  - inversion H; subst. simpl. rewrite String.eqb_refl. f_equal. lia.
  - simpl. destruct (String.eqb a n) eqn:E.
    + apply String.eqb_eq in E. subst. exfalso. apply NI. apply (nth_error_In _ _ H).
    + rewrite (IH (S k0) j H). f_equal. lia. Qed.

Lemma item_okb_ok p bound it : item_okb p bound it = true -> item_ok p bound it.
Proof. destruct it as [n r|n r]; simpl.
  - unfold base_index. destruct (index_of (map fst (p_bases p)) n 0) as [k|] eqn:E; [|discriminate]. intros _.
    destruct (index_of_spec _ n 0 k E) as [t [_ [N A]]]. rewrite Nat.sub_0_r in N. exists k, t. auto.
  - unfold sup_index. destruct (index_of (map fst (p_sups p)) n 0) as [j|] eqn:E; [|discriminate]. intros L. apply Nat.ltb_lt in L.
    destruct (index_of_spec _ n 0 j E) as [[items l] [_ [N A]]]. rewrite Nat.sub_0_r in N. exists j, items, l. auto. Qed.

Lemma sups_okb_spec p ss : forall j0, sups_okb p ss j0 = true -> forall j n items l, nth_error ss j = Some (n, (items, l)) ->
  (forall it, In it items -> item_ok p (j0 + j) it) /\ l = refs_total p items.
Proof. induction ss as [|[n0 [items0 l0]] ss IH]; intros j0 H j n items l Hj; [destruct j; discriminate|].
  simpl in H. apply andb_prop in H. destruct H as [H H3]. apply andb_prop in H. destruct H as [H1 H2].
  destruct j as [|j]; simpl in Hj.
  - inversion Hj; subst. rewrite Nat.add_0_r. split; [|apply Nat.eqb_eq, H2]. intros it Hit. apply item_okb_ok.
    rewrite forallb_forall in H1. apply H1, Hit.
  - replace (j0 + S j) with (S j0 + j) by lia. apply (IH (S j0) H3 j n items l Hj). Qed.

Theorem spec_okb_wf p so : spec_okb p so = true -> spec_wf p so.
Proof. unfold spec_okb. intros H. apply andb_prop in H. destruct H as [H H6]. apply nodup_str_NoDup in H6.
  apply andb_prop in H. destruct H as [H H5]. apply andb_prop in H. destruct H as [H H4]. apply andb_prop in H. destruct H as [H H3].
  apply andb_prop in H. destruct H as [H1 H2]. apply nodup_str_NoDup in H1. apply nodup_str_NoDup in H2. constructor.
  - intros j n items l Hj. apply (sups_okb_spec p (p_sups p) 0 H3 j n items l Hj).
  - intros n items l d Hin. split; [apply afind_In; assumption|]. rewrite forallb_forall in H4. specialize (H4 _ Hin). cbn in H4.
    apply andb_prop in H4. destruct H4 as [A B]. split; [|apply Nat.eqb_eq, B]. intros it Hit. apply item_okb_ok.
    rewrite forallb_forall in A. apply A, Hit.
  - intros j n items l Hj. unfold sup_index. assert (N : nth_error (map fst (p_sups p)) j = Some n) by (rewrite nth_error_map, Hj; reflexivity).
    apply (index_of_nth _ n H1 0 j N).
  - intros SO sn v Hin. rewrite SO in H5. apply andb_prop in H5. destruct H5 as [H5 _]. apply andb_prop in H5. destruct H5 as [A _].
    apply nodup_str_NoDup in A. apply afind_In; assumption.
  - intros SO n items l d Hin NZ. rewrite SO in H5. apply andb_prop in H5. destruct H5 as [H5 _]. apply andb_prop in H5. destruct H5 as [_ B].
    rewrite forallb_forall in B. specialize (B _ Hin). cbn in B. apply orb_prop in B. destruct B as [B|B]; [apply Nat.eqb_eq in B; contradiction|].
    destruct (first_inst_in p (p_structs p) n); [discriminate | discriminate].
  - intros k n t Hk. unfold base_index. assert (N : nth_error (map fst (p_bases p)) k = Some n) by (rewrite nth_error_map, Hk; reflexivity).
    apply NoDup_app_l in H6. apply (index_of_nth _ n H6 0 k N).
  - intros n Hb. unfold base_index in Hb. unfold sup_index. destruct (index_of (map fst (p_sups p)) n 0) as [j|] eqn:E; [|reflexivity]. exfalso.
    destruct (index_of (map fst (p_bases p)) n 0) as [k|] eqn:Eb; [|apply Hb; reflexivity].
    destruct (index_of_spec (p_bases p) n 0 k Eb) as [t [_ [Nb _]]]. destruct (index_of_spec (p_sups p) n 0 j E) as [v [_ [Ns _]]].
    apply nth_error_In in Nb. apply nth_error_In in Ns.
    apply (NoDup_app_disj _ _ H6 n); [apply in_map_iff; exists (n, t); auto | apply in_map_iff; exists (n, v); auto].
  - intros SO sn names s len Hin. rewrite SO in H5. apply andb_prop in H5. destruct H5 as [_ C]. rewrite forallb_forall in C.
    specialize (C _ Hin). cbn in C. apply Nat.eqb_eq, C. Qed.

(* ---- the link list of the declarative graph, encoded, is the graph's link list ---- *)
Lemma mk_app q a b : mk q (a ++ b) = mk q a ++ mk q b. Proof. unfold mk. apply map_app. Qed.
Lemma links_same p so l : In l (S_links p so ++ R_links p so) <-> In l (mk false (d_eq p so) ++ mk true (d_wc p so)).
Proof. unfold S_links, R_links, d_eq, d_wc, base_lens, sup_lens, nb. rewrite !mk_app, !in_app_iff. tauto. Qed.
Lemma nlinks_enc p lay so : nlinks (enc_links p lay (d_eq p so)) (enc_links p lay (d_wc p so)) =
  map (f3 dnode nat (enc p lay)) (mk false (d_eq p so) ++ mk true (d_wc p so)).
Proof. unfold nlinks, enc_links, mk. rewrite map_app, !map_map. reflexivity. Qed.

Section Final.
Variable p : pspec.
Variable lay : layout.
Variable so : bool.
Variable g : cgraph.
Hypothesis WFH : spec_wf p so.
Hypothesis DOK : dgraph_ok p lay so = true.
Hypothesis SAME : same_graph p lay so g = true.

Let V (x : dnode) : Prop := In x (nodes p so).
Let LL := mk false (d_eq p so) ++ mk true (d_wc p so).

Lemma enc_inj x y : V x -> V y -> enc p lay x = enc p lay y -> x = y.
Proof. unfold dgraph_ok in DOK. apply andb_prop in DOK. destruct DOK as [I _]. apply (sincr_inj (enc p lay) (nodes p so) I). Qed.
Lemma LL_valid a b q : In (a, b, q) LL -> V a /\ V b.
Proof. unfold dgraph_ok in DOK. apply andb_prop in DOK. destruct DOK as [_ F]. rewrite forallb_forall in F. intros H.
  assert (Hin : In (a, b) (dlinks p so)).
  { unfold LL in H. unfold dlinks. rewrite in_app_iff in *. rewrite !In_mk in H. tauto. }
  specialize (F _ Hin). cbn in F. apply andb_prop in F. destruct F as [F1 F2]. split; apply memd_In; assumption. Qed.

Lemma graph_links : g_eq g = enc_links p lay (d_eq p so) /\ g_wc g = enc_links p lay (d_wc p so) /\
  g_st g = map (fun nc => (enc p lay (fst nc), snd nc)) (d_nodes p so).
Proof. unfold same_graph in SAME. apply andb_prop in SAME. destruct SAME as [H H3]. apply andb_prop in H. destruct H as [H1 H2].
  split; [apply pairs_eqb_eq, H2 | split; [apply pairs_eqb_eq, H3 | apply nodes_eqb_eq, H1]]. Qed.

(* connectivity in the seeded graph between declared nodes = connectivity in the declarative graph *)
Lemma gconn_dgraph x q y : V x -> V y -> (gconn g (enc p lay x) q (enc p lay y) <-> pconn dnode (S_links p so ++ R_links p so) x q y).
Proof. intros Vx Vy. destruct graph_links as [GE [GW _]]. unfold gconn. rewrite GE, GW, conn_pconn, nlinks_enc.
  etransitivity; [apply (transfer dnode nat (enc p lay) V LL enc_inj LL_valid x q y Vx Vy)|].
  split; apply pconn_mono; intros l Hl; apply links_same; exact Hl. Qed.

(* every node connected to a declared node is itself a declared node *)
Lemma gconn_declared x q n : V x -> gconn g (enc p lay x) q n -> exists y, V y /\ n = enc p lay y.
Proof. intros Vx H. destruct graph_links as [GE [GW _]]. unfold gconn in H. rewrite GE, GW, conn_pconn, nlinks_enc in H.
  destruct (transfer_fwd dnode nat (enc p lay) V LL enc_inj LL_valid x q n Vx H) as [y [Vy [E _]]]. eauto. Qed.

Theorem seeded_graph_denotes_wf x q y : V x -> V y ->
  (gconn g (enc p lay x) q (enc p lay y) <->
   pconn dnode (Rc_links p so) (fst (kap p so x)) (xorb q (xorb (snd (kap p so x)) (snd (kap p so y)))) (fst (kap p so y))).
Proof. intros Vx Vy. rewrite (gconn_dgraph x q y Vx Vy). apply dgraph_contraction. exact WFH. Qed.
End Final.

Theorem seeded_graph_denotes p lay so g : spec_okb p so = true -> dgraph_ok p lay so = true -> same_graph p lay so g = true ->
  forall x q y, In x (nodes p so) -> In y (nodes p so) ->
  (gconn g (enc p lay x) q (enc p lay y) <->
   pconn dnode (Rc_links p so) (fst (kap p so x)) (xorb q (xorb (snd (kap p so x)) (snd (kap p so y)))) (fst (kap p so y))).
Proof. intros SOK. apply seeded_graph_denotes_wf. apply spec_okb_wf, SOK. Qed.
