(* Model of the designer front-end: PIL_parser.load_spec / PIL_class.Spec (name resolution,
   bond extraction), constraint_load.index_func_strand / index_func_struct (layouts),
   Convert.get_constraints (seeding of eq / wc links over strand positions and the auxiliary
   (num, x) nodes of sequences, super-sequences and their reverse views), propagate,
   propagate_templates, get_reps, dump, and spurious_design's eq_map / wc_map / st_map. *)
From Coq Require Import List String Ascii Arith Bool.
From PC Require Import Base.Codes Comp.Syntax Comp.Compile Design.Propagate.
Import ListNotations.
Local Open Scope string_scope.
Local Open Scope list_scope.

Inductive sref := SB (n : string) (r : bool) | SS (n : string) (r : bool).
Record pspec := {
  p_bases : list (string * list ascii);
  p_sups : list (string * (list sref * nat));
  p_strands : list (string * (list sref * nat * bool));
  p_structs : list (string * (list string * list sym * nat));
  p_equals : list (list sref) }.
Definition pspec0 : pspec := {| p_bases := []; p_sups := []; p_strands := []; p_structs := []; p_equals := [] |}.

Definition sref_len (p : pspec) (x : sref) : nat :=
  match x with
  | SB n _ => match afind (p_bases p) n with Some t => List.length t | None => 0 end
  | SS n _ => match afind (p_sups p) n with Some (_, l) => l | None => 0 end
  end.

(* PIL_class.get_seqs *)
Fixpoint get_seqs (p : pspec) (items : list (string * bool)) : res (list sref) :=
  match items with
  | [] => OK []
  | (n, star) :: r =>
      if ahas (p_bases p) n then do rest <- get_seqs p r; OK (SB n star :: rest)
      else if ahas (p_sups p) n then do rest <- get_seqs p r; OK (SS n star :: rest)
      else Err "undefined-sequence"
  end.

Definition refs_len (p : pspec) (l : list sref) : nat := fold_left (fun a x => a + sref_len p x) l 0.

(* PIL_DNA_classes.get_bonds: positions do not count strand breaks; a ')' with nothing open is an error *)
Fixpoint bonds_aux (l : list sym) (pos : nat) (stack : list nat) (acc : list (nat * nat)) : res (list (nat * nat)) :=
  match l with
  | [] => OK (rev acc)
  | Plus :: r => bonds_aux r pos stack acc
  | Dot :: r => bonds_aux r (S pos) stack acc
  | Open :: r => bonds_aux r (S pos) (pos :: stack) acc
  | Close :: r => match stack with
                  | [] => Err "unmatched-close"
                  | o :: st => bonds_aux r (S pos) st ((o, pos) :: acc)
                  end
  end.
Definition get_bonds (s : list sym) : res (list (nat * nat)) := bonds_aux s 0 [] [].

Fixpoint strand_lens_of (p : pspec) (names : list string) : res (list nat) :=
  match names with
  | [] => OK []
  | n :: r => match afind (p_strands p) n with
              | Some (_, l, _) => do rest <- strand_lens_of p r; OK (l :: rest)
              | None => Err "undefined-strand"
              end
  end.

Definition valid_template (t : list ascii) : bool :=
  forallb (fun c => match group c with Some _ => true | None => false end) t.

Definition load_line (p : pspec) (l : pline) : res pspec :=
  match l with
  | PSeq n t _ =>
      if negb (valid_template t) then Err "alphabet" else
      if ahas (p_bases p) n || ahas (p_sups p) n then Err "duplicate-sequence" else
      OK {| p_bases := p_bases p ++ [(n, t)]; p_sups := p_sups p; p_strands := p_strands p;
            p_structs := p_structs p; p_equals := p_equals p |}
  | PSup n items _ =>
      if ahas (p_bases p) n || ahas (p_sups p) n then Err "duplicate-sequence" else
      do rs <- get_seqs p items;
      OK {| p_bases := p_bases p; p_sups := p_sups p ++ [(n, (rs, refs_len p rs))]; p_strands := p_strands p;
            p_structs := p_structs p; p_equals := p_equals p |}
  | PStrand d n items _ =>
      if ahas (p_strands p) n then Err "duplicate-strand" else
      do rs <- get_seqs p items;
      OK {| p_bases := p_bases p; p_sups := p_sups p; p_strands := p_strands p ++ [(n, (rs, refs_len p rs, d))];
            p_structs := p_structs p; p_equals := p_equals p |}
  | PStruct _ n names s =>
      if ahas (p_structs p) n then Err "duplicate-structure" else
      do lens <- strand_lens_of p names;
      do _ <- get_bonds s;
      if Comp.Struct.structure_ok s lens then
        OK {| p_bases := p_bases p; p_sups := p_sups p; p_strands := p_strands p;
              p_structs := p_structs p ++ [(n, (names, s, fold_left Nat.add lens 0))]; p_equals := p_equals p |}
      else Err "structure-mismatch"
  | PEqual items =>
      do rs <- get_seqs p items;
      match rs with
      | [] => Err "empty-equal"
      | r0 :: _ => if forallb (fun x => Nat.eqb (sref_len p x) (sref_len p r0)) rs
                   then OK {| p_bases := p_bases p; p_sups := p_sups p; p_strands := p_strands p;
                              p_structs := p_structs p; p_equals := p_equals p ++ [rs] |}
                   else Err "equal-length"
      end
  | PKin _ _ _ _ => OK p
  end.
Fixpoint load_spec (lines : list pline) (p : pspec) : res pspec :=
  match lines with [] => OK p | l :: r => do p' <- load_line p l; load_spec r p' end.

(* ---------- layouts ---------- *)
Fixpoint index_of (names : list string) (n : string) (k : nat) : option nat :=
  match names with [] => None | x :: r => if String.eqb x n then Some k else index_of r n (S k) end.

(* strand layout: strand_start[k] = sum_{j<k} (len_j + 2) *)
Fixpoint strand_starts (ss : list (string * (list sref * nat * bool))) (acc : nat) : list (string * nat) :=
  match ss with [] => [] | (n, (_, l, _)) :: r => (n, acc) :: strand_starts r (acc + l + 2) end.

(* structure layout: structures in order, strands separated by one blank, one more blank after each
   structure; a strand's start is its first occurrence *)
Fixpoint struct_walk (p : pspec) (names : list string) (pos : nat) (starts : list (string * nat))
  : nat * list (string * nat) :=
  match names with
  | [] => (pos, starts)
  | n :: r =>
      let l := match afind (p_strands p) n with Some (_, l, _) => l | None => 0 end in
      struct_walk p r (pos + l + 1) (if ahas starts n then starts else starts ++ [(n, pos)])
  end.
Fixpoint struct_layout (p : pspec) (sts : list (string * (list string * list sym * nat))) (pos : nat)
                       (sstart : list (string * nat)) (tstart : list (string * nat))
  : list (string * nat) * list (string * nat) :=
  match sts with
  | [] => (sstart, tstart)
  | (n, (names, _, _)) :: r =>
      let '(pos', tstart') := struct_walk p names pos tstart in
      struct_layout p r (pos' + 1) (sstart ++ [(n, pos)]) tstart'
  end.

(* get_index(struct, x) for both layouts: walk the structure's strands *)
Fixpoint walk_index (p : pspec) (names : list string) (x : nat) (base : nat) (struct_orient : bool)
                    (tstart : list (string * nat)) : option nat :=
  match names with
  | [] => None
  | n :: r =>
      let l := match afind (p_strands p) n with Some (_, l, _) => l | None => 0 end in
      if Nat.leb l x then walk_index p r (x - l) (base + l + 1) struct_orient tstart
      else if struct_orient then Some (base + x)
      else match afind tstart n with Some s => Some (s + x) | None => None end
  end.

(* ---------- nodes ---------- *)
(* a node is a nat: positions are themselves; the auxiliary node (num, x) is aux0 + start(num) + x *)
Record layout := { l_npos : nat;                       (* number of slots in the linear arrays *)
                   l_tstart : list (string * nat);     (* strand name -> start (first occurrence) *)
                   l_sstart : list (string * nat) }.   (* structure name -> start (structure layout) *)

Fixpoint sum_list (l : list nat) : nat := match l with [] => 0 | x :: r => x + sum_list r end.

Definition base_index (p : pspec) (n : string) : option nat := index_of (map fst (p_bases p)) n 0.
Definition sup_index (p : pspec) (n : string) : option nat := index_of (map fst (p_sups p)) n 0.
(* lengths of all numbered objects: base0, base0*, base1, base1*, ..., sup0, sup0*, ... *)
Definition num_lens (p : pspec) : list nat :=
  flat_map (fun '(_, t) => [List.length t; List.length t]) (p_bases p) ++
  flat_map (fun '(_, (_, l)) => [l; l]) (p_sups p).
Definition num_start (p : pspec) (num : nat) : nat := sum_list (firstn num (num_lens p)).
Definition sref_num (p : pspec) (x : sref) : option nat :=
  match x with
  | SB n r => option_map (fun k => 2 * k + (if r then 1 else 0)) (base_index p n)
  | SS n r => option_map (fun k => 2 * List.length (p_bases p) + 2 * k + (if r then 1 else 0)) (sup_index p n)
  end.
Definition aux (lay : layout) (p : pspec) (num x : nat) : nat := l_npos lay + num_start p num + x.

Record cgraph := { g_keys : list nat; g_st : list (nat * ascii); g_eq : list (nat * nat); g_wc : list (nat * nat) }.
Definition g0 : cgraph := {| g_keys := []; g_st := []; g_eq := []; g_wc := [] |}.
Definition g_init (g : cgraph) (x : nat) (c : ascii) : cgraph :=
  {| g_keys := g_keys g ++ [x]; g_st := g_st g ++ [(x, c)]; g_eq := g_eq g; g_wc := g_wc g |}.
Definition g_add_eq (g : cgraph) (x y : nat) : cgraph :=
  {| g_keys := g_keys g; g_st := g_st g; g_eq := g_eq g ++ [(x, y)]; g_wc := g_wc g |}.
Definition g_add_wc (g : cgraph) (x y : nat) : cgraph :=
  {| g_keys := g_keys g; g_st := g_st g; g_eq := g_eq g; g_wc := g_wc g ++ [(x, y)] |}.

Definition Nc : ascii := "N"%char.

(* offsets of the items of a reference list *)
Fixpoint items_links (lay : layout) (p : pspec) (items : list sref) (offset : nat) (target : nat -> nat)
                     (g : cgraph) : res cgraph :=
  match items with
  | [] => OK g
  | it :: r =>
      match sref_num p it with
      | None => Err "internal-unnumbered"
      | Some num =>
          let l := sref_len p it in
          let g' := fold_left (fun g x => g_add_eq g (target (offset + x)) (aux lay p num x)) (seq 0 l) g in
          items_links lay p r (offset + l) target g'
      end
  end.

Definition build_layout (p : pspec) (struct_orient : bool) : layout :=
  if struct_orient then
    let '(ss, ts) := struct_layout p (p_structs p) 0 [] [] in
    let total := fold_left (fun a '(_, (names, _, _)) =>
                   a + sum_list (map (fun n => match afind (p_strands p) n with Some (_, l, _) => l + 1 | None => 1 end) names) + 1)
                   (p_structs p) 0 in
    {| l_npos := total; l_tstart := ts; l_sstart := ss |}
  else
    let ts := strand_starts (p_strands p) 0 in
    {| l_npos := fold_left (fun a '(_, (_, l, _)) => a + l + 2) (p_strands p) 0; l_tstart := ts; l_sstart := [] |}.

Definition struct_index (lay : layout) (p : pspec) (struct_orient : bool) (sn : string) (names : list string) (x : nat) : option nat :=
  let base := match afind (l_sstart lay) sn with Some b => b | None => 0 end in
  walk_index p names x base struct_orient (l_tstart lay).

(* Convert.get_constraints up to (not including) propagate *)
Definition seed (p : pspec) (struct_orient : bool) : res (layout * cgraph) :=
  let lay := build_layout p struct_orient in
  (* 1. position nodes *)
  do g1 <- (if struct_orient then
      fold_left (fun rg '(sn, (names, _, len)) =>
        do g <- rg;
        fold_left (fun rg x => do g <- rg;
                     match struct_index lay p true sn names x with
                     | Some i => if mem i (g_keys g) then Err "init-twice" else OK (g_init g i Nc)
                     | None => Err "index" end) (seq 0 len) (OK g))
        (p_structs p) (OK g0)
    else
      OK (fold_left (fun g '(n, (_, len, _)) =>
            let s := match afind (l_tstart lay) n with Some s => s | None => 0 end in
            fold_left (fun g x => g_init g (s + x) Nc) (seq 0 len) g) (p_strands p) g0));
  (* 1b. structure layout: all instances of one strand are equal *)
  do g2 <- (if struct_orient then
      fold_left (fun rg '(sn, (names, _, _)) =>
        do g <- rg;
        let '(g', _) := fold_left (fun '(rg, offset) n =>
            let l := match afind (p_strands p) n with Some (_, l, _) => l | None => 0 end in
            (fold_left (fun rg x => do g <- rg;
                 match afind (l_tstart lay) n, struct_index lay p true sn names (offset + x) with
                 | Some s, Some y2 => OK (g_add_eq g (s + x) y2)
                 | _, _ => Err "strand-not-in-structure" end) (seq 0 l) rg, offset + l))
            names (OK g, 0) in g')
        (p_structs p) (OK g1)
    else OK g1);
  (* 2. bonds *)
  do g3 <- fold_left (fun rg '(sn, (names, s, _)) =>
        do g <- rg; do bs <- get_bonds s;
        fold_left (fun rg '(x, y) => do g <- rg;
             match struct_index lay p struct_orient sn names x, struct_index lay p struct_orient sn names y with
             | Some x2, Some y2 => OK (g_add_wc g x2 y2)
             | _, _ => Err "bond-index" end) bs (OK g))
        (p_structs p) (OK g2);
  (* 3. sequences, super-sequences and their reverse views *)
  let '(g4, _) := fold_left (fun '(g, num) '(_, t) =>
        let l := List.length t in
        let ga := fold_left (fun '(g, x) c => (g_init g (aux lay p num x) c, S x)) t (g, 0) in
        let gb := fold_left (fun g x => g_add_wc (g_init g (aux lay p (S num) x) Nc) (aux lay p (S num) x) (aux lay p num (l - x - 1)))
                            (seq 0 l) (fst ga) in
        (gb, S (S num))) (p_bases p) (g3, 0) in
  let nb := 2 * List.length (p_bases p) in
  let '(g5, _) := fold_left (fun '(g, num) '(_, (_, l)) =>
        let ga := fold_left (fun g x => g_init g (aux lay p num x) Nc) (seq 0 l) g in
        let gb := fold_left (fun g x => g_add_wc (g_init g (aux lay p (S num) x) Nc) (aux lay p (S num) x) (aux lay p num (l - x - 1)))
                            (seq 0 l) ga in
        (gb, S (S num))) (p_sups p) (g4, nb) in
  (* 4. equal statements *)
  do g6 <- fold_left (fun rg eqlist =>
        do g <- rg;
        match eqlist with
        | [] => OK g
        | first :: rest =>
            match sref_num p first with
            | None => Err "internal-unnumbered"
            | Some n0 =>
                fold_left (fun rg s => do g <- rg;
                    match sref_num p s with
                    | Some n1 => OK (fold_left (fun g x => g_add_eq g (aux lay p n0 x) (aux lay p n1 x)) (seq 0 (sref_len p s)) g)
                    | None => Err "internal-unnumbered" end) rest (OK g)
            end
        end) (p_equals p) (OK g5);
  (* 5. super-sequence items *)
  do g7 <- fold_left (fun rg '(n, (items, _)) =>
        do g <- rg;
        match sref_num p (SS n false) with
        | Some num => items_links lay p items 0 (fun o => aux lay p num o) g
        | None => Err "internal-unnumbered" end) (p_sups p) (OK g6);
  (* 6. strand items *)
  do g8 <- fold_left (fun rg '(n, (items, _, _)) =>
        do g <- rg;
        match afind (l_tstart lay) n with
        | Some s => items_links lay p items 0 (fun o => s + o) g
        | None => (* the index of a strand is only looked up position by position: a strand without nucleotides needs none *)
                  if forallb (fun it => Nat.eqb (sref_len p it) 0) items then OK g
                  else if struct_orient then Err "strand-not-in-structure" else Err "internal" end) (p_strands p) (OK g7);
  OK (lay, g8).

(* adjacency as propagate_constraints sees it (both directions were appended by add_eq / add_wc) *)
Definition adj (links : list (nat * nat)) (y : nat) : list nat :=
  flat_map (fun '(a, b) => (if Nat.eqb a y then [b] else []) ++ (if Nat.eqb b y then [a] else [])) links.

Inductive dres := DOk (eq wc : list (option nat)) (st : list (option ascii)) | DOver | DErr (k : string).

Definition st_of (t : list (nat * ascii)) (x : nat) : ascii :=
  match find (fun '(k, _) => Nat.eqb k x) t with Some (_, c) => c | None => Nc end.
Definition st_set (t : list (nat * ascii)) (ys : list nat) (c : ascii) : list (nat * ascii) :=
  map (fun '(k, v) => if mem k ys then (k, c) else (k, v)) t.

(* propagate_templates *)
Fixpoint templates (m : tbl) (keys : list nat) (st : list (nat * ascii)) (done : list nat) : option (list (nat * ascii)) * bool :=
  (* returns (Some st, _) on success; (None, true) = over-constrained (ValueError); (None, false) = KeyError *)
  match keys with
  | [] => (Some st, true)
  | x :: ks =>
      if mem x done then templates m ks st done else
      match get m x with
      | None => (None, false)
      | Some (E, W) =>
          if mem x W then (None, true) else
          let step := fun (acc : option ascii * bool) (c : ascii) =>
              match acc with
              | (Some a, _) => match code_inter a c with IOk r => (Some r, true) | IEmpty => (None, true) | IKeyErr => (None, false) end
              | bad => bad end in
          let a1 := fold_left (fun acc y => step acc (st_of st y)) E (Some (st_of st x), true) in
          let a2 := fold_left (fun acc y => match compl_code (st_of st y) with Some c => step acc c | None => (None, false) end) W a1 in
          match a2 with
          | (Some a, _) =>
              match compl_code a with
              | Some ca => templates m ks (st_set (st_set st E a) W ca) (union (union done E) W)
              | None => (None, false)
              end
          | (None, b) => (None, b)
          end
      end
  end.

Fixpoint min_below (n : nat) (l : list nat) : option nat :=
  (* least element of l that is a position (< n) *)
  match l with
  | [] => None
  | x :: r => let rest := min_below n r in
              if Nat.ltb x n then match rest with Some y => Some (Nat.min x y) | None => Some x end else rest
  end.

Definition get_constraints (p : pspec) (struct_orient : bool) : dres :=
  match seed p struct_orient with
  | Err k => DErr k
  | OK (lay, g) =>
      match propagate (adj (g_eq g)) (adj (g_wc g)) (g_keys g) with
      | OOk m =>
          match templates m (g_keys g) (g_st g) [] with
          | (Some st, _) =>
              let n := match fold_left (fun a k => if Nat.ltb k (l_npos lay) then Nat.max a (S k) else a) (g_keys g) 0 with x => x end in
              DOk (map (fun i => match get m i with Some (E, _) => min_below (l_npos lay) E | None => None end) (seq 0 n))
                  (map (fun i => match get m i with Some (_, W) => min_below (l_npos lay) W | None => None end) (seq 0 n))
                  (map (fun i => if mem i (g_keys g) then Some (st_of st i) else None) (seq 0 n))
          | (None, true) => DOver
          | (None, false) => DErr "keyerror"
          end
      | OAssert => DErr "assert"
      | OFuel => DErr "fuel"
      end
  end.

Definition design_arrays (lines : list pline) (struct_orient : bool) : dres :=
  match load_spec lines pspec0 with
  | OK p => get_constraints p struct_orient
  | Err k => DErr k
  end.
