(* Structure-oriented layout: the graph `seed` returns is the declarative graph of DGraph.v, a
   successful seed means every strand with nucleotides occurs in a structure, and conversely seed
   succeeds on every loaded document whose strands are so placed. *)
From Coq Require Import List String Ascii Arith Bool Lia.
From PC Require Import Base.Codes Comp.Syntax Comp.Compile Comp.EmitProofs Design.Propagate Design.Designer Design.DGraph Design.DenoteGraph Design.DenoteTie
  Design.LoadProofs Design.SeedProofs Design.LayoutProofs Design.StructLayout.
Import ListNotations.
Local Open Scope list_scope.

Lemma flat_map_single {X Y} (f : X -> Y) l : flat_map (fun x => [f x]) l = map f l.
Proof. induction l as [|x l IH]; simpl; [reflexivity | rewrite IH; reflexivity]. Qed.

(* a monadic fold that succeeds started from a graph *)
Lemma fold_res_start {X} (F : res cgraph -> X -> res cgraph) l : (forall k x, F (Err k) x = Err k) ->
  forall rg g', fold_left F l rg = OK g' -> exists g, rg = OK g.
Proof. intros HE rg g' H. destruct rg as [g|k]; [exists g; reflexivity|]. rewrite (fold_err F l k HE) in H. discriminate. Qed.

Lemma fold_res_steps {X} (F : res cgraph -> X -> res cgraph) l : (forall k x, F (Err k) x = Err k) ->
  forall g g', fold_left F l (OK g) = OK g' -> forall x, In x l -> exists g1 g2, F (OK g1) x = OK g2.
Proof. intros HE. induction l as [|y l IH]; intros g g' H x Hx; [destruct Hx|]. simpl in H.
  destruct (F (OK g) y) as [g1|k] eqn:Q; [|rewrite (fold_err F l k HE) in H; discriminate].
  destruct Hx as [->|Hx]; [exists g, g1; exact Q | apply (IH g1 g' H x Hx)]. Qed.

Section StructSeed.
Variable p : pspec.
Hypothesis LIp : LI p.
Let lay := build_layout p true.
Local Notation encn := (enc p lay).
Local Notation encnode := (fun nc : dnode * ascii => (encn (fst nc), snd nc)).
Local Notation slen := (strand_len p).

Lemma names_of sn names sy len : In (sn, (names, sy, len)) (p_structs p) -> struct_names p sn = names.
Proof. intros Hin. unfold struct_names. rewrite (afind_In _ _ _ (li_nd_struct p LIp) Hin). reflexivity. Qed.
Lemma enc_inst sn names sy len x i : In (sn, (names, sy, len)) (p_structs p) -> struct_index lay p true sn names x = Some i -> i = encn (DInst sn x).
Proof. intros Hin H. cbn [enc]. rewrite (names_of sn names sy len Hin). fold lay. rewrite H. reflexivity. Qed.

(* phase 1: the positions of the structures *)
Lemma phase1s g' :
  fold_left (fun rg '(sn, (names, _, len)) =>
      do g <- rg;
      fold_left (fun rg x => do g <- rg;
                   match struct_index lay p true sn names x with
                   | Some i => if mem i (g_keys g) then Err "init-twice" else OK (g_init g i Nc)
                   | None => Err "index" end) (seq 0 len) (OK g))
      (p_structs p) (OK g0) = OK g' ->
  g' = gext g0 (map encnode (pos_nodes p true)) [] [].
Proof. intros H.
  apply (fold_gext_res _ (fun '(sn, (_, _, len)) => map (fun x => (encn (DInst sn x), Nc)) (seq 0 len)) (fun _ => []) (fun _ => [])) in H.
  - rewrite !flat_map_nil in H. rewrite H. f_equal. unfold pos_nodes. rewrite map_flat_map. apply flat_map_ext_in. intros [sn [[names sy] len]] _.
    rewrite map_map. reflexivity.
  - intros k [sn [[names sy] len]]. reflexivity.
  - intros g1 [sn [[names sy] len]] g2 Hin E. cbn [bind] in E.
    apply (fold_gext_res _ (fun x => [(encn (DInst sn x), Nc)]) (fun _ => []) (fun _ => [])) in E.
    + rewrite !flat_map_nil, flat_map_single in E. exact E.
    + intros k x. reflexivity.
    + intros g3 x g4 _ E2. cbn [bind] in E2. destruct (struct_index lay p true sn names x) as [i|] eqn:SI; [|discriminate].
      destruct (mem i (g_keys g3)); [discriminate|]. inversion E2. rewrite g_init_ext, (enc_inst sn names sy len x i Hin SI). reflexivity. Qed.

(* phase 1b: every occurrence of a strand equals the strand's own positions *)
Lemma tstart_first n s0 : afind (l_tstart lay) n = Some s0 -> exists sn off, first_inst_in p (p_structs p) n = Some (sn, off).
Proof. intros A. destruct (first_inst_in p (p_structs p) n) as [[sn off]|] eqn:FI; [eauto|]. unfold lay in A. rewrite (sl_tstart p n), (first_none p _ n 0 FI) in A. discriminate. Qed.
Lemma enc_spos n x s0 : In n (map fst (p_strands p)) -> x < slen n -> afind (l_tstart lay) n = Some s0 -> encn (spos p true n x) = s0 + x.
Proof. intros Hn Hx A. destruct (tstart_first n s0 A) as [sn [off FI]]. apply in_map_iff in Hn. destruct Hn as [[n' [[items l] d]] [E Hin]]. simpl in E. subst n'.
  assert (SL : slen n = l) by (unfold strand_len; rewrite (afind_In _ _ _ (li_nd_strand p LIp) Hin); reflexivity).
  destruct (struct_place p LIp n items l d x sn off Hin ltac:(lia) FI) as [_ [B _]]. unfold spos. rewrite FI. fold lay in B. rewrite B.
  unfold tstart_of. rewrite A. reflexivity. Qed.

Lemma occ_fold sn names0 sy len : In (sn, (names0, sy, len)) (p_structs p) -> forall names rg offset g',
  (forall n, In n names -> In n (map fst (p_strands p))) ->
  fst (fold_left (fun '(rg, offset) n =>
         let l := match afind (p_strands p) n with Some (_, l, _) => l | None => 0 end in
         (fold_left (fun rg x => do g <- rg;
              match afind (l_tstart lay) n, struct_index lay p true sn names0 (offset + x) with
              | Some s, Some y2 => OK (g_add_eq g (s + x) y2)
              | _, _ => Err "strand-not-in-structure" end) (seq 0 l) rg, offset + l)) names (rg, offset)) = OK g' ->
  exists g, rg = OK g /\ g' = gext g [] (enc_links p lay (occ_links p true sn names offset)) [].
Proof. intros Hin. induction names as [|n names IH]; intros rg offset g' Hn H.
  - simpl in H. exists g'. split; [exact H | symmetry; apply gext_nil].
  - cbn [fold_left] in H. cbv zeta in H. fold (slen n) in H. apply IH in H; [|intros m Hm; apply Hn; right; exact Hm]. destruct H as [g1 [E1 E2]].
    destruct (fold_res_start _ (seq 0 (slen n)) (fun k x => eq_refl) rg g1 E1) as [g E]. subst rg. exists g. split; [reflexivity|].
    apply (fold_gext_res _ (fun _ => []) (fun x => [(encn (spos p true n x), encn (DInst sn (offset + x)))]) (fun _ => [])) in E1.
    + rewrite !flat_map_nil, flat_map_single in E1. rewrite E2, E1, gext_gext. simpl. f_equal. unfold enc_links. rewrite map_app, map_map. reflexivity.
    + intros k x. reflexivity.
    + intros g3 x g4 Hx E3. cbn [bind] in E3. apply in_seq in Hx. destruct (afind (l_tstart lay) n) as [s0|] eqn:A; [|discriminate].
      destruct (struct_index lay p true sn names0 (offset + x)) as [y2|] eqn:SI; [|discriminate]. inversion E3.
      rewrite g_add_eq_ext, (enc_inst sn names0 sy len _ y2 Hin SI), (enc_spos n x s0 (Hn n (or_introl eq_refl)) ltac:(lia) A). reflexivity. Qed.

Lemma phase1b g g' :
  fold_left (fun rg '(sn, (names, _, _)) =>
      do g <- rg;
      let '(g', _) := fold_left (fun '(rg, offset) n =>
          let l := match afind (p_strands p) n with Some (_, l, _) => l | None => 0 end in
          (fold_left (fun rg x => do g <- rg;
               match afind (l_tstart lay) n, struct_index lay p true sn names (offset + x) with
               | Some s, Some y2 => OK (g_add_eq g (s + x) y2)
               | _, _ => Err "strand-not-in-structure" end) (seq 0 l) rg, offset + l))
          names (OK g, 0) in g')
      (p_structs p) (OK g) = OK g' ->
  g' = gext g [] (enc_links p lay (inst_links p true)) [].
Proof. intros H.
  apply (fold_gext_res _ (fun _ => []) (fun '(sn, (names, _, _)) => enc_links p lay (occ_links p true sn names 0)) (fun _ => [])) in H.
  - rewrite !flat_map_nil in H. rewrite H. f_equal. unfold inst_links, enc_links. rewrite map_flat_map. apply flat_map_ext_in. intros [sn [[names sy] len]] _. reflexivity.
  - intros k [sn [[names sy] len]]. reflexivity.
  - intros g1 [sn [[names sy] len]] g2 Hin E. cbn [bind] in E.
    match type of E with (let '(a, _) := ?f in a) = _ => assert (E' : fst f = OK g2) by (destruct f; exact E) end.
    destruct (occ_fold sn names sy len Hin names (OK g1) 0 g2 (proj1 (li_struct p LIp sn names sy len Hin)) E') as [gg [Eg R]]. inversion Eg; subst gg. exact R. Qed.

(* phase 2: the base pairs of the target structures *)
Lemma phase2s g g' :
  fold_left (fun rg '(sn, (names, s, _)) =>
      do g <- rg; do bs <- get_bonds s;
      fold_left (fun rg '(x, y) => do g <- rg;
           match struct_index lay p true sn names x, struct_index lay p true sn names y with
           | Some x2, Some y2 => OK (g_add_wc g x2 y2)
           | _, _ => Err "bond-index" end) bs (OK g))
      (p_structs p) (OK g) = OK g' ->
  g' = gext g [] [] (enc_links p lay (bond_links p true)).
Proof. intros H.
  apply (fold_gext_res _ (fun _ => []) (fun _ => [])
     (fun '(sn, (names, s, _)) => enc_links p lay match get_bonds s with
        | OK bs => flat_map (fun '(x, y) => [(DInst sn x, DInst sn y)]) bs
        | Err _ => [] end)) in H.
  - rewrite !flat_map_nil in H. rewrite H. f_equal. unfold bond_links, enc_links. rewrite map_flat_map. apply flat_map_ext_in. intros [sn [[names s] l]] _. reflexivity.
  - intros k [sn [[names s] l]]. reflexivity.
  - intros g1 [sn [[names s] l]] g2 Hin E. cbn [bind] in E. destruct (get_bonds s) as [bs|k]; [|discriminate]. cbn [bind] in E.
    apply (fold_gext_res _ (fun _ => []) (fun _ => []) (fun '(x, y) => enc_links p lay [(DInst sn x, DInst sn y)])) in E.
    + rewrite !flat_map_nil in E. rewrite E. f_equal. unfold enc_links. rewrite map_flat_map. apply flat_map_ext_in. intros [x y] _. reflexivity.
    + intros k [x y]. reflexivity.
    + intros g3 [x y] g4 _ E2. cbn [bind] in E2.
      destruct (struct_index lay p true sn names x) as [x2|] eqn:WX; [|discriminate].
      destruct (struct_index lay p true sn names y) as [y2|] eqn:WY; [|discriminate].
      inversion E2. rewrite g_add_wc_ext, (enc_inst sn names s l x x2 Hin WX), (enc_inst sn names s l y y2 Hin WY). reflexivity. Qed.

(* phase 6: the items of strands, each strand at its first occurrence *)
Lemma items_links_bounded items : forall offset target dt g g', (forall o, o < offset + refs_total p items -> target o = encn (dt o)) ->
  items_links lay p items offset target g = OK g' ->
  g' = gext g [] (enc_links p lay (item_links p items offset dt)) [].
Proof. induction items as [|it items IH]; intros offset target dt g g' HT H; simpl in H.
  - inversion H. symmetry. apply gext_nil.
  - simpl. change (refs_total p (it :: items)) with (sref_len p it + refs_total p items) in HT. destruct (sref_num p it) as [num|]; [|discriminate].
    rewrite (fold_add_eq (fun x => target (offset + x)) (fun x => aux lay p num x)) in H.
    assert (HT' : forall o, o < offset + sref_len p it + refs_total p items -> target o = encn (dt o)) by (intros o Ho; apply HT; lia).
    rewrite (IH _ _ dt _ _ HT' H), gext_gext. simpl. f_equal. unfold enc_links. rewrite map_app, map_map. f_equal.
    apply map_ext_in. intros x Hx. apply in_seq in Hx. simpl. rewrite HT by lia. reflexivity. Qed.

Lemma phase6s g g' :
  fold_left (fun rg '(n, (items, _, _)) =>
      do g <- rg;
      match afind (l_tstart lay) n with
      | Some s => items_links lay p items 0 (fun o => s + o) g
      | None => if forallb (fun it => Nat.eqb (sref_len p it) 0) items then OK g
                else if true then Err "strand-not-in-structure" else Err "internal" end) (p_strands p) (OK g) = OK g' ->
  g' = gext g [] (enc_links p lay (strand_item_links p true)) [].
Proof. intros H.
  apply (fold_gext_res _ (fun _ => []) (fun '(n, (items, _, _)) => enc_links p lay (item_links p items 0 (fun o => spos p true n o))) (fun _ => [])) in H.
  - rewrite !flat_map_nil in H. rewrite H. f_equal. unfold strand_item_links, enc_links. rewrite map_flat_map. apply flat_map_ext_in. intros [n [[items l] d]] _. reflexivity.
  - intros k [n [[items l] d]]. reflexivity.
  - intros g1 [n [[items l] d]] g2 Hin E. cbn [bind] in E. destruct (afind (l_tstart lay) n) as [s0|] eqn:A.
    + apply (items_links_bounded items 0 (fun o => s0 + o) (fun o => spos p true n o) g1 g2); [|exact E]. intros o Ho. symmetry.
      apply enc_spos; [apply in_map_iff; exists (n, (items, l, d)); auto | | exact A].
      unfold strand_len. rewrite (afind_In _ _ _ (li_nd_strand p LIp) Hin). rewrite (proj2 (li_strand p LIp n items l d Hin)). exact Ho.
    + destruct (forallb _ items) eqn:Z; [|discriminate]. inversion E. rewrite (item_links_zero p items 0 _ Z). symmetry. apply gext_nil. Qed.

(* a successful seed: every strand with nucleotides occurs in a structure *)
Lemma zero_items_total items : forallb (fun it => Nat.eqb (sref_len p it) 0) items = true -> refs_total p items = 0.
Proof. induction items as [|it items IH]; intros H; [reflexivity|]. simpl in H. apply andb_prop in H. destruct H as [H1 H2]. apply Nat.eqb_eq in H1.
  change (refs_total p (it :: items)) with (sref_len p it + refs_total p items). rewrite H1, (IH H2). reflexivity. Qed.
Lemma phase6_placed g g' :
  fold_left (fun rg '(n, (items, _, _)) =>
      do g <- rg;
      match afind (l_tstart lay) n with
      | Some s => items_links lay p items 0 (fun o => s + o) g
      | None => if forallb (fun it => Nat.eqb (sref_len p it) 0) items then OK g
                else if true then Err "strand-not-in-structure" else Err "internal" end) (p_strands p) (OK g) = OK g' ->
  placed p.
Proof. intros H n items l d Hin NZ FI.
  destruct (fun HE => fold_res_steps _ (p_strands p) HE g g' H (n, (items, l, d)) Hin) as [g1 [g2 E]]; [intros k [n0 [[i0 l0] d0]]; reflexivity|]. cbn [bind] in E.
  destruct (afind (l_tstart lay) n) as [s0|] eqn:A.
  - destruct (tstart_first n s0 A) as [sn [off F2]]. rewrite F2 in FI. discriminate.
  - destruct (forallb _ items) eqn:Z; [|discriminate]. apply NZ. rewrite (proj2 (li_strand p LIp n items l d Hin)). apply zero_items_total, Z. Qed.

Theorem seed_graph_struct lay' g : seed p true = OK (lay', g) ->
  lay' = lay /\ g_st g = map encnode (d_nodes p true) /\ g_eq g = enc_links p lay (d_eq p true) /\ g_wc g = enc_links p lay (d_wc p true) /\
  g_keys g = map fst (g_st g) /\ placed p.
Proof. unfold seed. cbv zeta. change (build_layout p true) with lay. intros H.
  match type of H with (do g1 <- ?e; _) = _ => destruct e as [g1|k] eqn:P1; [|discriminate] end. cbn [bind] in H.
  apply phase1s in P1. subst g1.
  match type of H with (do g2 <- ?e; _) = _ => destruct e as [g2|k] eqn:P1b; [|discriminate] end. cbn [bind] in H.
  apply phase1b in P1b. subst g2.
  match type of H with (do g3 <- ?e; _) = _ => destruct e as [g3|k] eqn:P2; [|discriminate] end. cbn [bind] in H.
  apply phase2s in P2. subst g3.
  pose proof (phase3_bases p lay (p_bases p)) as P3. cbv zeta in P3. rewrite P3 in H. clear P3.
  pose proof (phase3_sups p lay (p_sups p)) as P3. cbv zeta in P3. rewrite P3 in H. clear P3.
  match type of H with (do g6 <- ?e; _) = _ => destruct e as [g6|k] eqn:P4; [|discriminate] end. cbn [bind] in H.
  apply (phase4 p lay) in P4. subst g6.
  match type of H with (do g7 <- ?e; _) = _ => destruct e as [g7|k] eqn:P5; [|discriminate] end. cbn [bind] in H.
  apply (phase5 p lay) in P5. subst g7.
  match type of H with (do g8 <- ?e; _) = _ => destruct e as [g8|k] eqn:P6; [|discriminate] end. cbn [bind] in H.
  pose proof (phase6_placed _ _ P6) as PLC. apply phase6s in P6. subst g8. inversion H; subst lay' g. clear H. rewrite !gext_gext. split; [reflexivity|]. cbn [gext g_st g_eq g_wc g0].
  unfold d_nodes, d_eq, d_wc, nb, enc_links. rewrite !map_app, !app_nil_r. simpl. repeat split; try reflexivity; [rewrite !map_app; reflexivity | exact PLC]. Qed.
End StructSeed.

Theorem seed_same_graph_struct p lay g : LI p -> seed p true = OK (lay, g) -> same_graph p lay true g = true.
Proof. intros I H. destruct (seed_graph_struct p I lay g H) as [-> [E1 [E2 [E3 _]]]]. unfold same_graph. rewrite E1, E2, E3, nodes_eqb_refl, !pairs_eqb_refl. reflexivity. Qed.
Theorem seed_placed p lay g : LI p -> seed p true = OK (lay, g) -> placed p.
Proof. intros I H. apply (seed_graph_struct p I lay g H). Qed.
