(* C15 at the level of the document: the seeded graph has a satisfying assignment exactly when the
   document has one - an assignment of bases to the nucleotides of the declared sequences that
   respects their templates, with every equal statement and every base pair of a target structure
   read through the flattening of super-sequences and strands (kap). *)
From Coq Require Import List String Ascii Arith Bool Lia.
From PC Require Import Base.Codes Comp.Syntax Comp.Compile Design.Propagate Design.PropagateProofs Design.Designer Design.DesignerProofs
  Design.TemplateProofs Design.Contraction Design.DGraph Design.DenoteGraph Design.DenoteTie.
Import ListNotations.
Local Open Scope list_scope.

Definition app_par (q : bool) (b : base) : base := if q then bcompl b else b.
Lemma app_par_xor q r b : app_par (xorb q r) b = app_par q (app_par r b).
Proof. destruct q, r; simpl; rewrite ?bcompl_invol; reflexivity. Qed.

(* an assignment of bases to nucleotides (offset i of base sequence k is DAux (2k) i) satisfying the document *)
Definition doc_sat (p : pspec) (so : bool) : Prop := exists al : dnode -> base,
  (forall k n t i c, nth_error (p_bases p) k = Some (n, t) -> nth_error t i = Some c -> bmem (al (DAux (2 * k) i)) (gset c) = true) /\
  (forall x y q, In (x, y, q) (Rc_links p so) -> al y = app_par q (al x)).

(* ---- the declared nodes and their templates ---- *)
Lemma combine_seq_nth {X} (t : list X) : forall s i c, In (i, c) (combine (seq s (List.length t)) t) -> s <= i /\ nth_error t (i - s) = Some c.
Proof. induction t as [|a t IH]; intros s i c H; simpl in H; [destruct H|]. destruct H as [H|H].
  - inversion H; subst. rewrite Nat.sub_diag. auto.
  - destruct (IH (S s) i c H) as [L N]. split; [lia|]. replace (i - s) with (S (i - S s)) by lia. exact N. Qed.
Lemma base_nodes_In bs : forall num0 x c, In (x, c) (base_nodes bs num0) ->
  c = Nc \/ exists k n t i, nth_error bs k = Some (n, t) /\ nth_error t i = Some c /\ x = DAux (num0 + 2 * k) i.
Proof. induction bs as [|[n t] bs IH]; intros num0 x c H; simpl in H; [destruct H|].
  rewrite !in_app_iff in H. destruct H as [H|[H|H]].
  - apply in_map_iff in H. destruct H as [[i c'] [E Hin]]. simpl in E. inversion E; subst.
    destruct (combine_seq_nth t 0 i c Hin) as [_ N]. rewrite Nat.sub_0_r in N. right. exists 0, n, t, i. split; [reflexivity | split; [exact N | f_equal; lia]].
  - apply in_map_iff in H. destruct H as [i [E _]]. inversion E. left. reflexivity.
  - destruct (IH _ x c H) as [->|[k [n' [t' [i [A [B C]]]]]]]; [left; reflexivity|]. right. exists (S k), n', t', i.
    split; [exact A | split; [exact B | rewrite C; f_equal; lia]]. Qed.
Lemma combine_seq_In {X} (t : list X) : forall s i c, nth_error t i = Some c -> In (s + i, c) (combine (seq s (List.length t)) t).
Proof. induction t as [|a t IH]; intros s i c Hi; [destruct i; discriminate|]. destruct i as [|i]; simpl in Hi; simpl.
  - inversion Hi; subst. left. f_equal. lia.
  - right. replace (s + S i) with (S s + i) by lia. apply IH. exact Hi. Qed.
Lemma base_nodes_has bs : forall num0 k n t i c, nth_error bs k = Some (n, t) -> nth_error t i = Some c ->
  In (DAux (num0 + 2 * k) i, c) (base_nodes bs num0).
Proof. induction bs as [|[n0 t0] bs IH]; intros num0 k n t i c Hk Hi; [destruct k; discriminate|]. cbn [base_nodes]. rewrite !in_app_iff.
  destruct k as [|k]; simpl in Hk.
  - inversion Hk; subst. left. apply in_map_iff. exists (i, c). split; [simpl; f_equal; f_equal; lia|]. apply (combine_seq_In t 0 i c Hi).
  - right. right. replace (num0 + 2 * S k) with (S (S num0) + 2 * k) by lia. apply (IH _ k n t i c Hk Hi). Qed.
Lemma sup_nodes_In ss : forall num0 x c, In (x, c) (sup_nodes ss num0) -> c = Nc.
Proof. induction ss as [|[n [its l]] ss IH]; intros num0 x c H; simpl in H; [destruct H|].
  rewrite !in_app_iff in H. destruct H as [H|[H|H]].
  - apply in_map_iff in H. destruct H as [i [E _]]. inversion E. reflexivity.
  - apply in_map_iff in H. destruct H as [i [E _]]. inversion E. reflexivity.
  - apply (IH _ x c H). Qed.
Lemma d_nodes_In p so x c : In (x, c) (d_nodes p so) ->
  c = Nc \/ exists k n t i, nth_error (p_bases p) k = Some (n, t) /\ nth_error t i = Some c /\ x = DAux (2 * k) i.
Proof. unfold d_nodes. rewrite !in_app_iff. intros [H|[H|H]].
  - left. unfold pos_nodes in H. destruct so.
    + apply in_flat_map in H. destruct H as [[n [[its s] len]] [_ H]]. apply in_map_iff in H. destruct H as [i [E _]]. inversion E. reflexivity.
    + apply in_flat_map in H. destruct H as [[n [[its len] d]] [_ H]]. apply in_map_iff in H. destruct H as [i [E _]]. inversion E. reflexivity.
  - apply base_nodes_In in H. exact H.
  - left. apply (sup_nodes_In _ _ x c H). Qed.

Lemma sincr_NoDup l : sincr l = true -> NoDup l.
Proof. induction l as [|a l IH]; intros H; [constructor|]. constructor.
  - intros C. pose proof (sincr_lt _ H a l eq_refl a C). lia.
  - apply IH. cbn [sincr] in H. destruct l; [reflexivity|]. apply andb_prop in H. apply H. Qed.
Lemma st_of_In st k c : NoDup (map fst st) -> In (k, c) st -> st_of st k = c.
Proof. unfold st_of. induction st as [|[k0 c0] st IH]; intros ND H; [destruct H|]. simpl in ND. inversion ND as [|? ? NI ND']; subst.
  simpl. destruct (Nat.eqb k0 k) eqn:E.
  - apply Nat.eqb_eq in E. subst. destruct H as [H|H]; [inversion H; reflexivity|]. exfalso. apply NI. apply in_map_iff. exists (k, c). auto.
  - destruct H as [H|H]; [inversion H; subst; rewrite Nat.eqb_refl in E; discriminate|]. apply IH; assumption. Qed.

Section Sat.
Variable p : pspec.
Variable lay : layout.
Variable so : bool.
Variable g : cgraph.
Hypothesis WFH : spec_wf p so.
Hypothesis DOK : dgraph_ok p lay so = true.
Hypothesis SAME : same_graph p lay so g = true.
Hypothesis GOK : graph_ok g = true.

Let WF := WFH.
Let e := enc p lay.

Lemma keys_nodes : g_keys g = map e (nodes p so).
Proof. destruct (graph_ok_spec g GOK) as [_ [SK _]]. destruct (graph_links p lay so g SAME) as [_ [_ GS]]. rewrite <- SK, GS. unfold nodes.
  rewrite !map_map. reflexivity. Qed.
Lemma st_nodup : NoDup (map fst (g_st g)).
Proof. destruct (graph_ok_spec g GOK) as [_ [SK _]]. rewrite SK, keys_nodes. apply sincr_NoDup.
  unfold dgraph_ok in DOK. apply andb_prop in DOK. apply DOK. Qed.
Lemma node_template x c : In (x, c) (d_nodes p so) -> st_of (g_st g) (e x) = c.
Proof. intros H. apply st_of_In; [apply st_nodup|]. destruct (graph_links p lay so g SAME) as [_ [_ GS]]. rewrite GS. apply in_map_iff. exists (x, c). auto. Qed.

(* every structural or real link lifts to connectivity in the seeded graph *)
Lemma lift_conn x q y : pconn dnode (S_links p so ++ R_links p so) x q y -> gconn g (e x) q (e y).
Proof. intros H. destruct (graph_links p lay so g SAME) as [GE [GW _]]. unfold gconn. rewrite GE, GW. apply conn_pconn. rewrite nlinks_enc.
  apply transfer_bwd. apply (pconn_mono dnode (S_links p so ++ R_links p so)); [|exact H]. intros l Hl. apply links_same. exact Hl. Qed.

Theorem sat_to_doc : (exists a, gsat g a) -> doc_sat p so.
Proof. intros [a SA]. exists (fun c => a (e c)). split.
  - intros k n t i c Hk Hi. destruct SA as [ST _].
    assert (Hin : In (DAux (2 * k) i, c) (d_nodes p so)).
    { unfold d_nodes. rewrite !in_app_iff. right. left. apply (base_nodes_has (p_bases p) 0 k n t i c Hk Hi). }
    pose proof (node_template _ _ Hin) as T. specialize (ST (e (DAux (2 * k) i))). unfold sem0 in ST. rewrite T in ST. apply ST.
    rewrite keys_nodes. apply in_map. unfold nodes. apply in_map_iff. exists (DAux (2 * k) i, c). auto.
  - intros x y q H0. assert (H : pconn dnode (Rc_links p so) x q y).
    { replace q with (xorb false q) by (destruct q; reflexivity). eapply pc_fwd; [constructor | exact H0]. }
    apply (from_contracted dnode (kap p so) (S_links p so) (R_links p so) (kap_reach p so WF)) in H. apply lift_conn in H.
    pose proof (sat_conn g (g_st g) a SA _ _ _ H) as Q. exact Q. Qed.

(* decoding of positions back to declared nodes *)
Definition dec (n : nat) : option dnode := find (fun x => Nat.eqb (e x) n) (nodes p so).
Lemma dec_enc x : In x (nodes p so) -> dec (e x) = Some x.
Proof. intros Vx. unfold dec. destruct (find _ _) as [y|] eqn:F.
  - apply find_some in F. destruct F as [Vy E]. apply Nat.eqb_eq in E. f_equal. apply (enc_inj p lay so DOK); assumption.
  - pose proof (find_none _ _ F x Vx) as E. cbn in E. rewrite Nat.eqb_refl in E. discriminate. Qed.

Theorem doc_to_sat : doc_sat p so -> exists a, gsat g a.
Proof. intros [al [TT RR]].
  set (val := fun x : dnode => app_par (snd (kap p so x)) (al (fst (kap p so x)))).
  exists (fun n => match dec n with Some x => val x | None => bA end).
  assert (SL : forall x y q, In (x, y, q) (S_links p so ++ R_links p so) -> val y = app_par q (val x)).
  { intros x y q H. apply in_app_or in H. destruct H as [H|H].
    - destruct (kap_struct p so WF x y q H) as [E1 E2]. unfold val. rewrite E1, E2. rewrite app_par_xor.
      destruct q, (snd (kap p so y)); simpl; rewrite ?bcompl_invol; reflexivity.
    - assert (HC : In (fst (kap p so x), fst (kap p so y), xorb q (xorb (snd (kap p so x)) (snd (kap p so y)))) (Rc_links p so)).
      { unfold Rc_links, Rc. apply in_map_iff. exists (x, y, q). auto. }
      apply RR in HC. unfold val. rewrite HC. destruct q, (snd (kap p so x)), (snd (kap p so y)); simpl; rewrite ?bcompl_invol; reflexivity. }
  assert (LK : forall x y q, In (x, y, q) (mk false (d_eq p so) ++ mk true (d_wc p so)) ->
     match dec (e y) with Some u => val u | None => bA end = app_par q match dec (e x) with Some u => val u | None => bA end).
  { intros x y q H. destruct (LL_valid p lay so DOK x y q H) as [Vx Vy]. rewrite (dec_enc x Vx), (dec_enc y Vy). apply SL. apply links_same. exact H. }
  destruct (graph_links p lay so g SAME) as [GE [GW GS]]. split; [|split].
  - intros n Hn. rewrite keys_nodes in Hn. apply in_map_iff in Hn. destruct Hn as [x [<- Vx]]. fold e. rewrite (dec_enc x Vx).
    unfold nodes in Vx. apply in_map_iff in Vx. destruct Vx as [[x' c] [E Hin]]. simpl in E. subst x'.
    unfold sem0. rewrite (node_template x c Hin). destruct (d_nodes_In p so x c Hin) as [->|[k [n [t [i [A [B ->]]]]]]].
    + unfold gset, Nc. simpl. destruct (val x); reflexivity.
    + assert (KL : k < List.length (p_bases p)) by (apply nth_error_Some; rewrite A; discriminate).
      assert (KE : kap p so (DAux (2 * k) i) = (DAux (2 * k) i, false)).
      { unfold kap. replace (2 * k <? 2 * List.length (p_bases p)) with true by (symmetry; apply Nat.ltb_lt; lia). rewrite even_2k. reflexivity. }
      unfold val. rewrite KE. simpl. apply (TT k n t i c A B).
  - intros u v H. rewrite GE in H. unfold enc_links in H. apply in_map_iff in H. destruct H as [[x y] [E Hin]]. simpl in E. inversion E; subst.
    assert (HL : In (x, y, false) (mk false (d_eq p so) ++ mk true (d_wc p so))) by (apply in_or_app; left; apply In_mk; auto).
    pose proof (LK x y false HL) as Q. simpl in Q. fold e. rewrite Q. reflexivity.
  - intros u v H. rewrite GW in H. unfold enc_links in H. apply in_map_iff in H. destruct H as [[x y] [E Hin]]. simpl in E. inversion E; subst.
    assert (HL : In (x, y, true) (mk false (d_eq p so) ++ mk true (d_wc p so))) by (apply in_or_app; right; apply In_mk; auto).
    pose proof (LK x y true HL) as Q. simpl in Q. fold e. rewrite Q, bcompl_invol. reflexivity. Qed.

Theorem gsat_iff_doc_sat_wf : (exists a, gsat g a) <-> doc_sat p so.
Proof. split; [apply sat_to_doc | apply doc_to_sat]. Qed.
End Sat.

Theorem gsat_iff_doc_sat p lay so g : spec_okb p so = true -> dgraph_ok p lay so = true -> same_graph p lay so g = true -> graph_ok g = true ->
  ((exists a, gsat g a) <-> doc_sat p so).
Proof. intros SOK. apply gsat_iff_doc_sat_wf. apply spec_okb_wf, SOK. Qed.

(* constraint generation reports over-constraint exactly when the document is unsatisfiable (either layout) *)
Theorem over_iff_document_unsat_wf p so lay g : seed p so = OK (lay, g) -> graph_ok g = true ->
  spec_wf p so -> dgraph_ok p lay so = true -> same_graph p lay so g = true ->
  (get_constraints p so = DOver <-> ~ doc_sat p so).
Proof. intros SEED GOK WFH DOK SAME. rewrite (over_iff_unsat p so lay g SEED GOK).
  rewrite (gsat_iff_doc_sat_wf p lay so g WFH DOK SAME GOK). tauto. Qed.
Theorem over_iff_document_unsat p so lay g : seed p so = OK (lay, g) -> graph_ok g = true ->
  spec_okb p so = true -> dgraph_ok p lay so = true -> same_graph p lay so g = true ->
  (get_constraints p so = DOver <-> ~ doc_sat p so).
Proof. intros SEED GOK SOK. apply over_iff_document_unsat_wf; [exact SEED | exact GOK | apply spec_okb_wf, SOK]. Qed.

(* the hypotheses are met, in both layouts, by a concrete document: sequences, a super-sequence with a
   reversed item, two strands pairing over their whole length, a second structure in which one
   strand occurs twice, an equal statement *)
Definition demo_spec : pspec :=
  {| p_bases := [("a"%string, ["N"; "N"; "S"]%char); ("b"%string, ["W"; "N"]%char); ("c"%string, ["N"; "N"]%char)];
     p_sups := [("ab"%string, ([SB "a" false; SB "b" true], 5))];
     p_strands := [("s1"%string, ([SS "ab" false], 5, false)); ("s2"%string, ([SB "c" false; SB "a" true], 5, false))];
     p_structs := [("D"%string, (["s1"; "s2"]%string, [Open; Open; Open; Open; Open; Plus; Close; Close; Close; Close; Close], 10));
                   ("E"%string, (["s2"; "s1"; "s2"]%string, [Dot; Dot; Dot; Dot; Dot; Plus; Open; Open; Open; Open; Open; Plus; Close; Close; Close; Close; Close], 15))];
     p_equals := [[SB "b" false; SB "c" false]] |}.
Example demo_hypotheses : forall so, exists lay g, seed demo_spec so = OK (lay, g) /\ graph_ok g = true /\
  spec_okb demo_spec so = true /\ dgraph_ok demo_spec lay so = true /\ same_graph demo_spec lay so g = true /\
  exists e w s, get_constraints demo_spec so = DOk e w s.
Proof. intros so. destruct so.
  - destruct (seed demo_spec true) as [[lay g]|k] eqn:E; [|vm_compute in E; discriminate].
    exists lay, g. split; [reflexivity|]. vm_compute in E. inversion E; subst. repeat split; try (vm_compute; reflexivity).
    vm_compute. eauto.
  - destruct (seed demo_spec false) as [[lay g]|k] eqn:E; [|vm_compute in E; discriminate].
    exists lay, g. split; [reflexivity|]. vm_compute in E. inversion E; subst. repeat split; try (vm_compute; reflexivity).
    vm_compute. eauto. Qed.
