(* The link graph of Convert.get_constraints, in both layouts, written declaratively over symbolic
   nodes (a strand position, a position of a structure, or offset x of numbered object num), in the
   order in which `seed` creates nodes and links; `same_graph` compares it with the graph `seed`
   returns. *)
From Coq Require Import List String Ascii Arith Bool Lia.
From PC Require Import Base.Codes Comp.Syntax Comp.Compile Design.Propagate Design.Designer.
Import ListNotations.
Local Open Scope list_scope.

Inductive dnode := DPos (n : string) (o : nat) | DInst (sn : string) (x : nat) | DAux (num x : nat).
Definition dlink := (dnode * dnode)%type.

Section D.
Variable p : pspec.
Variable lay : layout.
Variable so : bool.                                   (* structure-oriented layout? *)

Definition strand_len (n : string) : nat := match afind (p_strands p) n with Some (_, l, _) => l | None => 0 end.
Definition total (names : list string) : nat := fold_right (fun n a => strand_len n + a) 0 names.
Definition struct_names (sn : string) : list string := match afind (p_structs p) sn with Some (names, _, _) => names | None => [] end.
Definition tstart_of (n : string) : nat := match afind (l_tstart lay) n with Some s => s | None => 0 end.
Definition enc (n : dnode) : nat :=
  match n with
  | DPos s o => tstart_of s + o
  | DInst sn x => match struct_index lay p true sn (struct_names sn) x with Some i => i | None => 0 end
  | DAux num x => aux lay p num x
  end.

(* structure layout: a strand's own positions are those of its first occurrence in a structure *)
Fixpoint occ_offset (names : list string) (n : string) (off : nat) : option nat :=
  match names with [] => None | m :: r => if String.eqb m n then Some off else occ_offset r n (off + strand_len m) end.
Fixpoint first_inst_in (sts : list (string * (list string * list sym * nat))) (n : string) : option (string * nat) :=
  match sts with
  | [] => None
  | (sn, (names, _, _)) :: r => match occ_offset names n 0 with Some off => Some (sn, off) | None => first_inst_in r n end
  end.
Definition spos (n : string) (o : nat) : dnode :=
  if so then match first_inst_in (p_structs p) n with Some (sn, off) => DInst sn (off + o) | None => DPos n o end
  else DPos n o.

(* nodes with their initial template code *)
Definition pos_nodes : list (dnode * ascii) :=
  if so then flat_map (fun '(sn, (_, _, len)) => map (fun x => (DInst sn x, Nc)) (seq 0 len)) (p_structs p)
  else flat_map (fun '(n, (_, len, _)) => map (fun x => (DPos n x, Nc)) (seq 0 len)) (p_strands p).
Fixpoint base_nodes (bs : list (string * list ascii)) (num : nat) : list (dnode * ascii) :=
  match bs with
  | [] => []
  | (_, t) :: r =>
      map (fun xc => (DAux num (fst xc), snd xc)) (combine (seq 0 (List.length t)) t) ++
      map (fun x => (DAux (S num) x, Nc)) (seq 0 (List.length t)) ++ base_nodes r (S (S num))
  end.
Fixpoint sup_nodes (ss : list (string * (list sref * nat))) (num : nat) : list (dnode * ascii) :=
  match ss with
  | [] => []
  | (_, (_, l)) :: r =>
      map (fun x => (DAux num x, Nc)) (seq 0 l) ++ map (fun x => (DAux (S num) x, Nc)) (seq 0 l) ++ sup_nodes r (S (S num))
  end.
Definition nb : nat := 2 * List.length (p_bases p).
Definition d_nodes : list (dnode * ascii) := pos_nodes ++ base_nodes (p_bases p) 0 ++ sup_nodes (p_sups p) nb.

(* complement links: target base pairs, then every object's reversed view *)
(* position x of a structure (strand breaks not counted) as (strand, offset) *)
Fixpoint walk_sym (names : list string) (x : nat) : option (string * nat) :=
  match names with
  | [] => None
  | n :: r => if Nat.leb (strand_len n) x then walk_sym r (x - strand_len n) else Some (n, x)
  end.
Definition bond_links : list dlink :=
  flat_map (fun '(sn, (names, s, _)) =>
      match get_bonds s with
      | OK bs => flat_map (fun '(x, y) =>
                   if so then [(DInst sn x, DInst sn y)] else
                   match walk_sym names x, walk_sym names y with
                   | Some (n1, o1), Some (n2, o2) => [(DPos n1 o1, DPos n2 o2)]
                   | _, _ => [] end) bs
      | Err _ => [] end) (p_structs p).
Fixpoint view_links (lens : list nat) (num : nat) : list dlink :=
  match lens with
  | [] => []
  | l :: r => map (fun x => (DAux (S num) x, DAux num (l - x - 1))) (seq 0 l) ++ view_links r (S (S num))
  end.
Definition d_wc : list dlink :=
  bond_links ++ view_links (map (fun bt => List.length (snd bt)) (p_bases p)) 0 ++ view_links (map (fun s => snd (snd s)) (p_sups p)) nb.

(* equality links: (structure layout) every occurrence of a strand in a structure equals the strand's
   own positions; equal statements, the items of every super-sequence, the items of every strand *)
Fixpoint occ_links (sn : string) (names : list string) (offset : nat) : list dlink :=
  match names with
  | [] => []
  | n :: r => map (fun x => (spos n x, DInst sn (offset + x))) (seq 0 (strand_len n)) ++ occ_links sn r (offset + strand_len n)
  end.
Definition inst_links : list dlink :=
  if so then flat_map (fun '(sn, (names, _, _)) => occ_links sn names 0) (p_structs p) else [].
Definition equal_links : list dlink :=
  flat_map (fun eqlist =>
      match eqlist with
      | [] => []
      | first :: rest =>
          match sref_num p first with
          | None => []
          | Some n0 => flat_map (fun s => match sref_num p s with
                                          | Some n1 => map (fun x => (DAux n0 x, DAux n1 x)) (seq 0 (sref_len p s))
                                          | None => [] end) rest
          end
      end) (p_equals p).
Fixpoint item_links (items : list sref) (offset : nat) (target : nat -> dnode) : list dlink :=
  match items with
  | [] => []
  | it :: r =>
      match sref_num p it with
      | None => []
      | Some num => map (fun x => (target (offset + x), DAux num x)) (seq 0 (sref_len p it)) ++ item_links r (offset + sref_len p it) target
      end
  end.
Definition sup_item_links : list dlink :=
  flat_map (fun '(n, (items, _)) =>
      match sref_num p (SS n false) with
      | Some num => item_links items 0 (fun o => DAux num o)
      | None => [] end) (p_sups p).
Definition strand_item_links : list dlink :=
  flat_map (fun '(n, (items, _, _)) => item_links items 0 (fun o => spos n o)) (p_strands p).
Definition d_eq : list dlink := inst_links ++ equal_links ++ sup_item_links ++ strand_item_links.

(* comparison with the graph seed returns: same nodes in the same order with the same initial codes, same links in the same order *)
Fixpoint pairs_eqb (a b : list (nat * nat)) : bool :=
  match a, b with
  | [], [] => true
  | (x, y) :: a', (u, w) :: b' => Nat.eqb x u && Nat.eqb y w && pairs_eqb a' b'
  | _, _ => false
  end.
Fixpoint nodes_eqb (a : list (nat * ascii)) (b : list (nat * ascii)) : bool :=
  match a, b with
  | [], [] => true
  | (x, c) :: a', (u, d) :: b' => Nat.eqb x u && Ascii.eqb c d && nodes_eqb a' b'
  | _, _ => false
  end.
Definition enc_links (l : list dlink) : list (nat * nat) := map (fun ab => (enc (fst ab), enc (snd ab))) l.
Definition same_graph (g : cgraph) : bool :=
  nodes_eqb (g_st g) (map (fun nc => (enc (fst nc), snd nc)) d_nodes) &&
  pairs_eqb (g_eq g) (enc_links d_eq) && pairs_eqb (g_wc g) (enc_links d_wc).
End D.
