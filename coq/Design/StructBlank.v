(* C04 / C05, structure layout: the nucleotides of the structures sit exactly where the layout says and
   everything else is blank - one blank follows every strand of a structure and one more follows the
   structure, so two strands are at least one blank and two complexes at least two blanks apart. *)
From Coq Require Import List String Ascii Arith Bool Lia.
From PC Require Import Base.Codes Comp.Syntax Comp.Compile Comp.EmitProofs Design.Propagate Design.PropagateProofs Design.Designer Design.DesignerProofs
  Design.TemplateProofs Design.DGraph Design.DenoteGraph Design.DenoteTie Design.DenoteSat Design.LoadProofs Design.SeedProofs Design.LayoutProofs Design.Loaded
  Design.ContractProofs Design.SeedTotal Design.StructLayout Design.StructSeed Design.StructTotal Design.LoadedStruct.
Import ListNotations.
Local Open Scope list_scope.

(* two ways of splitting one list at an element *)
Lemma split_compare {X} (a : list X) : forall x b a' x' b', a ++ x :: b = a' ++ x' :: b' ->
  (a = a' /\ x = x' /\ b = b') \/ (exists m, a = a' ++ x' :: m) \/ (exists m, a' = a ++ x :: m).
Proof. induction a as [|y a IH]; intros x b a' x' b' E.
  - destruct a' as [|y' a']; simpl in E; inversion E; subst; [left; auto | right; right; exists a'; reflexivity].
  - destruct a' as [|y' a']; simpl in E; inversion E; subst; [right; left; exists a; reflexivity|].
    destruct (IH _ _ _ _ _ H1) as [[-> [-> ->]]|[[m ->]|[m ->]]]; [left; auto | right; left; exists m; reflexivity | right; right; exists m; reflexivity]. Qed.

Section StructBlanks.
Variable ls : list pline.
Variable p : pspec.
Variable lay : layout.
Variable g : cgraph.
Hypothesis LOAD : load_spec ls pspec0 = OK p.
Hypothesis SEED : seed p true = OK (lay, g).
Variables (e w : list (option nat)) (s : list (option ascii)).
Hypothesis ARR : get_constraints p true = DOk e w s.

Let LIp : LI p := load_spec_LI ls pspec0 p LI_empty LOAD.
Let GOK := sloaded_graph_ok ls p lay g LOAD SEED.
Let EL := sloaded_layout ls p lay g LOAD SEED.
Local Notation slen := (strand_len p).

Definition in_struct (i : nat) : Prop :=
  exists sn names sy len x, In (sn, (names, sy, len)) (p_structs p) /\ x < len /\ i = enc p lay (DInst sn x).

Lemma skeys_are_nodes : g_keys g = map (enc p lay) (nodes p true).
Proof. apply (keys_nodes p lay true g (sloaded_same ls p lay g LOAD SEED) GOK). Qed.

(* the keys below npos are exactly the positions of the structures *)
Lemma key_positions_struct i : i < l_npos lay -> (In i (g_keys g) <-> in_struct i).
Proof. intros Li. rewrite skeys_are_nodes. split.
  - intros H. apply in_map_iff in H. destruct H as [nd [E Hnd]]. unfold nodes, d_nodes in Hnd. rewrite map_app, in_app_iff in Hnd.
    destruct Hnd as [Hnd|Hnd].
    + apply in_map_iff in Hnd. destruct Hnd as [[nd' c] [E' Hin]]. simpl in E'. subst nd'. unfold pos_nodes in Hin. apply in_flat_map in Hin.
      destruct Hin as [[sn [[names sy] len]] [Hs Hin]]. apply in_map_iff in Hin. destruct Hin as [x [E'' Hx]]. inversion E''; subst. apply in_seq in Hx.
      exists sn, names, sy, len, x. split; [exact Hs | split; [lia | reflexivity]].
    + exfalso. rewrite EL in E, Li. rewrite map_app in Hnd.
      destruct (StructLayout.aux_ib p (build_layout p true)) as [_ B]. rewrite <- map_app in B.
      specialize (B _ (in_map (enc p (build_layout p true)) _ _ Hnd)). lia.
  - intros [sn [names [sy [len [x [Hs [Hx ->]]]]]]]. apply in_map. unfold nodes, d_nodes. rewrite map_app. apply in_or_app. left.
    apply in_map_iff. exists (DInst sn x, Nc). split; [reflexivity|]. unfold pos_nodes. apply in_flat_map. exists (sn, (names, sy, len)).
    split; [exact Hs | apply in_map_iff; exists x; split; [reflexivity | apply in_seq; lia]]. Qed.

(* the template array is blank exactly off the structures *)
Theorem blank_iff_off_struct i : i < List.length s -> (nth_error s i = Some None <-> ~ in_struct i).
Proof. intros Li. assert (Lp : i < l_npos lay).
  { pose proof ARR as A. unfold get_constraints in A. rewrite SEED in A. destruct (propagate _ _ _) as [m| |]; try discriminate.
    destruct (templates m _ _ _) as [[st'|] b]; [|destruct b; discriminate]. inversion A; subst s. rewrite map_length, seq_length in Li.
    pose proof (ContractProofs.fold_max_le (l_npos lay) (g_keys g) 0 ltac:(lia)). lia. }
  destruct (template_clause p true lay g SEED GOK e w s ARR i Li) as [T1 T2]. split.
  - intros H C. apply (key_positions_struct i Lp) in C. destruct (T1 C) as [c [S0 [A _]]]. congruence.
  - intros H. apply T2. intros C. apply H. apply (key_positions_struct i Lp), C. Qed.

(* where the positions of a structure sit *)
Lemma in_struct_at i : in_struct i -> exists before sn names sy len after pre n post o,
  p_structs p = before ++ (sn, (names, sy, len)) :: after /\ names = pre ++ n :: post /\ o < slen n /\
  i = sswidth p before + swidth p pre + o.
Proof. intros [sn [names [sy [len [x [Hs [Hx ->]]]]]]]. destruct (in_split _ _ Hs) as [before [after E]].
  rewrite (proj2 (li_struct p LIp sn names sy len Hs)) in Hx. destruct (total_split p names x Hx) as [pre [n [post [o [En [Ex Ho]]]]]].
  exists before, sn, names, sy, len, after, pre, n, post, o. split; [exact E | split; [exact En | split; [exact Ho|]]].
  rewrite EL. apply (struct_entry p LIp before sn names sy len after x pre n post o E En Ex Ho). Qed.

Lemma swidth_cons n l : swidth p (n :: l) = slen n + 1 + swidth p l. Proof. reflexivity. Qed.
Lemma sswidth_cons sn names sy len l : sswidth p ((sn, (names, sy, len)) :: l) = swidth p names + 1 + sswidth p l. Proof. reflexivity. Qed.

(* one blank after every strand of a structure, one more after the structure; the next strand and the next
   structure start right behind them *)
Theorem blanks_in_struct before sn names sy len after pre n post :
  p_structs p = before ++ (sn, (names, sy, len)) :: after -> names = pre ++ n :: post ->
  (forall o, o < slen n -> enc p lay (DInst sn (total p pre + o)) = sswidth p before + swidth p pre + o) /\
  ~ in_struct (sswidth p before + swidth p pre + slen n) /\
  ~ in_struct (sswidth p before + swidth p names) /\
  (forall sn' names' sy' len' after', after = (sn', (names', sy', len')) :: after' ->
     afind (l_sstart lay) sn' = Some (sswidth p before + swidth p names + 1)).
Proof. intros E En. split; [|split; [|split]].
  - intros o Ho. rewrite EL. apply (struct_entry p LIp before sn names sy len after _ pre n post o E En eq_refl Ho).
  - intros C. destruct (in_struct_at _ C) as [b' [sn' [nm' [sy' [len' [a' [pre' [n' [post' [o' [E' [En' [Ho' Ei]]]]]]]]]]]]].
    rewrite E in E'. destruct (split_compare _ _ _ _ _ _ E') as [[<- [X <-]]|[[m ->]|[m ->]]].
    + injection X as X1 X2 X3 X4. rewrite <- X2, En in En'. destruct (split_compare _ _ _ _ _ _ En') as [[<- [<- <-]]|[[m ->]|[m ->]]].
      * lia.
      * rewrite swidth_app, swidth_cons in Ei. lia.
      * rewrite swidth_app, swidth_cons in Ei. lia.
    + rewrite sswidth_app, sswidth_cons, En', swidth_app, swidth_cons in Ei. lia.
    + rewrite sswidth_app, sswidth_cons, En, swidth_app, swidth_cons in Ei. lia.
  - intros C. destruct (in_struct_at _ C) as [b' [sn' [nm' [sy' [len' [a' [pre' [n' [post' [o' [E' [En' [Ho' Ei]]]]]]]]]]]]].
    rewrite E in E'. destruct (split_compare _ _ _ _ _ _ E') as [[<- [X <-]]|[[m ->]|[m ->]]].
    + injection X as X1 X2 X3 X4. rewrite X2, En', swidth_app, swidth_cons in Ei. lia.
    + rewrite sswidth_app, sswidth_cons, En', swidth_app, swidth_cons in Ei. lia.
    + rewrite sswidth_app, sswidth_cons in Ei. lia.
  - intros sn' names' sy' len' after' Ea. subst after.
    assert (E2 : p_structs p = (before ++ [(sn, (names, sy, len))]) ++ (sn', (names', sy', len')) :: after') by (rewrite E, <- app_assoc; reflexivity).
    assert (NI : ~ In sn' (map fst (before ++ [(sn, (names, sy, len))]))).
    { pose proof (li_nd_struct p LIp) as ND. rewrite E2, map_app in ND. simpl in ND. intros C. apply (NoDup_app_disj _ _ ND sn' C). left. reflexivity. }
    rewrite EL, (sl_sstart p sn'), E2, (sfirst_at p _ sn' names' sy' len' after' 0 NI), sswidth_app, sswidth_cons. simpl. f_equal. lia. Qed.

(* as array entries: the slot after a strand and the slot after its structure are blank *)
Theorem struct_separators before sn names sy len after pre n post x :
  p_structs p = before ++ (sn, (names, sy, len)) :: after -> names = pre ++ n :: post ->
  (x = sswidth p before + swidth p pre + slen n \/ x = sswidth p before + swidth p names) -> x < List.length s ->
  nth_error s x = Some None.
Proof. intros E En Hx Lx. destruct (blanks_in_struct before sn names sy len after pre n post E En) as [_ [A [B _]]].
  apply (blank_iff_off_struct x Lx). destruct Hx as [->| ->]; assumption. Qed.
End StructBlanks.
