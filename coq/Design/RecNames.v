(* C06: the records the designer writes for a compiled component carry pairwise distinct names - the
   hypothesis of the composed hand-over theorems - as soon as no sequence or structure name of the program
   (and not the instance prefix) contains a '*': structure names are unique, sequence and super-sequence
   names are unique, a structure never shares its name with a sequence (D13), and a starred record name
   differs from every unstarred one. *)
From Coq Require Import List String Ascii Arith Bool Lia.
From PC Require Import Base.Sexp Base.Codes Comp.Syntax Comp.Compile Comp.Denote Comp.EmitProofs Comp.CompileProofs Comp.NameProofs
  Design.Designer Design.DGraph Design.DenoteGraph Design.DenoteTie Design.Results Design.ResultsProofs Design.LoadProofs.
Import ListNotations.
Local Open Scope list_scope.

(* ---- where the names of a loaded specification come from ---- *)
Lemma load_line_names p l p' : load_line p l = OK p' ->
  (forall n, In n (map fst (p_bases p')) -> In n (map fst (p_bases p)) \/ exists k len, l = PSeq n k len) /\
  (forall n, In n (map fst (p_sups p')) -> In n (map fst (p_sups p)) \/ exists its len, l = PSup n its len) /\
  (forall n, In n (map fst (p_structs p')) -> In n (map fst (p_structs p)) \/ exists o ss s, l = PStruct o n ss s).
Proof. intros H. destruct l as [n k len|n items len|d n items len|o n ss s|lo hi ins outs|items]; cbn [load_line] in H.
  - destruct (negb (valid_template k)); [discriminate|]. destruct (_ || _); [discriminate|]. inversion H; subst p'. cbn [p_bases p_sups p_structs].
    split; [|split; auto]. intros m Hm. rewrite map_app, in_app_iff in Hm. destruct Hm as [Hm|[<-|[]]]; [left; exact Hm | right; eauto].
  - destruct (_ || _); [discriminate|]. destruct (get_seqs p items) as [rs|]; [|discriminate]. inversion H; subst p'. cbn [p_bases p_sups p_structs].
    split; [auto|split; [|auto]]. intros m Hm. rewrite map_app, in_app_iff in Hm. destruct Hm as [Hm|[<-|[]]]; [left; exact Hm | right; eauto].
  - destruct (ahas (p_strands p) n); [discriminate|]. destruct (get_seqs p items) as [rs|]; [|discriminate]. inversion H; subst p'. cbn [p_bases p_sups p_structs]. auto.
  - destruct (ahas (p_structs p) n); [discriminate|]. destruct (strand_lens_of p ss) as [lens|]; [|discriminate]. cbn [bind] in H.
    destruct (get_bonds s); [|discriminate]. cbn [bind] in H. destruct (Comp.Struct.structure_ok s lens); [|discriminate]. inversion H; subst p'. cbn [p_bases p_sups p_structs].
    split; [auto|split; [auto|]]. intros m Hm. rewrite map_app, in_app_iff in Hm. destruct Hm as [Hm|[<-|[]]]; [left; exact Hm | right; eauto].
  - inversion H; subst p'. auto.
  - destruct (get_seqs p items) as [rs|]; [|discriminate]. cbn [bind] in H. destruct rs as [|r0 rs]; [discriminate|]. destruct (forallb _ _); [|discriminate].
    inversion H; subst p'. cbn [p_bases p_sups p_structs]. auto. Qed.

Lemma load_spec_names ls : forall p p', load_spec ls p = OK p' ->
  (forall n, In n (map fst (p_bases p')) -> In n (map fst (p_bases p)) \/ exists k len, In (PSeq n k len) ls) /\
  (forall n, In n (map fst (p_sups p')) -> In n (map fst (p_sups p)) \/ exists its len, In (PSup n its len) ls) /\
  (forall n, In n (map fst (p_structs p')) -> In n (map fst (p_structs p)) \/ exists o ss s, In (PStruct o n ss s) ls).
Proof. induction ls as [|l ls IH]; intros p p' H; simpl in H.
  - inversion H; subst. auto.
  - destruct (load_line p l) as [p1|] eqn:E; [|discriminate]. simpl in H. destruct (IH p1 p' H) as [A [B C]]. destruct (load_line_names p l p1 E) as [A1 [B1 C1]].
    split; [|split].
    + intros n Hn. destruct (A n Hn) as [X|[k [len X]]]; [|right; exists k, len; right; exact X]. destruct (A1 n X) as [Y|[k [len ->]]]; [left; exact Y | right; exists k, len; left; reflexivity].
    + intros n Hn. destruct (B n Hn) as [X|[k [len X]]]; [|right; exists k, len; right; exact X]. destruct (B1 n X) as [Y|[k [len ->]]]; [left; exact Y | right; exists k, len; left; reflexivity].
    + intros n Hn. destruct (C n Hn) as [X|[o [ss [s X]]]]; [|right; exists o, ss, s; right; exact X]. destruct (C1 n X) as [Y|[o [ss [s ->]]]]; [left; exact Y | right; exists o, ss, s; left; reflexivity]. Qed.

(* the lines of an emitted component name its own sequences, super-sequences and structures *)
Lemma emit_comp_seq_line c n k len : In (PSeq n k len) (emit_comp c) -> exists m, n = c_prefix c +++ m /\ In m (map fst (c_bases c)).
Proof. unfold emit_comp. rewrite !in_app_iff. intros [H|[H|[H|[H|H]]]].
  - apply in_flat_map in H. destruct H as [[m b] [Hin H]]. destruct (Nat.eqb (b_len b) 0); [destruct H|]. destruct H as [H|[]]. inversion H; subst. exists m. split; [reflexivity | apply in_map_iff; exists (m, b); auto].
  - apply in_flat_map in H. destruct H as [[m s] [_ H]]. destruct (Nat.eqb (s_len s) 0); [destruct H | destruct H as [H|[]]; discriminate].
  - apply in_map_iff in H. destruct H as [[m t] [E _]]. discriminate.
  - apply in_map_iff in H. destruct H as [[m u] [E _]]. discriminate.
  - apply in_map_iff in H. destruct H as [k0 [E _]]. discriminate. Qed.
Lemma emit_comp_sup_line c n its len : In (PSup n its len) (emit_comp c) -> exists m, n = c_prefix c +++ m /\ In m (map fst (c_sups c)).
Proof. unfold emit_comp. rewrite !in_app_iff. intros [H|[H|[H|[H|H]]]].
  - apply in_flat_map in H. destruct H as [[m b] [_ H]]. destruct (Nat.eqb (b_len b) 0); [destruct H | destruct H as [H|[]]; discriminate].
  - apply in_flat_map in H. destruct H as [[m s] [Hin H]]. destruct (Nat.eqb (s_len s) 0); [destruct H|]. destruct H as [H|[]]. inversion H; subst. exists m. split; [reflexivity | apply in_map_iff; exists (m, s); auto].
  - apply in_map_iff in H. destruct H as [[m t] [E _]]. discriminate.
  - apply in_map_iff in H. destruct H as [[m u] [E _]]. discriminate.
  - apply in_map_iff in H. destruct H as [k0 [E _]]. discriminate. Qed.
Lemma emit_comp_struct_line c o n ss s : In (PStruct o n ss s) (emit_comp c) -> exists m, n = c_prefix c +++ m /\ In m (map fst (c_structs c)).
Proof. unfold emit_comp. rewrite !in_app_iff. intros [H|[H|[H|[H|H]]]].
  - apply in_flat_map in H. destruct H as [[m b] [_ H]]. destruct (Nat.eqb (b_len b) 0); [destruct H | destruct H as [H|[]]; discriminate].
  - apply in_flat_map in H. destruct H as [[m s0] [_ H]]. destruct (Nat.eqb (s_len s0) 0); [destruct H | destruct H as [H|[]]; discriminate].
  - apply in_map_iff in H. destruct H as [[m t] [E _]]. discriminate.
  - apply in_map_iff in H. destruct H as [[m u] [E Hin]]. inversion E; subst. exists m. split; [reflexivity | apply in_map_iff; exists (m, u); auto].
  - apply in_map_iff in H. destruct H as [k0 [E _]]. discriminate. Qed.

(* ---- the names of the records ---- *)
Definition rec_names (p : pspec) : list string :=
  map fst (p_structs p) ++ flat_map (fun nb : string * list ascii => [fst nb; (fst nb ++ "*")%string]) (p_bases p) ++
  flat_map (fun ns : string * (list sref * nat) => [fst ns; (fst ns ++ "*")%string]) (p_sups p).

Lemma fold_one_names {X} p a (mk : string -> sref) (l : list (string * X)) : forall acc recs,
  fold_left (fun acc '(n, _) =>
      do l0 <- acc; do v <- get_val (S (S (List.length (p_sups p)))) p (r_state a) (mk n);
      match wc_codes v with Some w => OK (l0 ++ [(n, v); ((n ++ "*")%string, w)]) | None => Err "keyerror" end) l (OK acc) = OK recs ->
  map fst recs = map fst acc ++ flat_map (fun nx : string * X => [fst nx; (fst nx ++ "*")%string]) l.
Proof. induction l as [|[n x] l IH]; intros acc recs H; cbn [fold_left bind] in H.
  - inversion H; subst. simpl. rewrite app_nil_r. reflexivity.
  - destruct (get_val (S (S (List.length (p_sups p)))) p (r_state a) (mk n)) as [v|k] eqn:G.
    + cbn [bind] in H. destruct (wc_codes v) as [w|].
      * rewrite (IH _ _ H). rewrite map_app. simpl. rewrite <- app_assoc. reflexivity.
      * exfalso. clear - H. induction l as [|[n1 x1] l IHl]; cbn [fold_left bind] in H; [discriminate | apply IHl, H].
    + exfalso. cbn [bind] in H. clear - H. induction l as [|[n1 x1] l IHl]; cbn [fold_left bind] in H; [discriminate | apply IHl, H]. Qed.

Theorem output_records_names p a recs : output_records p a = OK recs -> map fst recs = rec_names p.
Proof. unfold output_records, rec_names. cbv zeta. intros H.
  match type of H with (do l1 <- ?e; _) = _ => destruct e as [l1|k] eqn:E1; [|discriminate] end. cbn [bind] in H.
  pose proof (fold_one_names p a (fun n => SB n false) (p_bases p) _ _ E1) as N1.
  pose proof (fold_one_names p a (fun n => SS n false) (p_sups p) _ _ H) as N2.
  rewrite N2, N1, map_map, <- app_assoc. f_equal. apply map_ext. intros [sn [[names sy] len]]. reflexivity. Qed.

(* ---- distinctness ---- *)
Lemma chars_inj a : forall b, chars a = chars b -> a = b.
Proof. induction a as [|x a IH]; intros [|y b] H; simpl in H; try discriminate; [reflexivity|]. inversion H; subst. f_equal. apply IH. assumption. Qed.
Lemma star_cancel n m : (n +++ "*")%string = (m +++ "*")%string -> n = m.
Proof. intros H. apply chars_inj. apply (f_equal chars) in H. rewrite !chars_app in H. simpl in H. apply app_inj_tail in H. apply H. Qed.
Lemma starred_has_star n : ~ nostar (n +++ "*")%string.
Proof. intros H. apply H. rewrite chars_app. apply in_or_app. right. left. reflexivity. Qed.

Lemma star_pairs_In L x : In x (flat_map (fun n : string => [n; (n +++ "*")%string]) L) -> exists m, In m L /\ (x = m \/ x = (m +++ "*")%string).
Proof. intros H. apply in_flat_map in H. destruct H as [m [Hm [H|[H|[]]]]]; eauto. Qed.
Lemma star_pairs_nodup L : NoDup L -> (forall n, In n L -> nostar n) -> NoDup (flat_map (fun n : string => [n; (n +++ "*")%string]) L).
Proof. induction L as [|n L IH]; intros ND NS; [constructor|]. inversion ND as [|? ? NI ND']; subst. simpl.
  assert (Nn : nostar n) by (apply NS; left; reflexivity).
  constructor; [|constructor].
  - intros [C|C].
    + apply (starred_has_star n). rewrite C. exact Nn.
    + destruct (star_pairs_In L n C) as [m [Hm [E|E]]]; [subst m; exact (NI Hm) | apply (starred_has_star m); rewrite <- E; exact Nn].
  - intros C. destruct (star_pairs_In L _ C) as [m [Hm [E|E]]].
    + apply (starred_has_star n). rewrite E. apply NS. right. exact Hm.
    + apply star_cancel in E. subst m. exact (NI Hm).
  - apply IH; [exact ND' | intros m Hm; apply NS; right; exact Hm]. Qed.
Lemma flat_map_fst {X} (l : list (string * X)) :
  flat_map (fun nx : string * X => [fst nx; (fst nx +++ "*")%string]) l = flat_map (fun n : string => [n; (n +++ "*")%string]) (map fst l).
Proof. induction l as [|x l IH]; [reflexivity|]. simpl. rewrite IH. reflexivity. Qed.

(* the general form: distinct sequence names, distinct structure names, no '*' anywhere, no structure named like a sequence *)
Theorem rec_names_nodup_gen p : LI p ->
  (forall n, In n (map fst (p_bases p) ++ map fst (p_sups p)) -> nostar n) ->
  (forall n, In n (map fst (p_structs p)) -> nostar n) ->
  (forall n, In n (map fst (p_structs p)) -> In n (map fst (p_bases p) ++ map fst (p_sups p)) -> False) ->
  NoDup (rec_names p).
Proof. intros I NSQ NST DISJ. unfold rec_names. rewrite !flat_map_fst, <- flat_map_app.
  assert (PAIRS : NoDup (flat_map (fun n : string => [n; (n +++ "*")%string]) (map fst (p_bases p) ++ map fst (p_sups p)))).
  { apply star_pairs_nodup; [apply (li_nd_seq p I) | exact NSQ]. }
  assert (G : forall a b : list string, NoDup a -> NoDup b -> (forall x, In x a -> In x b -> False) -> NoDup (a ++ b)).
  { induction a as [|x a IHa]; intros b Na Nb D; [exact Nb|]. inversion Na as [|? ? N1 N2]; subst. simpl. constructor.
    - rewrite in_app_iff. intros [C|C]; [exact (N1 C) | apply (D x (or_introl eq_refl) C)].
    - apply IHa; [exact N2 | exact Nb | intros y Ha Hb; apply (D y (or_intror Ha) Hb)]. }
  apply G; [apply (li_nd_struct p I) | exact PAIRS|].
  intros x Hs Hp. destruct (star_pairs_In _ _ Hp) as [m [Hm [E|E]]].
  - subst m. apply (DISJ x Hs Hm).
  - apply (starred_has_star m). rewrite <- E. apply NST, Hs. Qed.

Theorem rec_names_nodup c p : WF c -> NI c -> nostar (c_prefix c) -> load_spec (emit_comp c) pspec0 = OK p -> NoDup (rec_names p).
Proof. intros W [NSTAR DISJ] NP L. pose proof (load_spec_LI _ _ _ LI_empty L) as I. destruct (load_spec_names _ _ _ L) as [NB [NU NT]].
  assert (HB : forall n, In n (map fst (p_bases p)) -> exists m, n = c_prefix c +++ m /\ In m (map fst (c_bases c))).
  { intros n Hn. destruct (NB n Hn) as [[]|[k [len Hl]]]. apply (emit_comp_seq_line c n k len Hl). }
  assert (HU : forall n, In n (map fst (p_sups p)) -> exists m, n = c_prefix c +++ m /\ In m (map fst (c_sups c))).
  { intros n Hn. destruct (NU n Hn) as [[]|[its [len Hl]]]. apply (emit_comp_sup_line c n its len Hl). }
  assert (HT : forall n, In n (map fst (p_structs p)) -> exists m, n = c_prefix c +++ m /\ In m (map fst (c_structs c))).
  { intros n Hn. destruct (NT n Hn) as [[]|[o [ss [s Hl]]]]. apply (emit_comp_struct_line c o n ss s Hl). }
  assert (SEQS : forall n, In n (map fst (p_bases p) ++ map fst (p_sups p)) -> exists m, n = c_prefix c +++ m /\ seq_defined c m = true /\ nostar n).
  { intros n Hn. apply in_app_or in Hn. destruct Hn as [Hn|Hn].
    - destruct (HB n Hn) as [m [-> Hm]]. exists m. split; [reflexivity|]. split; [unfold seq_defined; rewrite (In_ahas _ _ Hm); reflexivity | apply nostar_app; split; [exact NP | apply NSTAR; auto]].
    - destruct (HU n Hn) as [m [-> Hm]]. exists m. split; [reflexivity|]. split; [unfold seq_defined; rewrite (In_ahas _ _ Hm); apply orb_true_r | apply nostar_app; split; [exact NP | apply NSTAR; auto]]. }
  unfold rec_names. rewrite !flat_map_fst, <- flat_map_app.
  assert (PAIRS : NoDup (flat_map (fun n : string => [n; (n +++ "*")%string]) (map fst (p_bases p) ++ map fst (p_sups p)))).
  { apply star_pairs_nodup; [apply (li_nd_seq p I)|]. intros n Hn. destruct (SEQS n Hn) as [m [_ [_ X]]]. exact X. }
  assert (G : forall a b : list string, NoDup a -> NoDup b -> (forall x, In x a -> In x b -> False) -> NoDup (a ++ b)).
  { induction a as [|x a IHa]; intros b Na Nb D; [exact Nb|]. inversion Na as [|? ? N1 N2]; subst. simpl. constructor.
    - rewrite in_app_iff. intros [C|C]; [exact (N1 C) | apply (D x (or_introl eq_refl) C)].
    - apply IHa; [exact N2 | exact Nb | intros y Ha Hb; apply (D y (or_intror Ha) Hb)]. }
  apply G; [apply (li_nd_struct p I) | exact PAIRS|].
  intros x Hs Hp. destruct (HT x Hs) as [mt [-> Hmt]]. destruct (star_pairs_In _ _ Hp) as [m [Hm [E|E]]].
  - subst m. destruct (SEQS _ Hm) as [m' [E' [SD _]]]. apply append_inj in E'. subst m'. destruct (DISJ mt (In_ahas _ _ Hmt)) as [_ X]. congruence.
  - apply (starred_has_star m). rewrite <- E. apply nostar_app. split; [exact NP | apply NSTAR; auto]. Qed.
