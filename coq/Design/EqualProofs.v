(* C06, "ports bound to one signal agree": in the records written for a designed string that fits the arrays, the two
   nucleotides tied by an `equal` statement (position by position, after resolving each side to the base sequence it
   flattens to, `kap`) carry the same base - the complementary one when exactly one side is a complemented view. *)
From Coq Require Import List String Ascii Arith Bool Lia.
From PC Require Import Base.Codes Comp.Syntax Comp.Compile Comp.EmitProofs Design.Designer Design.DesignerProofs Design.TemplateProofs Design.DGraph Design.Contraction
  Design.DenoteGraph Design.DenoteTie Design.DenoteSat Design.Results Design.ResultsProofs Design.Loaded Design.LoadedStruct Design.BondProofs.
Import ListNotations.
Local Open Scope list_scope.

Section Equal.
Variable p : pspec.
Variable lay : layout.
Variable so : bool.
Variable g : cgraph.
Variable nts : list ascii.
Hypothesis SEED : seed p so = OK (lay, g).
Hypothesis WFH : spec_wf p so.
Hypothesis DOK : dgraph_ok p lay so = true.
Hypothesis SAME : same_graph p lay so g = true.
Hypothesis GOK : graph_ok g = true.
Hypothesis PLACE : place_okb p lay so = true.
Variables (e w : list (option nat)) (s : list (option ascii)).
Hypothesis ARR : get_constraints p so = DOk e w s.
Hypothesis FITS : fits nts e w.
Local Notation cval := (cval p lay so nts).
Local Notation LK := (S_links p so ++ R_links p so).
Local Notation tpos n o := (tstart_of lay n + o).

Lemma reach_all a : pconn dnode LK a (snd (kap p so a)) (fst (kap p so a)).
Proof. apply (pconn_mono dnode (S_links p so)); [intros l0 Hl; apply in_or_app; left; exact Hl | apply (kap_reach p so WFH a)]. Qed.

(* values of canonical nucleotides connected in the declared graph are related by the parity of the path *)
Lemma cval_related c1 c2 q b1 b2 : pconn dnode LK c1 q c2 -> cval c1 b1 -> cval c2 b2 -> b2 = app_par q b1.
Proof. intros P [n1 [it1 [l1 [d1 [o1 [q1 [H1 [O1 [K1 N1]]]]]]]]] [n2 [it2 [l2 [d2 [o2 [q2 [H2 [O2 [K2 N2]]]]]]]]].
  set (x1 := spos p so n1 o1) in *. set (x2 := spos p so n2 o2) in *.
  pose proof (reach_all x1) as R1. pose proof (reach_all x2) as R2. rewrite K1 in R1. rewrite K2 in R2. simpl in R1, R2.
  pose proof (pconn_trans dnode _ _ _ _ (pconn_trans dnode _ _ _ _ R1 _ _ P) _ _ (pconn_sym dnode _ _ _ _ R2)) as T.
  apply (lift_conn p lay so g SAME) in T.
  destruct (place_spec p lay so PLACE n1 it1 l1 d1 o1 H1 O1) as [_ [E1 L1]]. destruct (place_spec p lay so PLACE n2 it2 l2 d2 o2 H2 O2) as [_ [E2 L2]].
  fold x1 in E1. fold x2 in E2. rewrite E1, E2 in T.
  assert (KN : forall x, In x (nodes p so) -> In (enc p lay x) (g_keys g)).
  { intros x Hx. rewrite (keys_nodes p lay so g SAME GOK). apply in_map. exact Hx. }
  pose proof (KN x1 (spos_node p lay so g SEED WFH DOK SAME PLACE e w s ARR n1 it1 l1 d1 o1 H1 O1)) as Ky1.
  pose proof (KN x2 (spos_node p lay so g SEED WFH DOK SAME PLACE e w s ARR n2 it2 l2 d2 o2 H2 O2)) as Ky2.
  fold x1 in Ky1. fold x2 in Ky2. rewrite E1 in Ky1. rewrite E2 in Ky2.
  destruct (fits_conn p lay so g nts SEED GOK e w s ARR FITS _ _ _ Ky1 Ky2 L1 L2 T) as [b0 [B1 B2]]. rewrite N1 in B1. rewrite N2 in B2. inversion B1; subst b0. inversion B2 as [Q].
  destruct q, q1, q2, b1, b2; simpl in Q; simpl; congruence. Qed.

Lemma equal_link_related a b : In (a, b) (equal_links p) ->
  pconn dnode LK (fst (kap p so a)) (xorb (snd (kap p so a)) (snd (kap p so b))) (fst (kap p so b)).
Proof. intros H. assert (L : In (a, b, false) LK).
  { apply in_or_app. right. unfold R_links. apply in_or_app. left. apply In_mk. auto. }
  pose proof (pconn_sym dnode _ _ _ _ (reach_all a)) as Ra. pose proof (reach_all b) as Rb.
  assert (AB : pconn dnode LK (fst (kap p so a)) (xorb (snd (kap p so a)) false) b) by (eapply pc_fwd; [exact Ra | exact L]).
  rewrite xorb_false_r in AB. apply (pconn_trans dnode _ _ _ _ AB _ _ Rb). Qed.

Theorem equal_link_values a b b1 b2 : In (a, b) (equal_links p) -> cval (fst (kap p so a)) b1 -> cval (fst (kap p so b)) b2 ->
  b2 = app_par (xorb (snd (kap p so a)) (snd (kap p so b))) b1.
Proof. intros H C1 C2. apply (cval_related _ _ _ _ _ (equal_link_related a b H) C1 C2). Qed.

(* in the records: the base-sequence records at the two tied positions, for sequences that occur in strands *)
Theorem equal_ports_agree a recs : process_results p lay nts = OK a -> output_records p a = OK recs ->
  forall x y n1 it1 l1 d1 o1 par1 n2 it2 l2 d2 o2 par2, In (x, y) (equal_links p) ->
  In (n1, (it1, l1, d1)) (p_strands p) -> o1 < l1 -> nth o1 (flat_map (ref_c p (ctbl p)) it1) (DAux 0 0, false) = (fst (kap p so x), par1) ->
  In (n2, (it2, l2, d2)) (p_strands p) -> o2 < l2 -> nth o2 (flat_map (ref_c p (ctbl p)) it2) (DAux 0 0, false) = (fst (kap p so y), par2) ->
  exists k1 i1 bn1 t1 v1 k2 i2 bn2 t2 v2 b,
    fst (kap p so x) = DAux (2 * k1) i1 /\ nth_error (p_bases p) k1 = Some (bn1, t1) /\ In (bn1, v1) recs /\
    fst (kap p so y) = DAux (2 * k2) i2 /\ nth_error (p_bases p) k2 = Some (bn2, t2) /\ In (bn2, v2) recs /\
    nth_error v1 i1 = Some (base_char b) /\ nth_error v2 i2 = Some (base_char (app_par (xorb (snd (kap p so x)) (snd (kap p so y))) b)).
Proof. intros PR OR x y n1 it1 l1 d1 o1 par1 n2 it2 l2 d2 o2 par2 HL H1 O1 F1 H2 O2 F2.
  destruct (design_results_ok_wf p lay so g nts SEED WFH DOK SAME GOK PLACE e w s ARR FITS) as [a' [recs' [PR' [OR' [_ [ST _]]]]]].
  rewrite PR in PR'. inversion PR'; subst a'. rewrite OR in OR'. inversion OR'; subst recs'.
  destruct (ST n1 it1 l1 d1 H1) as [vs1 [_ [RP1 G1]]]. destruct (ST n2 it2 l2 d2 H2) as [vs2 [_ [RP2 G2]]].
  destruct (G1 o1 _ _ O1 F1) as (k1 & i1 & bn1 & t1 & v1 & b1 & E1 & NB1 & IN1 & V1 & S1).
  destruct (G2 o2 _ _ O2 F2) as (k2 & i2 & bn2 & t2 & v2 & b2 & E2 & NB2 & IN2 & V2 & S2).
  assert (CV : forall n it l d o par vs c b, In (n, (it, l, d)) (p_strands p) -> o < l -> nth o (flat_map (ref_c p (ctbl p)) it) (DAux 0 0, false) = (c, par) ->
                read_positions nts (tstart_of lay n) l = OK vs -> nth_error vs o = Some (base_char (app_par par b)) -> cval c b).
  { intros n it l d o par vs c b Hn Ho Fl RP NV. exists n, it, l, d, o, par. split; [exact Hn | split; [exact Ho|]]. split.
    - rewrite (kap_spos p so WFH n it l d o (DAux 0 0, false) Hn Ho). exact Fl.
    - rewrite (read_positions_nth nts l _ vs o RP Ho) in NV. unfold nt_at. rewrite NV. apply char_base_char. }
  pose proof (CV _ _ _ _ _ _ _ _ _ H1 O1 F1 RP1 S1) as C1. pose proof (CV _ _ _ _ _ _ _ _ _ H2 O2 F2 RP2 S2) as C2.
  pose proof (equal_link_values x y b1 b2 HL C1 C2) as Q. subst b2.
  exists k1, i1, bn1, t1, v1, k2, i2, bn2, t2, v2, b1. repeat split; assumption. Qed.
End Equal.

(* for every loaded document, either layout *)
Theorem loaded_equal_ports_agree ls p lay g nts e w s (so : bool) a recs :
  load_spec ls pspec0 = OK p -> seed p so = OK (lay, g) -> get_constraints p so = DOk e w s -> fits nts e w ->
  process_results p lay nts = OK a -> output_records p a = OK recs ->
  forall x y n1 it1 l1 d1 o1 par1 n2 it2 l2 d2 o2 par2, In (x, y) (equal_links p) ->
  In (n1, (it1, l1, d1)) (p_strands p) -> o1 < l1 -> nth o1 (flat_map (ref_c p (ctbl p)) it1) (DAux 0 0, false) = (fst (kap p so x), par1) ->
  In (n2, (it2, l2, d2)) (p_strands p) -> o2 < l2 -> nth o2 (flat_map (ref_c p (ctbl p)) it2) (DAux 0 0, false) = (fst (kap p so y), par2) ->
  exists k1 i1 bn1 t1 v1 k2 i2 bn2 t2 v2 b,
    fst (kap p so x) = DAux (2 * k1) i1 /\ nth_error (p_bases p) k1 = Some (bn1, t1) /\ In (bn1, v1) recs /\
    fst (kap p so y) = DAux (2 * k2) i2 /\ nth_error (p_bases p) k2 = Some (bn2, t2) /\ In (bn2, v2) recs /\
    nth_error v1 i1 = Some (base_char b) /\ nth_error v2 i2 = Some (base_char (app_par (xorb (snd (kap p so x)) (snd (kap p so y))) b)).
Proof. intros LOAD SEED ARR FITS PR OR. destruct so.
  - apply (equal_ports_agree p lay true g nts SEED (sloaded_wf ls p lay g LOAD SEED) (sloaded_dgraph ls p lay g LOAD SEED) (sloaded_same ls p lay g LOAD SEED)
             (sloaded_graph_ok ls p lay g LOAD SEED) (sloaded_place ls p lay g LOAD SEED) e w s ARR FITS a recs PR OR).
  - apply (equal_ports_agree p lay false g nts SEED (loaded_wf ls p LOAD) (loaded_dgraph ls p lay g LOAD SEED) (loaded_same p lay g SEED)
             (loaded_graph_ok ls p lay g LOAD SEED) (loaded_place ls p lay g LOAD SEED) e w s ARR FITS a recs PR OR). Qed.

(* non-vacuity: in the demo document (an `equal b c`, b occurring starred inside the super-sequence of strand s1, c in strand s2)
   the link between b[0] and c[0] meets the premises: b[0] is read at position 4 of s1 (complemented), c[0] at position 0 of s2 *)
Example demo_equal_premises : In (DAux 2 0, DAux 4 0) (equal_links demo_spec) /\
  In ("s1"%string, ([SS "ab" false], 5, false)) (p_strands demo_spec) /\ In ("s2"%string, ([SB "c" false; SB "a" true], 5, false)) (p_strands demo_spec) /\
  nth 4 (flat_map (ref_c demo_spec (ctbl demo_spec)) [SS "ab" false]) (DAux 0 0, false) = (fst (kap demo_spec false (DAux 2 0)), true) /\
  nth 0 (flat_map (ref_c demo_spec (ctbl demo_spec)) [SB "c" false; SB "a" true]) (DAux 0 0, false) = (fst (kap demo_spec false (DAux 4 0)), false).
Proof. vm_compute. auto 10. Qed.
