(* The structure-oriented layout: where struct_layout puts the structures and the first occurrence of
   every strand, and what struct_index computes. *)
From Coq Require Import List String Ascii Arith Bool Lia.
From PC Require Import Base.Codes Comp.Syntax Comp.Compile Comp.EmitProofs Comp.CompileProofs Design.Designer Design.DesignerProofs Design.DGraph Design.DenoteGraph Design.DenoteTie
  Design.LoadProofs Design.LayoutProofs.
Import ListNotations.
Local Open Scope list_scope.

Section SL.
Variable p : pspec.
Local Notation slen := (strand_len p).

Definition swidth (names : list string) : nat := fold_right (fun n a => slen n + 1 + a) 0 names.
Lemma swidth_app a b : swidth (a ++ b) = swidth a + swidth b.
Proof. induction a as [|x a IH]; simpl; [reflexivity | rewrite IH; lia]. Qed.
Lemma swidth_total names : swidth names = total p names + List.length names.
Proof. induction names as [|x l IH]; simpl; [reflexivity|]. unfold total in *. simpl. rewrite IH. lia. Qed.

(* first occurrence of a strand in a list of names, as a position *)
Fixpoint occ_pos (names : list string) (n : string) (pos : nat) : option nat :=
  match names with [] => None | m :: r => if String.eqb m n then Some pos else occ_pos r n (pos + slen m + 1) end.

Lemma struct_walk_spec names : forall pos starts,
  fst (struct_walk p names pos starts) = pos + swidth names /\
  forall n, afind (snd (struct_walk p names pos starts)) n = match afind starts n with Some x => Some x | None => occ_pos names n pos end.
Proof. induction names as [|m names IH]; intros pos starts; simpl.
  - split; [lia|]. intros n. destruct (afind starts n); reflexivity.
  - fold (slen m). destruct (IH (pos + slen m + 1) (if ahas starts m then starts else starts ++ [(m, pos)])) as [A B]. split; [rewrite A; lia|].
    intros n. rewrite B. destruct (ahas starts m) eqn:HM.
    + destruct (afind starts n) eqn:AN; [reflexivity|]. destruct (String.eqb m n) eqn:E; [|reflexivity].
      apply String.eqb_eq in E. subst m. unfold ahas in HM. rewrite AN in HM. discriminate.
    + rewrite afind_app. destruct (afind starts n) eqn:AN; [reflexivity|]. simpl. destruct (String.eqb m n); reflexivity. Qed.

Definition sswidth (sts : list (string * (list string * list sym * nat))) : nat :=
  fold_right (fun '(_, (names, _, _)) a => swidth names + 1 + a) 0 sts.
Fixpoint tfirst (sts : list (string * (list string * list sym * nat))) (n : string) (pos : nat) : option nat :=
  match sts with
  | [] => None
  | (_, (names, _, _)) :: r => match occ_pos names n pos with Some x => Some x | None => tfirst r n (pos + swidth names + 1) end
  end.
Fixpoint sfirst (sts : list (string * (list string * list sym * nat))) (sn : string) (pos : nat) : option nat :=
  match sts with
  | [] => None
  | (m, (names, _, _)) :: r => if String.eqb m sn then Some pos else sfirst r sn (pos + swidth names + 1)
  end.

Lemma struct_layout_spec sts : forall pos ss ts,
  (forall sn, afind (fst (struct_layout p sts pos ss ts)) sn = match afind ss sn with Some x => Some x | None => sfirst sts sn pos end) /\
  (forall n, afind (snd (struct_layout p sts pos ss ts)) n = match afind ts n with Some x => Some x | None => tfirst sts n pos end).
Proof. induction sts as [|[m [[names sy] l]] sts IH]; intros pos ss ts; simpl.
  - split; intros x; [destruct (afind ss x) | destruct (afind ts x)]; reflexivity.
  - destruct (struct_walk p names pos ts) as [pos' ts'] eqn:SW. pose proof (struct_walk_spec names pos ts) as [A B]. rewrite SW in A, B. simpl in A, B. subst pos'.
    destruct (IH (pos + swidth names + 1) (ss ++ [(m, pos)]) ts') as [C D]. split.
    + intros sn. rewrite C, afind_app. destruct (afind ss sn) eqn:AS; [reflexivity|]. simpl. destruct (String.eqb m sn); reflexivity.
    + intros n. rewrite D, B. destruct (afind ts n); [reflexivity|]. destruct (occ_pos names n pos); reflexivity. Qed.

Lemma occ_joint names n : forall off0 pos0 off, occ_offset p names n off0 = Some off ->
  exists pre post, names = pre ++ n :: post /\ off = off0 + total p pre /\ occ_pos names n pos0 = Some (pos0 + swidth pre).
Proof. induction names as [|m names IH]; intros off0 pos0 off H; simpl in H; [discriminate|]. simpl. destruct (String.eqb m n) eqn:E.
  - apply String.eqb_eq in E. subst m. inversion H; subst. exists [], names. simpl. split; [reflexivity | split; [unfold total; simpl; lia | f_equal; lia]].
  - destruct (IH (off0 + slen m) (pos0 + slen m + 1) off H) as [pre [post [A [B C]]]]. exists (m :: pre), post. subst names. simpl.
    split; [reflexivity | split; [unfold total in *; simpl; lia | rewrite C; f_equal; lia]]. Qed.
Lemma occ_none names n : forall off0 pos0, occ_offset p names n off0 = None -> occ_pos names n pos0 = None.
Proof. induction names as [|m names IH]; intros off0 pos0 H; simpl in *; [reflexivity|]. destruct (String.eqb m n); [discriminate | apply (IH _ _ H)]. Qed.

Lemma first_joint sts n : forall pos0 sn off, first_inst_in p sts n = Some (sn, off) ->
  exists before names sy l after pre post, sts = before ++ (sn, (names, sy, l)) :: after /\ names = pre ++ n :: post /\ off = total p pre /\
    tfirst sts n pos0 = Some (pos0 + sswidth before + swidth pre).
Proof. induction sts as [|[m [[names sy] l]] sts IH]; intros pos0 sn off H; simpl in H; [discriminate|]. simpl.
  destruct (occ_offset p names n 0) as [o|] eqn:E.
  - inversion H; subst. destruct (occ_joint names n 0 pos0 off E) as [pre [post [A [B C]]]]. rewrite C.
    exists [], names, sy, l, sts, pre, post. simpl. split; [reflexivity | split; [exact A | split; [lia | f_equal; lia]]].
  - rewrite (occ_none names n 0 pos0 E). destruct (IH (pos0 + swidth names + 1) sn off H) as [before [nm [sy' [l' [after [pre [post [A [B [C D]]]]]]]]]].
    exists ((m, (names, sy, l)) :: before), nm, sy', l', after, pre, post. subst sts. simpl. split; [reflexivity | split; [exact B | split; [exact C | rewrite D; f_equal; lia]]]. Qed.

Lemma sfirst_at before sn names sy l after : forall pos0, ~ In sn (map fst before) ->
  sfirst (before ++ (sn, (names, sy, l)) :: after) sn pos0 = Some (pos0 + sswidth before).
Proof. induction before as [|[m [[nm sy0] l0]] before IH]; intros pos0 NI; simpl.
  - rewrite String.eqb_refl. f_equal. lia.
  - destruct (String.eqb m sn) eqn:E; [apply String.eqb_eq in E; subst; exfalso; apply NI; left; reflexivity|].
    rewrite IH by (intros C; apply NI; right; exact C). f_equal. lia. Qed.

Lemma walk_index_true pre : forall n post x base o ts, x = total p pre + o -> o < slen n ->
  walk_index p (pre ++ n :: post) x base true ts = Some (base + swidth pre + o).
Proof. induction pre as [|m pre IH]; intros n post x base o ts Ex Ho; cbn [app walk_index].
  - fold (slen n). unfold total in Ex. simpl in Ex. subst x. destruct (Nat.leb_spec (slen n) o); [lia|]. simpl. f_equal. lia.
  - fold (slen m). unfold total in Ex. simpl in Ex. fold (total p pre) in Ex. destruct (Nat.leb_spec (slen m) x); [|lia].
    rewrite (IH n post (x - slen m) (base + slen m + 1) o ts) by lia. simpl. f_equal. lia. Qed.

Lemma first_none sts n : forall pos0, first_inst_in p sts n = None -> tfirst sts n pos0 = None.
Proof. induction sts as [|[m [[names sy] l]] sts IH]; intros pos0 H; simpl in *; [reflexivity|].
  destruct (occ_offset p names n 0) as [o|] eqn:E; [discriminate|]. rewrite (occ_none names n 0 pos0 E). apply IH, H. Qed.
Lemma occ_offset_some names n : forall off0, In n names -> occ_offset p names n off0 <> None.
Proof. induction names as [|m names IH]; intros off0 H; [destruct H|]. simpl. destruct (String.eqb m n) eqn:E; [discriminate|].
  destruct H as [H|H]; [subst; rewrite String.eqb_refl in E; discriminate | apply IH, H]. Qed.
Lemma first_some sts n sn names sy l : In (sn, (names, sy, l)) sts -> In n names -> first_inst_in p sts n <> None.
Proof. induction sts as [|[m [[nm sy0] l0]] sts IH]; intros H Hn; [destruct H|]. simpl.
  destruct (occ_offset p nm n 0) as [o|] eqn:E; [discriminate|]. destruct H as [H|H]; [|apply (IH H Hn)].
  inversion H; subst. exfalso. apply (occ_offset_some names n 0 Hn E). Qed.
Lemma occ_links_In so sn names : forall off a b, In (a, b) (occ_links p so sn names off) ->
  exists pre n post x, names = pre ++ n :: post /\ x < slen n /\ a = spos p so n x /\ b = DInst sn (off + total p pre + x).
Proof. induction names as [|m names IH]; intros off a b H; simpl in H; [destruct H|]. apply in_app_or in H. destruct H as [H|H].
  - apply in_map_iff in H. destruct H as [x [E Hx]]. apply in_seq in Hx. inversion E; subst. exists [], m, names, x.
    split; [reflexivity | split; [lia | split; [reflexivity | unfold total; simpl; f_equal; lia]]].
  - destruct (IH _ _ _ H) as [pre [n [post [x [E [Hx [A B]]]]]]]. exists (m :: pre), n, post, x. subst names.
    split; [reflexivity | split; [exact Hx | split; [exact A | rewrite B; unfold total; simpl; f_equal; lia]]]. Qed.
Lemma walk_index_lt names : forall x base ts i, walk_index p names x base true ts = Some i -> x < total p names.
Proof. induction names as [|m names IH]; intros x base ts i H; cbn [walk_index] in H; [discriminate|]. unfold total. simpl. fold (total p names). fold (slen m) in H.
  destruct (Nat.leb_spec (slen m) x) as [L|G]; [|lia]. pose proof (IH _ _ _ _ H). lia. Qed.
End SL.

(* ---- the auxiliary nodes behind the positions, for any layout ---- *)
Section AuxGen.
Variable p : pspec.
Variable lay : layout.
Local Notation encn := (enc p lay).
(* the auxiliary nodes: numbered objects laid out one after the other behind the positions *)
Lemma sum_firstn_S l : forall n, sum_list (firstn (S n) l) = sum_list (firstn n l) + nth n l 0.
Proof. induction l as [|x l IH]; intros n; [destruct n; reflexivity|]. destruct n as [|n]; simpl; [lia|]. simpl in IH. rewrite IH. lia. Qed.
Lemma num_start_S num : num_start p (S num) = num_start p num + nth num (num_lens p) 0.
Proof. unfold num_start. apply sum_firstn_S. Qed.
Lemma nth_pairs {X} (f : X -> nat) (l : list X) rest : forall k x, nth_error l k = Some x ->
  nth (2 * k) (flat_map (fun y => [f y; f y]) l ++ rest) 0 = f x /\ nth (2 * k + 1) (flat_map (fun y => [f y; f y]) l ++ rest) 0 = f x.
Proof. induction l as [|y l IH]; intros k x H; [destruct k; discriminate|]. destruct k as [|k]; simpl in H.
  - inversion H; subst. simpl. auto.
  - destruct (IH k x H) as [A B]. replace (2 * S k) with (S (S (2 * k))) by lia. replace (S (S (2 * k)) + 1) with (S (S (2 * k + 1))) by lia. simpl. auto. Qed.
Lemma lens_base k n t : nth_error (p_bases p) k = Some (n, t) ->
  nth (2 * k) (num_lens p) 0 = List.length t /\ nth (2 * k + 1) (num_lens p) 0 = List.length t.
Proof. intros H. unfold num_lens.
  assert (Q : flat_map (fun '(_, t) => [List.length t; List.length t]) (p_bases p) = flat_map (fun y : string * list ascii => [List.length (snd y); List.length (snd y)]) (p_bases p)).
  { apply flat_map_ext. intros [a b]. reflexivity. }
  rewrite Q. apply (nth_pairs (fun y : string * list ascii => List.length (snd y)) (p_bases p) _ k (n, t) H). Qed.
Lemma lens_sup j n its l : nth_error (p_sups p) j = Some (n, (its, l)) ->
  nth (2 * List.length (p_bases p) + 2 * j) (num_lens p) 0 = l /\ nth (2 * List.length (p_bases p) + 2 * j + 1) (num_lens p) 0 = l.
Proof. intros H. unfold num_lens.
  assert (L : List.length (flat_map (fun '(_, t) => [List.length t; List.length t]) (p_bases p)) = 2 * List.length (p_bases p)).
  { induction (p_bases p) as [|[a b] bs IH]; [reflexivity|]. simpl. rewrite IH. lia. }
  assert (Q : flat_map (fun '(_, (_, l)) => [l; l]) (p_sups p) = flat_map (fun y : string * (list sref * nat) => [snd (snd y); snd (snd y)]) (p_sups p)).
  { apply flat_map_ext. intros [a [b c]]. reflexivity. }
  rewrite Q. rewrite !app_nth2 by lia. rewrite L.
  replace (2 * List.length (p_bases p) + 2 * j - 2 * List.length (p_bases p)) with (2 * j) by lia.
  replace (2 * List.length (p_bases p) + 2 * j + 1 - 2 * List.length (p_bases p)) with (2 * j + 1) by lia.
  pose proof (nth_pairs (fun y : string * (list sref * nat) => snd (snd y)) (p_sups p) [] j (n, (its, l)) H) as [A B]. rewrite app_nil_r in A, B. auto. Qed.

Lemma fst_combine_seq {X} (f : nat -> dnode) (t : list X) : forall s, 
  map fst (map (fun xc : nat * X => (f (fst xc), snd xc)) (combine (seq s (List.length t)) t)) = map f (seq s (List.length t)).
Proof. induction t as [|c t IH]; intros s; [reflexivity|]. simpl. rewrite IH. reflexivity. Qed.
Lemma enc_run num len : map encn (map (fun x => DAux num x) (seq 0 len)) = map (fun x => l_npos lay + num_start p num + x) (seq 0 len).
Proof. rewrite map_map. reflexivity. Qed.

Let NS (num : nat) : nat := l_npos lay + num_start p num.
Lemma base_ib bs : forall num0,
  (forall k n t, nth_error bs k = Some (n, t) -> nth (num0 + 2 * k) (num_lens p) 0 = List.length t /\ nth (num0 + 2 * k + 1) (num_lens p) 0 = List.length t) ->
  ib (NS num0) (NS (num0 + 2 * List.length bs)) (map encn (map fst (base_nodes bs num0))).
Proof. induction bs as [|[n t] bs IH]; intros num0 H.
  - simpl. rewrite Nat.add_0_r. apply ib_nil.
  - destruct (H 0 n t eq_refl) as [H0 H1]. rewrite Nat.add_0_r in H0. replace (num0 + 2 * 0 + 1) with (S num0) in H1 by lia.
    cbn [base_nodes]. rewrite !map_app, (fst_combine_seq (fun x => DAux num0 x) t 0), !map_map. cbn [fst].
    assert (E1 : NS (S num0) = NS num0 + List.length t) by (unfold NS; rewrite num_start_S, H0; lia).
    assert (E2 : NS (S (S num0)) = NS (S num0) + List.length t) by (unfold NS; rewrite (num_start_S (S num0)), H1; lia).
    assert (IHb : ib (NS (S (S num0))) (NS (num0 + 2 * List.length ((n, t) :: bs))) (map encn (map fst (base_nodes bs (S (S num0)))))).
    { replace (num0 + 2 * List.length ((n, t) :: bs)) with (S (S num0) + 2 * List.length bs) by (simpl; lia). apply IH.
      intros k n' t' Hk. replace (S (S num0) + 2 * k) with (num0 + 2 * S k) by lia. apply (H (S k) n' t' Hk). }
    assert (M : NS (S (S num0)) <= NS (num0 + 2 * List.length ((n, t) :: bs))).
    { destruct IHb as [_ B]. destruct (map encn (map fst (base_nodes bs (S (S num0))))) as [|z zs] eqn:Z.
      - clear - NS. (* empty rest: all remaining lengths are zero, bound by monotonicity of num_start *)
        assert (MON : forall a b, a <= b -> num_start p a <= num_start p b).
        { intros a b Lab. induction Lab; [lia|]. rewrite num_start_S. lia. }
        pose proof (MON (S (S num0)) (num0 + 2 * List.length ((n, t) :: bs)) ltac:(simpl; lia)). unfold NS. lia.
      - pose proof (B z (or_introl eq_refl)). lia. }
    apply (ib_app _ (NS (S num0))); [lia | lia | rewrite E1; apply (ib_run (NS num0) (List.length t))|].
    apply (ib_app _ (NS (S (S num0)))); [lia | exact M | rewrite E2; apply (ib_run (NS (S num0)) (List.length t)) | rewrite map_map in IHb; exact IHb]. Qed.

Lemma NS_mono a b : a <= b -> NS a <= NS b.
Proof. intros Lab. unfold NS. induction Lab; [lia|]. rewrite num_start_S. lia. Qed.

Lemma sup_ib ss : forall num0,
  (forall j n its l, nth_error ss j = Some (n, (its, l)) -> nth (num0 + 2 * j) (num_lens p) 0 = l /\ nth (num0 + 2 * j + 1) (num_lens p) 0 = l) ->
  ib (NS num0) (NS (num0 + 2 * List.length ss)) (map encn (map fst (sup_nodes ss num0))).
Proof. induction ss as [|[n [its l]] ss IH]; intros num0 H.
  - simpl. rewrite Nat.add_0_r. apply ib_nil.
  - destruct (H 0 n its l eq_refl) as [H0 H1]. rewrite Nat.add_0_r in H0. replace (num0 + 2 * 0 + 1) with (S num0) in H1 by lia.
    cbn [sup_nodes]. rewrite !map_app, !map_map. cbn [fst].
    assert (E1 : NS (S num0) = NS num0 + l) by (unfold NS; rewrite num_start_S, H0; lia).
    assert (E2 : NS (S (S num0)) = NS (S num0) + l) by (unfold NS; rewrite (num_start_S (S num0)), H1; lia).
    assert (IHb : ib (NS (S (S num0))) (NS (num0 + 2 * List.length ((n, (its, l)) :: ss))) (map encn (map fst (sup_nodes ss (S (S num0)))))).
    { replace (num0 + 2 * List.length ((n, (its, l)) :: ss)) with (S (S num0) + 2 * List.length ss) by (simpl; lia). apply IH.
      intros j n' its' l' Hj. replace (S (S num0) + 2 * j) with (num0 + 2 * S j) by lia. apply (H (S j) n' its' l' Hj). }
    assert (M : NS (S (S num0)) <= NS (num0 + 2 * List.length ((n, (its, l)) :: ss))) by (apply NS_mono; simpl; lia).
    apply (ib_app _ (NS (S num0))); [lia | lia | rewrite E1; apply (ib_run (NS num0) l)|].
    apply (ib_app _ (NS (S (S num0)))); [lia | exact M | rewrite E2; apply (ib_run (NS (S num0)) l) | rewrite map_map in IHb; exact IHb]. Qed.


Lemma aux_ib : ib (l_npos lay) (NS (nb p + 2 * List.length (p_sups p)))
  (map encn (map fst (base_nodes (p_bases p) 0)) ++ map encn (map fst (sup_nodes (p_sups p) (nb p)))).
Proof. assert (B : ib (NS 0) (NS (0 + 2 * List.length (p_bases p))) (map encn (map fst (base_nodes (p_bases p) 0)))).
  { apply base_ib. intros k n t Hk. apply (lens_base k n t Hk). }
  assert (S0 : ib (NS (nb p)) (NS (nb p + 2 * List.length (p_sups p))) (map encn (map fst (sup_nodes (p_sups p) (nb p))))).
  { apply sup_ib. intros j n its l Hj. apply (lens_sup j n its l Hj). }
  assert (Z : NS 0 = l_npos lay) by (unfold NS, num_start; simpl; lia).
  rewrite <- Z. apply (ib_app _ (NS (nb p))); [apply NS_mono; lia | apply NS_mono; lia | exact B | exact S0]. Qed.
End AuxGen.

Section StructLay.
Variable p : pspec.
Hypothesis LIp : LI p.
Let lay := build_layout p true.
Local Notation encn := (enc p lay).
Local Notation slen := (strand_len p).

Lemma sl_sstart sn : afind (l_sstart lay) sn = sfirst p (p_structs p) sn 0.
Proof. unfold lay, build_layout. destruct (struct_layout p (p_structs p) 0 [] []) as [ss ts] eqn:E. simpl.
  pose proof (proj1 (struct_layout_spec p (p_structs p) 0 [] []) sn) as H. rewrite E in H. exact H. Qed.
Lemma sl_tstart n : afind (l_tstart lay) n = tfirst p (p_structs p) n 0.
Proof. unfold lay, build_layout. destruct (struct_layout p (p_structs p) 0 [] []) as [ss ts] eqn:E. simpl.
  pose proof (proj2 (struct_layout_spec p (p_structs p) 0 [] []) n) as H. rewrite E in H. exact H. Qed.
Lemma sl_npos : l_npos lay = sswidth p (p_structs p).
Proof. unfold lay, build_layout. destruct (struct_layout p (p_structs p) 0 [] []) as [ss ts]. simpl.
  assert (G : forall sts a, fold_left (fun a '(_, (names, _, _)) => a + sum_list (map (fun n => match afind (p_strands p) n with Some (_, l, _) => l + 1 | None => 1 end) names) + 1) sts a = a + sswidth p sts).
  { induction sts as [|[m [[names sy] l]] sts IH]; intros a; simpl; [lia|]. rewrite IH.
    assert (Q : sum_list (map (fun n => match afind (p_strands p) n with Some (_, l0, _) => l0 + 1 | None => 1 end) names) = swidth p names).
    { clear. induction names as [|n names IHn]; simpl; [reflexivity|]. rewrite IHn. unfold strand_len. destruct (afind (p_strands p) n) as [[[i l0] d]|]; lia. }
    rewrite Q. lia. }
  apply (G (p_structs p) 0). Qed.
Lemma sswidth_app a b : sswidth p (a ++ b) = sswidth p a + sswidth p b.
Proof. induction a as [|[m [[names sy] l]] a IH]; simpl; [reflexivity | rewrite IH; lia]. Qed.

(* a structure entry: where it starts and what its positions are *)
Lemma struct_entry before sn names sy len after x pre n post o :
  p_structs p = before ++ (sn, (names, sy, len)) :: after -> names = pre ++ n :: post -> x = total p pre + o -> o < slen n ->
  encn (DInst sn x) = sswidth p before + swidth p pre + o.
Proof. intros E En Ex Ho. assert (NI : ~ In sn (map fst before)).
  { pose proof (li_nd_struct p LIp) as ND. rewrite E, map_app in ND. simpl in ND. intros C. apply (NoDup_app_disj _ _ ND sn C). left. reflexivity. }
  assert (AS : afind (p_structs p) sn = Some (names, sy, len)).
  { apply afind_In; [apply (li_nd_struct p LIp) | rewrite E; apply in_or_app; right; left; reflexivity]. }
  cbn [enc]. unfold struct_names, struct_index. rewrite AS, sl_sstart, E, (sfirst_at p before sn names sy len after 0 NI), En.
  rewrite (walk_index_true p pre n post x _ o _ Ex Ho). simpl. reflexivity. Qed.

(* a strand's own positions are those of its first occurrence *)
Lemma struct_place n items l d o sn off : In (n, (items, l, d)) (p_strands p) -> o < l -> first_inst_in p (p_structs p) n = Some (sn, off) ->
  afind (l_tstart lay) n = Some (tstart_of lay n) /\ encn (DInst sn (off + o)) = tstart_of lay n + o /\ tstart_of lay n + o < l_npos lay.
Proof. intros Hin Ho FI. destruct (first_joint p (p_structs p) n 0 sn off FI) as [before [names [sy [len [after [pre [post [E [En [Eo T]]]]]]]]]].
  assert (SL : slen n = l). { unfold strand_len. rewrite (afind_In _ _ _ (li_nd_strand p LIp) Hin). reflexivity. }
  assert (TS : tstart_of lay n = sswidth p before + swidth p pre) by (unfold tstart_of; rewrite sl_tstart, T; reflexivity).
  split; [rewrite sl_tstart, T, TS; reflexivity|]. split.
  - rewrite (struct_entry before sn names sy len after (off + o) pre n post o E En ltac:(lia) ltac:(lia)), TS. reflexivity.
  - rewrite TS, sl_npos, E, sswidth_app. simpl. rewrite En, swidth_app. simpl. lia. Qed.

Lemma total_cons n l : total p (n :: l) = strand_len p n + total p l.
Proof. reflexivity. Qed.
Lemma total_app2 a b : total p (a ++ b) = total p a + total p b.
Proof. unfold total. induction a as [|x a IH]; simpl; [reflexivity | rewrite IH; lia]. Qed.
Lemma seq_shift_map a n : seq a n = map (fun o => a + o) (seq 0 n).
Proof. revert a. induction n as [|n IH]; intros a; [reflexivity|]. simpl. rewrite Nat.add_0_r. f_equal. rewrite (IH (S a)), <- seq_shift, map_map. apply map_ext. intros o. lia. Qed.

(* the positions of one structure, strand occurrence by strand occurrence *)
Lemma struct_run before sn names sy len after : p_structs p = before ++ (sn, (names, sy, len)) :: after ->
  forall post pre, names = pre ++ post ->
  ib (sswidth p before + swidth p pre) (sswidth p before + swidth p pre + swidth p post)
     (map (fun x => encn (DInst sn x)) (seq (total p pre) (total p post))).
Proof. intros E. induction post as [|n post IH]; intros pre En; [apply ib_nil|].
  change (total p (n :: post)) with (slen n + total p post). rewrite seq_app, map_app. simpl (swidth p (n :: post)).
  assert (R : map (fun x => encn (DInst sn x)) (seq (total p pre) (slen n)) = map (fun o => sswidth p before + swidth p pre + o) (seq 0 (slen n))).
  { rewrite (seq_shift_map (total p pre) (slen n)), map_map. apply map_ext_in. intros o Ho. apply in_seq in Ho.
    apply (struct_entry before sn names sy len after _ pre n post o E En eq_refl). lia. }
  rewrite R. apply (ib_app _ (sswidth p before + swidth p pre + slen n + 1)); [lia | lia | apply (ib_weaken (sswidth p before + swidth p pre) (sswidth p before + swidth p pre + slen n)); [lia | lia | apply ib_run]|].
  specialize (IH (pre ++ [n])). rewrite <- app_assoc in IH. specialize (IH En). rewrite total_app2, swidth_app in IH. unfold total in IH at 2. simpl in IH.
  fold (slen n) in IH. rewrite !Nat.add_0_r in IH.
  refine (ib_weaken _ _ _ _ _ _ _ IH); lia. Qed.

Lemma structs_ib : forall after before, p_structs p = before ++ after ->
  ib (sswidth p before) (sswidth p before + sswidth p after)
     (flat_map (fun '(sn, (_, _, len)) => map (fun x => encn (DInst sn x)) (seq 0 len)) after).
Proof. induction after as [|[sn [[names sy] len]] after IH]; intros before E; [apply ib_nil|]. cbn [flat_map]. change (sswidth p ((sn, (names, sy, len)) :: after)) with (swidth p names + 1 + sswidth p after).
  pose proof (proj2 (li_struct p LIp sn names sy len ltac:(rewrite E; apply in_or_app; right; left; reflexivity))) as EL.
  pose proof (struct_run before sn names sy len after E names [] eq_refl) as R. unfold total in R at 1. simpl in R. rewrite Nat.add_0_r in R. rewrite <- EL in R.
  apply (ib_app _ (sswidth p before + swidth p names + 1)); [lia | lia | apply (ib_weaken (sswidth p before) (sswidth p before + swidth p names)); [lia | lia | exact R]|].
  specialize (IH (before ++ [(sn, (names, sy, len))])). rewrite <- app_assoc in IH. specialize (IH E). rewrite sswidth_app in IH. simpl in IH.
  rewrite ?Nat.add_0_r in IH. refine (ib_weaken _ _ _ _ _ _ _ IH); lia. Qed.

Theorem nodes_sincr_struct : sincr (map encn (nodes p true)) = true.
Proof. unfold nodes, d_nodes. rewrite !map_app.
  assert (P : ib 0 (l_npos lay) (map encn (map fst (pos_nodes p true)))).
  { pose proof (structs_ib (p_structs p) [] eq_refl) as Q. simpl in Q. rewrite <- sl_npos in Q.
    unfold pos_nodes. rewrite map_map_flat_map. erewrite flat_map_ext; [exact Q|]. intros [sn [[names sy] len]]. rewrite !map_map. reflexivity. }
  pose proof (aux_ib p lay) as A.
  exact (proj1 (ib_app 0 (l_npos lay) (l_npos lay + num_start p (nb p + 2 * List.length (p_sups p))) _ _ (Nat.le_0_l _) (Nat.le_add_r _ _) P A)). Qed.

(* ---- every link joins declared nodes (structure layout) ---- *)
Hypothesis PL : placed p.
Hypothesis BR : forall sn names sy len bs x y, In (sn, (names, sy, len)) (p_structs p) -> get_bonds sy = OK bs -> In (x, y) bs -> x < len /\ y < len.
Let WF : spec_wf p true := LI_spec_wf p true LIp (fun _ => PL).

Lemma inst_node sn names sy len x : In (sn, (names, sy, len)) (p_structs p) -> x < len -> In (DInst sn x) (nodes p true).
Proof. intros Hin Hx. unfold nodes, d_nodes. rewrite map_app. apply in_or_app. left. apply in_map_iff. exists (DInst sn x, Nc). split; [reflexivity|].
  unfold pos_nodes. apply in_flat_map. exists (sn, (names, sy, len)). split; [exact Hin|]. apply in_map_iff. exists x. split; [reflexivity | apply in_seq; lia]. Qed.
Lemma spos_node n x : x < slen n -> first_inst_in p (p_structs p) n <> None -> In (spos p true n x) (nodes p true).
Proof. intros Hx FN. unfold spos. destruct (first_inst_in p (p_structs p) n) as [[sn off]|] eqn:FI; [|exfalso; apply FN; reflexivity].
  destruct (first_joint p (p_structs p) n 0 sn off FI) as [before [names [sy [len [after [pre [post [E [En [Eo _]]]]]]]]]].
  assert (Hin : In (sn, (names, sy, len)) (p_structs p)) by (rewrite E; apply in_or_app; right; left; reflexivity).
  apply (inst_node sn names sy len _ Hin). rewrite (proj2 (li_struct p LIp sn names sy len Hin)), En, total_app2, total_cons. lia. Qed.
Lemma base_node_t k n t x (r : bool) : nth_error (p_bases p) k = Some (n, t) -> x < List.length t -> In (DAux (2 * k + (if r then 1 else 0)) x) (nodes p true).
Proof. intros Hk Hx. unfold nodes, d_nodes. rewrite !map_app, !in_app_iff. right. left. destruct (base_nodes_mem (p_bases p) 0 k n t x Hk Hx) as [A B].
  destruct r; [exact B | rewrite Nat.add_0_r; exact A]. Qed.
Lemma sup_node_t j n its l x (r : bool) : nth_error (p_sups p) j = Some (n, (its, l)) -> x < l -> In (DAux (nb p + 2 * j + (if r then 1 else 0)) x) (nodes p true).
Proof. intros Hj Hx. unfold nodes, d_nodes. rewrite !map_app, !in_app_iff. right. right. destruct (sup_nodes_mem (p_sups p) (nb p) j n its l x Hj Hx) as [A B].
  destruct r; [exact B | rewrite Nat.add_0_r; exact A]. Qed.
Lemma num_node_t B it num x : item_ok p B it -> sref_num p it = Some num -> x < sref_len p it -> In (DAux num x) (nodes p true).
Proof. intros OK HN Hx. destruct it as [n r|n r]; cbn [item_ok sref_num sref_len] in *.
  - destruct OK as [k [t [E1 [E2 E3]]]]. rewrite E1 in HN. rewrite E3 in Hx. cbn [option_map] in HN. inversion HN. apply (base_node_t k n t x r E2 Hx).
  - destruct OK as [j [its [l [E1 [_ [E2 E3]]]]]]. rewrite E1 in HN. rewrite E3 in Hx. cbn [option_map] in HN. inversion HN. apply (sup_node_t j n its l x r E2 Hx). Qed.

Theorem links_valid_struct a b : In (a, b) (dlinks p true) -> In a (nodes p true) /\ In b (nodes p true).
Proof. unfold dlinks, d_eq, d_wc, inst_links. rewrite !in_app_iff. intros [[H|[H|[H|H]]]|[H|[H|H]]].
  - (* occurrences of strands in structures *)
    apply in_flat_map in H. destruct H as [[sn [[names sy] len]] [Hin H]]. destruct (occ_links_In p true sn names 0 a b H) as [pre [n [post [x [En [Hx [-> ->]]]]]]].
    split.
    + apply (spos_node n x Hx). apply (first_some p (p_structs p) n sn names sy len Hin). rewrite En. apply in_or_app. right. left. reflexivity.
    + apply (inst_node sn names sy len _ Hin). rewrite (proj2 (li_struct p LIp sn names sy len Hin)), En, total_app2, total_cons. lia.
  - (* equal statements *)
    unfold equal_links in H. apply in_flat_map in H. destruct H as [eqlist [Hin H]]. destruct eqlist as [|first rest]; [destruct H|].
    destruct (li_equal p LIp first rest Hin first (or_introl eq_refl)) as [IF _].
    destruct (sref_num p first) as [n0|] eqn:N0; [|destruct H]. apply in_flat_map in H. destruct H as [s0 [Hs H]].
    destruct (li_equal p LIp first rest Hin s0 (or_intror Hs)) as [IS EL].
    destruct (sref_num p s0) as [n1|] eqn:N1; [|destruct H]. apply in_map_iff in H. destruct H as [x [E Hx]]. inversion E; subst. apply in_seq in Hx.
    split; [apply (num_node_t _ first n0 x (iok_item_ok p _ first LIp IF) N0); rewrite <- EL; lia | apply (num_node_t _ s0 n1 x (iok_item_ok p _ s0 LIp IS) N1); lia].
  - (* items of super-sequences *)
    unfold sup_item_links in H. apply in_flat_map in H. destruct H as [[n [items l]] [Hin H]]. apply In_nth_error in Hin. destruct Hin as [j Hj].
    destruct (wf_sup p true WF j n items l Hj) as [OK EL]. cbn [sref_num] in H. rewrite (wf_sup_idx p true WF j n items l Hj) in H. cbn [option_map] in H.
    apply (item_links_In p j items OK) in H. destruct H as [pre [it [post [num [x [E [A [Bx [-> ->]]]]]]]]].
    assert (OKit : item_ok p j it) by (apply OK; rewrite E; apply in_or_app; right; left; reflexivity).
    split; [|apply (num_node_t j it num x OKit A Bx)].
    replace (2 * List.length (p_bases p) + 2 * j + 0) with (nb p + 2 * j + (if false then 1 else 0)) by (unfold nb; lia).
    apply (sup_node_t j n items l _ false Hj). rewrite EL, E, refs_total_app. simpl. lia.
  - (* items of strands *)
    unfold strand_item_links in H. apply in_flat_map in H. destruct H as [[n [[items l] d]] [Hin H]].
    destruct (wf_strand p true WF n items l d Hin) as [AF [OK EL]].
    apply (item_links_In p _ items OK) in H. destruct H as [pre [it [post [num [x [E [A [Bx [-> ->]]]]]]]]].
    assert (OKit : item_ok p (List.length (p_sups p)) it) by (apply OK; rewrite E; apply in_or_app; right; left; reflexivity).
    split; [|apply (num_node_t _ it num x OKit A Bx)].
    assert (SL : slen n = l) by (unfold strand_len; rewrite AF; reflexivity).
    assert (LT : 0 + refs_total p pre + x < l) by (rewrite EL, E, refs_total_app; simpl; lia).
    apply spos_node; [rewrite SL; exact LT | apply (PL n items l d Hin); lia].
  - (* base pairs *)
    unfold bond_links in H. apply in_flat_map in H. destruct H as [[sn [[names sy] ln]] [Hin H]]. destruct (get_bonds sy) as [bs|] eqn:GB; [|destruct H].
    apply in_flat_map in H. destruct H as [[x y] [Hxy H]]. destruct H as [H|[]]. inversion H; subst.
    destruct (BR sn names sy ln bs x y Hin GB Hxy) as [Lx Ly]. split; [apply (inst_node sn names sy ln x Hin Lx) | apply (inst_node sn names sy ln y Hin Ly)].
  - (* reversed views of sequences *)
    apply (view_links_In p) in H. destruct H as [i [l [x [Hl [Hx [-> ->]]]]]]. rewrite nth_error_map in Hl.
    destruct (nth_error (p_bases p) i) as [[n t]|] eqn:Hb; [|discriminate]. simpl in Hl. inversion Hl; subst l.
    split; [apply (base_node_t i n t x true Hb Hx) | replace (0 + 2 * i) with (2 * i + (if false then 1 else 0)) by lia; apply (base_node_t i n t _ false Hb); lia].
  - (* reversed views of super-sequences *)
    apply (view_links_In p) in H. destruct H as [i [l [x [Hl [Hx [-> ->]]]]]]. rewrite nth_error_map in Hl.
    destruct (nth_error (p_sups p) i) as [[n [its l']]|] eqn:Hs; [|discriminate]. simpl in Hl. inversion Hl; subst l'.
    split; [apply (sup_node_t i n its l x true Hs Hx) | replace (nb p + 2 * i) with (nb p + 2 * i + (if false then 1 else 0)) by lia; apply (sup_node_t i n its l _ false Hs); lia]. Qed.

Theorem dgraph_ok_struct : dgraph_ok p lay true = true.
Proof. unfold dgraph_ok. rewrite nodes_sincr_struct. apply forallb_forall. intros [a b] H. destruct (links_valid_struct a b H) as [A B].
  cbn [fst snd]. rewrite (memd_complete a _ A), (memd_complete b _ B). reflexivity. Qed.

Theorem place_ok_struct : place_okb p lay true = true.
Proof. unfold place_okb. apply forallb_forall. intros [n [[its l] d]] Hin. apply andb_true_intro. split.
  - destruct (Nat.eqb_spec l 0) as [Z|NZ]; [reflexivity|]. cbn [orb].
    destruct (first_inst_in p (p_structs p) n) as [[sn off]|] eqn:FI; [|exfalso; apply (PL n its l d Hin NZ FI)].
    destruct (struct_place n its l d 0 sn off Hin ltac:(lia) FI) as [A _]. rewrite A. reflexivity.
  - apply forallb_forall. intros o Ho. apply in_seq in Ho.
    destruct (first_inst_in p (p_structs p) n) as [[sn off]|] eqn:FI; [|exfalso; apply (PL n its l d Hin ltac:(lia) FI)].
    destruct (struct_place n its l d o sn off Hin ltac:(lia) FI) as [_ [B C]]. unfold spos. rewrite FI, B, Nat.eqb_refl. apply Nat.ltb_lt, C. Qed.
End StructLay.
