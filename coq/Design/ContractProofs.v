(* C05: the files written for the designer satisfy the spuriousSSM input contract, for every
   specification whose constraint generation returns arrays: equal lengths, 1-based indices, 0 / -1 /
   blank exactly at the uninitialised positions, eq idempotent and pointing at the lowest member,
   wc of wc equal to eq, equal positions carrying identical template codes and paired positions
   complementary ones (the predicate contract_ok is the model of test_consistency / load_input_files
   that the correspondence check evaluates on the real files). *)
From Coq Require Import List String Ascii Arith Bool ZArith Lia.
From PC Require Import Base.Codes Base.Tables Comp.Syntax Comp.Compile Design.Propagate Design.PropagateProofs Design.Designer Design.DesignerProofs
  Design.TemplateProofs SSM.Contract.
Import ListNotations.
Local Open Scope list_scope.

Lemma fold_max_le npos l : forall a0, a0 <= npos -> fold_left (fun a k => if k <? npos then Nat.max a (S k) else a) l a0 <= npos.
Proof. induction l as [|x l IH]; intros a0 H; simpl; [exact H|]. apply IH. destruct (x <? npos) eqn:L; [apply Nat.ltb_lt in L; lia | exact H]. Qed.
Lemma fold_max_ge npos l : forall a0 k, In k l -> k < npos -> k < fold_left (fun a k => if k <? npos then Nat.max a (S k) else a) l a0.
Proof. assert (GE : forall l a, a <= fold_left (fun a k => if k <? npos then Nat.max a (S k) else a) l a).
  { induction l0 as [|y l0 IHl]; intros a; simpl; [lia|]. etransitivity; [|apply IHl]. destruct (y <? npos); lia. }
  induction l as [|x ks IH]; intros a0 k Hk Lk; [destruct Hk|]. simpl. destruct Hk as [->|Hk].
  - replace (k <? npos) with true by (symmetry; apply Nat.ltb_lt; exact Lk). pose proof (GE ks (Nat.max a0 (S k))). lia.
  - apply IH; assumption. Qed.

Section Files.
Variable p : pspec.
Variable so : bool.
Variable lay : layout.
Variable g : cgraph.
Hypothesis SEED : seed p so = OK (lay, g).
Hypothesis GOK : graph_ok g = true.
Variables (e w : list (option nat)) (s : list (option ascii)).
Hypothesis ARR : get_constraints p so = DOk e w s.
Let npos := l_npos lay.
Let GC := proj1 (graph_ok_spec g GOK).

Lemma arrays_form : exists m n,
  (forall x, In x (g_keys g) -> exists E W, get m x = Some (E, W) /\
     (forall z, In z E <-> gconn g x false z) /\ (forall z, In z W <-> gconn g x true z)) /\
  (forall y, get m y <> None -> In y (g_keys g)) /\
  e = map (eq_rep npos m) (seq 0 n) /\ w = map (wc_rep npos m) (seq 0 n) /\ List.length s = n /\
  n <= npos /\ (forall k, In k (g_keys g) -> k < npos -> k < n).
Proof. destruct (gc_cases g GOK) as [m [PM Hm]]. pose proof ARR as A. unfold get_constraints in A. rewrite SEED, PM in A.
  destruct (templates m (g_keys g) (g_st g) []) as [[st'|] b] eqn:T; [|destruct b; discriminate].
  inversion A; subst e w s. clear A. eexists m, _. split; [exact Hm|]. split.
  { apply (propagate_dom (adj (g_eq g)) (adj (g_wc g)) (g_keys g) (graph_closed_spec g GC) (fun y z => adj_sym _ y z) (fun y z => adj_sym _ y z) m PM). }
  split; [reflexivity | split; [reflexivity | split; [rewrite map_length, seq_length; reflexivity|]]]. fold npos. split.
  - apply fold_max_le. lia.
  - intros k Hk Lk. apply fold_max_ge; assumption. Qed.

Lemma znth_map {A B} (f : A -> B) (l : list A) i d d' : f d' = d -> znth (map f l) (Z.of_nat i) d = f (nth i l d').
Proof. intros E. unfold znth. rewrite Nat2Z.id, <- E. apply map_nth. Qed.
Lemma nth_map_seq {B} (F : nat -> B) n i d : i < n -> nth i (map F (seq 0 n)) d = F i.
Proof. intros H. rewrite (nth_indep _ d (F 0)) by (rewrite map_length, seq_length; exact H). rewrite map_nth, seq_nth by exact H. reflexivity. Qed.
Lemma nth_of_error {A} (l : list A) i x d : nth_error l i = Some x -> nth i l d = x.
Proof. intros H. apply nth_error_nth. exact H. Qed.

Theorem files_contract : contract_ok (map eq_map e) (map wc_map w) (map st_map s) = true.
Proof. destruct arrays_form as [m [n [Hm [DOM [Ee [Ew [Ls [Ln Hn]]]]]]]].
  assert (Le : List.length e = n) by (rewrite Ee, map_length, seq_length; reflexivity).
  assert (Lw : List.length w = n) by (rewrite Ew, map_length, seq_length; reflexivity).
  unfold contract_ok. rewrite !map_length, Le, Lw, Ls, !Z.eqb_refl. cbn [andb]. apply forallb_forall. intros i Hi. apply in_seq in Hi.
  assert (Li : i < n) by lia. clear Hi.
  assert (EQ : forall j, j < n -> znth (map eq_map e) (Z.of_nat j) 0%Z = eq_map (eq_rep npos m j)).
  { intros j Lj. rewrite (znth_map eq_map e j 0%Z None eq_refl). rewrite Ee, (nth_map_seq _ n j None Lj). reflexivity. }
  assert (WC : forall j, j < n -> znth (map wc_map w) (Z.of_nat j) (-1)%Z = wc_map (wc_rep npos m j)).
  { intros j Lj. rewrite (znth_map wc_map w j (-1)%Z None eq_refl). rewrite Ew, (nth_map_seq _ n j None Lj). reflexivity. }
  assert (ST : forall j, znth (map st_map s) (Z.of_nat j) blank = st_map (nth j s None)).
  { intros j. apply (znth_map st_map s j blank None eq_refl). }
  assert (KEY : forall j, j < n -> In j (g_keys g) -> exists c S0, nth j s None = Some c /\ nth_error s j = Some (Some c) /\ group c = Some S0).
  { intros j Lj Kj. destruct (proj1 (template_clause p so lay g SEED GOK e w s ARR j ltac:(lia)) Kj) as [c [S0 [A [B _]]]].
    exists c, S0. split; [apply (nth_of_error _ _ _ _ A) | auto]. }
  unfold pos_ok. rewrite (EQ i Li), (WC i Li), (ST i).
  destruct (in_dec Nat.eq_dec i (g_keys g)) as [Ki|NK].
  - (* an initialised position *)
    destruct (KEY i Li Ki) as [c [S0 [Nc [NEc Gc]]]]. rewrite Nc. cbn [st_map].
    assert (NB : Ascii.eqb c blank = false).
    { destruct (Ascii.eqb c blank) eqn:Q; [|reflexivity]. apply Ascii.eqb_eq in Q. subst c. vm_compute in Gc. discriminate. }
    rewrite NB. assert (Lip : i < npos) by lia.
    destruct (eq_rep_defined g npos m Hm i Ki Lip) as [r Er]. rewrite Er. cbn [eq_map].
    pose proof (eq_rep_le g npos m Hm i r Ki Lip Er) as Rle.
    destruct (proj1 (eq_rep_least g npos m Hm i r Ki) Er) as [Cr [Lr _]].
    pose proof (conn_keys g GC i false r Ki Cr) as Kr. assert (Lrn : r < n) by lia.
    pose proof (eq_rep_idempotent g npos m Hm i r Ki Kr Lip Er) as Err.
    destruct (KEY r Lrn Kr) as [cr [Sr [Ncr [NEr _]]]].
    assert (cr = c). { symmetry. apply (proj1 (template_codes_agree p so lay g SEED GOK e w s ARR i r c cr Ki NEc NEr) Cr). } subst cr.
    replace (Z.of_nat r + 1 - 1)%Z with (Z.of_nat r) by lia. rewrite (EQ r Lrn), Err, (ST r), Ncr. cbn [eq_map st_map]. rewrite Z.eqb_refl, Ascii.eqb_refl, Gc.
    replace (1 <=? Z.of_nat r + 1)%Z with true by (symmetry; apply Z.leb_le; lia).
    replace (Z.of_nat r + 1 <=? Z.of_nat i + 1)%Z with true by (symmetry; apply Z.leb_le; lia). cbn [andb].
    destruct (wc_rep npos m i) as [wr|] eqn:Ew'; cbn [wc_map]; [|reflexivity].
    destruct (proj1 (wc_rep_least g npos m Hm i wr Ki) Ew') as [Cw [Lw' _]].
    pose proof (conn_keys g GC i true wr Ki Cw) as Kw. assert (Lwn : wr < n) by (apply Hn; assumption).
    destruct (KEY wr Lwn Kw) as [cw [Sw [Ncw [NEw _]]]].
    pose proof (proj2 (template_codes_agree p so lay g SEED GOK e w s ARR i wr c cw Ki NEc NEw) Cw) as CC.
    replace (Z.of_nat wr + 1 - 1)%Z with (Z.of_nat wr) by lia.
    rewrite (EQ wr Lwn), (WC wr Lwn), (ST wr), Ncw, (wc_rep_is_rep g npos m Hm i wr Ki Kw Ew'), (wc_of_wc_is_eq g npos m Hm i wr Ki Kw Ew'), Er.
    cbn [eq_map wc_map st_map]. unfold wc_code. rewrite CC, !Z.eqb_refl, Ascii.eqb_refl.
    replace (1 <=? Z.of_nat wr + 1)%Z with true by (symmetry; apply Z.leb_le; lia).
    replace (Z.of_nat wr + 1 <=? Z.of_nat n)%Z with true by (symmetry; apply Z.leb_le; lia).
    replace (Z.of_nat wr + 1 =? -1)%Z with false by (symmetry; apply Z.eqb_neq; lia). reflexivity.
  - (* a blank *)
    assert (Ns : nth i s None = None).
    { apply (nth_of_error s i None None). apply (proj2 (template_clause p so lay g SEED GOK e w s ARR i ltac:(lia)) NK). }
    assert (Gm : get m i = None). { destruct (get m i) eqn:Q; [|reflexivity]. exfalso. apply NK, DOM. rewrite Q. discriminate. }
    rewrite Ns. unfold eq_rep, wc_rep. rewrite Gm. reflexivity. Qed.
End Files.
