(* Glue only: read one s-expression request per line, call the extracted
   [Main.run], print one s-expression result per line.  Atoms are always
   written between double quotes, with backslash escapes for quote, backslash, newline. *)
open Model

let explode (s : string) : char list = List.init (String.length s) (String.get s)
let implode (l : char list) : string = String.of_seq (List.to_seq l)

exception Parse_error of string

let parse (s : string) : sexp =
  let n = String.length s in
  let pos = ref 0 in
  let rec skip () = if !pos < n && (s.[!pos] = ' ' || s.[!pos] = '\t') then (incr pos; skip ()) in
  let rec item () : sexp =
    skip ();
    if !pos >= n then raise (Parse_error "eof");
    match s.[!pos] with
    | '(' -> incr pos; let l = items [] in Li l
    | '"' -> incr pos;
        let b = Buffer.create 16 in
        let rec go () =
          if !pos >= n then raise (Parse_error "unterminated atom");
          match s.[!pos] with
          | '"' -> incr pos
          | '\\' -> (if !pos + 1 >= n then raise (Parse_error "bad escape");
                     (match s.[!pos+1] with
                      | 'n' -> Buffer.add_char b '\n'
                      | 't' -> Buffer.add_char b '\t'
                      | c -> Buffer.add_char b c);
                     pos := !pos + 2; go ())
          | c -> Buffer.add_char b c; incr pos; go () in
        go (); At (explode (Buffer.contents b))
    | c -> raise (Parse_error (Printf.sprintf "unexpected %c at %d" c !pos))
  and items acc =
    skip ();
    if !pos >= n then raise (Parse_error "eof in list");
    if s.[!pos] = ')' then (incr pos; List.rev acc) else let x = item () in items (x :: acc)
  in
  let r = item () in skip ();
  if !pos <> n then raise (Parse_error "trailing input"); r

let rec print (b : Buffer.t) (x : sexp) : unit =
  match x with
  | At a -> Buffer.add_char b '"';
      List.iter (fun c -> match c with
        | '"' -> Buffer.add_string b "\\\""
        | '\\' -> Buffer.add_string b "\\\\"
        | '\n' -> Buffer.add_string b "\\n"
        | '\t' -> Buffer.add_string b "\\t"
        | c -> Buffer.add_char b c) a;
      Buffer.add_char b '"'
  | Li l -> Buffer.add_char b '(';
      List.iteri (fun i y -> if i > 0 then Buffer.add_char b ' '; print b y) l;
      Buffer.add_char b ')'

let () =
  try
    while true do
      let line = input_line stdin in
      let out =
        try let r = run (parse line) in
            let b = Buffer.create 256 in print b r; Buffer.contents b
        with Parse_error m -> Printf.sprintf "(\"DriverParseError\" \"%s\")" m
           | Stack_overflow -> "(\"DriverStackOverflow\")"
      in
      print_string out; print_newline ()
    done
  with End_of_file -> ()
